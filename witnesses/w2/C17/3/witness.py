"""C17 / make_distinct drops an item that compares equal (==) to another item with an identical interval."""
import sys
from dataclasses import dataclass, field
from typing import List, Tuple
from graphtage.bounds import Range, make_distinct


@dataclass
class Cost:
    """A perfectly sound Bounded; dataclass gives it value equality."""
    lo: int
    hi: int
    steps: List[Tuple[int, int]] = field(default_factory=list)

    def bounds(self):
        return Range(self.lo, self.hi)

    def tighten_bounds(self):
        if self.steps:
            self.lo, self.hi = self.steps.pop(0)
            return True
        return False


def separated(x, y):
    X, Y = x.bounds(), y.bounds()
    return (X.definitive() and Y.definitive()) or X.upper_bound < Y.lower_bound or Y.upper_bound < X.lower_bound


bad = False
a = Cost(0, 10, [(2, 8), (5, 5)])
b = Cost(0, 10, [(2, 8), (5, 5)])
make_distinct(a, b)
if not separated(a, b):
    bad = True
    print(f"make_distinct(a, b) left a={a.bounds()} b={b.bounds()} (overlapping, not single-valued)")

a = Cost(0, 10, [(2, 8), (5, 5)])
b = Cost(0, 10, [(2, 8), (5, 5)])
c = Cost(3, 4, [(3, 3)])
make_distinct(a, b, c)
for x, y, n in ((a, b, 'a,b'), (a, c, 'a,c'), (b, c, 'b,c')):
    if not separated(x, y):
        bad = True
        print(f"make_distinct(a, b, c): pair {n} left as {x.bounds()} / {y.bounds()}")
sys.exit(1 if bad else 0)
