"""C01 witness 1: leaves of different types whose str() coincide are "matched" at cost 0, so a string that became a
number (or vice versa) is reported as kept and the diff claims the documents are identical."""
import io
import sys

from graphtage import json as gjson, BuildOptions, Match
from graphtage.printer import DEFAULT_PRINTER, Printer

DEFAULT_PRINTER.quiet = True

first = ["1", "1.5", {"k": "7"}]
second = [1, 1.5, {"k": 7}]

failures = []
for opts in (
        dict(),
        dict(allow_key_edits=False, auto_match_keys=False),
        dict(allow_list_edits=False),
        dict(allow_list_edits_when_same_length=False),
):
    a = gjson.build_tree(first, BuildOptions(**opts))
    b = gjson.build_tree(second, BuildOptions(**opts))
    reported = list(a.get_all_edits(b))            # what `graphtage --only-edits` lists
    d = a.diff(b)
    had_edits = any(any(e.has_non_zero_cost() for e in n.edit_list) for n in d.dfs())  # the CLI's exit status
    out = io.StringIO()
    gjson.JSONFormatter.DEFAULT_INSTANCE.print(Printer(out_stream=out, ansi_color=False, quiet=True), d)
    text = out.getvalue()
    if not reported and not had_edits:
        failures.append(f"options {opts}: {first!r} -> {second!r} yields no edit at all; the diff prints "
                        f"{' '.join(text.split())!r} with nothing marked (the first document had strings)")

leaf_edit = gjson.build_tree("1").edits(gjson.build_tree(1))
if isinstance(leaf_edit, Match) and leaf_edit.bounds().upper_bound == 0:
    failures.append(f'StringNode("1").edits(IntegerNode(1)) is {leaf_edit!r}: a zero-cost match, i.e. "kept"')

if failures:
    print("VIOLATION: a changed element is reported as kept")
    for f in failures:
        print(" -", f)
    sys.exit(1)
print("ok: the type change is reported")
sys.exit(0)
