"""C19 witness 4: BITWISE_OR (`lambda a, b: a | b`) applied to two classes builds a types.UnionType; turning that
object into text (str/ascii are white-listed, '%s' works too) runs CPython's union_repr, which does
getattr(member, '__origin__'), getattr(member, '__qualname__') and getattr(member, '__module__') on every member
class -- ordinary attribute reads that go through the metaclass' __getattribute__ and bypass get_member."""
import sys
from graphtage.expressions import parse

READS = []


class Meta(type):
    def __getattribute__(cls, name):
        if name.startswith('_'):
            READS.append(name)
        return super().__getattribute__(name)


class C(metaclass=Meta):
    _secret = 42


class D(C):
    pass


env = {'C': C, 'D': D}
bad = []

# control: building the union alone, or printing the class itself, reads nothing through getattr
for expr in ('len([C | str])', 'ascii(C)'):
    READS.clear()
    parse(expr).eval(locals=env)
    if READS:
        bad.append(f"control {expr!r} read {READS}")

for expr in ('ascii(C | str)', 'str(str | C)', '"%s" % [C | D]', 'len(ascii(C | D))'):
    READS.clear()
    try:
        parse(expr).eval(locals=env)
    except Exception:
        pass
    reads = [r for r in READS if r != '__class__']
    if reads:
        bad.append(f"evaluating {expr!r} read private attribute(s) {sorted(set(reads))} of the class(es)")

# related, informational only (does not decide the exit status): the repr of a module -- an "interpreter object" whose
# members get_member() refuses -- is produced by importlib._bootstrap._module_repr with plain getattr() calls
import types


class TrippedModule(types.ModuleType):
    def __getattribute__(self, name):
        if name.startswith('_'):
            READS.append(name)
        return super().__getattribute__(name)


m = TrippedModule('secretmod')
m.__file__ = '/private/path.py'
READS.clear()
text = parse('ascii(m)').eval(locals={'m': m})
if READS:
    print(f"note (related channel): 'ascii(m)' read {sorted(set(READS))} of the module and returned {text!r}")

if bad:
    for b in bad:
        print("VIOLATION:", b)
    sys.exit(1)
print("ok")
sys.exit(0)
