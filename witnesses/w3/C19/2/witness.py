"""C19: a match expression reads `__doc__` of any object through property.getter().

A property object is reachable as a public attribute of any class that declares one (`K.size`).  Its public method
`getter(x)` copies the property with `x` as the new fget, and CPython's property.__init__ then does
`getattr(x, '__doc__')` on the argument - an underscore attribute of an arbitrary object the expression can reach,
read without going through get_member.
"""
import sys
from graphtage.expressions import parse

READS = []


class TripwireMeta(type):
    def __getattribute__(cls, name):
        if name.startswith('_'):
            READS.append(('class', name))
        return super().__getattribute__(name)


class Tripwired(metaclass=TripwireMeta):
    """PRIVATE DOCSTRING"""
    def __init__(self):
        object.__setattr__(self, '_secret', 42)

    def __getattribute__(self, name):
        if name.startswith('_'):
            READS.append(('instance', name))
        return object.__getattribute__(self, name)


class Holder:
    """an ordinary class with an ordinary public property"""
    @property
    def size(self):
        return 1


def evaluate(expr):
    env = {'obj': Tripwired(), 'T': Tripwired, 'K': Holder, 'k': Holder()}
    del READS[:]
    try:
        r = parse(expr).eval(locals=env)
    except Exception as e:
        r = e
    return r, list(READS)


problems = []
# control: plain use of the property object reads nothing private
r, reads = evaluate("K.size")
if reads:
    print(f"(control unexpected: K.size read {reads})")

for expr in ("K.size.getter(obj)", "(K.size).getter(T)", "(K.size.getter(obj)).fget == obj"):
    r, reads = evaluate(expr)
    if reads:
        problems.append(f"{expr}  ->  {r!r}; underscore attributes read: {reads}")

if problems:
    print("VIOLATION: evaluating a match expression read underscore attributes:")
    for p in problems:
        print("  -", p)
    sys.exit(1)
print("ok: no underscore attribute was read")
sys.exit(0)
