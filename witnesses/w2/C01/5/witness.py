"""C01 witness 5: a mapping compared with a multiset of plain (non key/value) items. DictNode.edits() hands ANY
MultiSetNode to MultiSetEdit, which then dereferences `.key` on items that are not key/value pairs (strategy auto) or
asks a KeyValuePairNode for its edit to a non-pair (strategy match). No edit script is produced at all; the opposite
direction (multiset -> mapping) works and replaces the items."""
import sys
import traceback

from graphtage import BuildOptions, DictNode, IntegerNode, KeyValuePairNode, MultiSetNode, StringNode, pydiff
from graphtage.printer import DEFAULT_PRINTER

DEFAULT_PRINTER.quiet = True

failures = []


def attempt(label, func):
    try:
        func()
    except Exception as e:
        failures.append(f"{label}: {type(e).__name__}: {e} "
                        f"(raised in {traceback.extract_tb(e.__traceback__)[-1].name}, "
                        f"{traceback.extract_tb(e.__traceback__)[-1].filename.rsplit('/', 1)[-1]}:"
                        f"{traceback.extract_tb(e.__traceback__)[-1].lineno})")


def settle(edit):
    while edit.valid and not edit.is_complete() and edit.tighten_bounds():
        pass
    return list(edit.edits()) if hasattr(edit, 'edits') else [edit]


for name, opts in (("auto", dict()), ("match", dict(auto_match_keys=False))):
    # via the public Python-object API: a dict that became a set, also when nested in a list
    attempt(f"pydiff.diff({{'a': 1}}, {{1, 2}}) strategy={name}",
            lambda: pydiff.diff({'a': 1}, {1, 2}, options=BuildOptions(**opts)))
    attempt(f"pydiff.diff([0, {{'a': 1}}], [0, {{1, 2}}]) strategy={name}",
            lambda: pydiff.diff([0, {'a': 1}], [0, {1, 2}], options=BuildOptions(**opts)))

    # and directly on the nodes
    def direct():
        d = DictNode([KeyValuePairNode(StringNode('a'), IntegerNode(1))])
        d.auto_match_keys = opts.get('auto_match_keys', True)
        settle(d.edits(MultiSetNode([IntegerNode(1), IntegerNode(2)])))
    attempt(f"DictNode.edits(MultiSetNode) strategy={name}", direct)

# control: the opposite direction yields an edit script
control = []
attempt("control {1, 2} -> {'a': 1}", lambda: control.append(pydiff.diff({1, 2}, {'a': 1})))

if failures:
    print("VIOLATION: no edit script is produced for (mapping, multiset)")
    for f in failures:
        print(" -", f)
    sys.exit(1)
print("ok")
sys.exit(0)
