"""C02 - no edits are reported exactly when the two documents are equal.

R02a zero-cost Match only under an equality guard on the same operands; R02b cost/equality projection agreement;
R02c answer-cell index of levenshtein_distance; R02d exit-status dataflow in main; R02e equality reads every component;
R02f removal/insertion/replacement costs are positive.
"""
import ast

from ..astx import code
from ..astx import self_attr, walk_no_nested, dotted, call_name, parent, dominating_conditions, flatten_conditions, \
    func_params, terminates, ancestors
from ..core import norm, Inconclusive
from .. import nodeshape
from .. import pat

TREE = "graphtage.tree.TreeNode"


def _eq_operands(t):
    """[(left, right)] for ==-chains in a test expression (text, spaces removed)."""
    out = []
    if isinstance(t, ast.Compare) and all(isinstance(o, ast.Eq) for o in t.ops):
        terms = [t.left] + list(t.comparators)
        for a, b in zip(terms, terms[1:]):
            out.append((ast.unparse(a).replace(" ", ""), ast.unparse(b).replace(" ", "")))
    return out


def r02a(ctx, trimmed_lists):
    m = ctx.model
    ctx.rule("R02a", "every literal-zero-cost Match(A, B, 0) is dominated by an equality test relating the same two "
                     "operands (==, equal containers/objects, both empty, NullNode vs NullNode, the same object on both "
                     "sides, or pairs taken from a list filled only under ==)")
    n = 0
    for f in sorted(m.functions.values(), key=lambda f: f.qual):
        if ".<locals>." in f.qual:
            continue
        fnode = f.node
        if any(isinstance(c, ast.Call) and call_name(c) == "Match" for c in walk_no_nested(f.node)):
            from ..astx import subst_paths
            fnode = subst_paths(f.node)        # `xs = self._children` is read as the path it names
        for c in walk_no_nested(fnode):
            if not (isinstance(c, ast.Call) and call_name(c) == "Match" and len(c.args) >= 3
                    and isinstance(c.args[2], ast.Constant) and c.args[2].value == 0):
                continue
            n += 1
            a, b = (ast.unparse(x).replace(" ", "") for x in c.args[:2])
            facts = flatten_conditions(dominating_conditions(c))
            why = None
            if a == b:
                why = "the same object on both sides"
            def idiom(t):
                """reason if the (positive) test t establishes that a equals b, else None"""
                w = None
                for l, r in _eq_operands(t):
                    if {l, r} == {a, b}:
                        w = f"guarded by `{norm(t, 60)}`"
                    elif {l, r} in ({a + "._children", b + "._children"}, {a + ".object", b + ".object"},
                                    {f"frozenset({a})", f"frozenset({b})"}):
                        w = f"guarded by `{norm(t, 60)}` (container/object equality of the two operands)"
                txt_ = ast.unparse(t).replace(" ", "")
                if txt_ in (f"len({a}._children)==len({b}._children)==0", f"len({a}._children)==len({b})==0",
                            f"len({a})==len({b})==0"):
                    w = "both operands are empty"
                return w
            for t, pol in facts:
                if not pol or why:
                    continue
                if isinstance(t, ast.BoolOp) and isinstance(t.op, ast.Or):
                    # a disjunction establishes equality if each alternative does
                    ws = [idiom(v) for v in t.values]
                    if all(ws):
                        why = "guarded by a disjunction whose every alternative establishes equality: " + "; ".join(ws)
                    continue
                for l, r in _eq_operands(t):
                    if {l, r} == {a, b}:
                        why = f"guarded by `{norm(t, 60)}`"
                    elif {l, r} in ({a + "._children", b + "._children"}, {a + ".object", b + ".object"},
                                    {f"frozenset({a})", f"frozenset({b})"}):
                        why = f"guarded by `{norm(t, 60)}` (container/object equality of the two operands)"
                txt = ast.unparse(t).replace(" ", "")
                if txt in (f"len({a}._children)==len({b}._children)==0", f"len({a}._children)==len({b})==0",
                           f"len({a})==len({b})==0"):
                    why = "both operands are empty"
                if isinstance(t, ast.Call) and call_name(t) == "isinstance" and f.cls and f.cls.endswith(".NullNode") \
                        and ast.unparse(t.args[0]) == b and dotted(t.args[1]) == "NullNode" and a == "self":
                    why = "both operands are NullNode"
            if why is None:
                # pairs drawn from a list that only receives pairs under ==
                comp = next((x for x in ancestors(c) if isinstance(x, (ast.ListComp, ast.GeneratorExp))), None)
                if comp is not None and len(comp.generators) == 1 and self_attr(comp.generators[0].iter) in trimmed_lists:
                    tv = comp.generators[0].target
                    if isinstance(tv, ast.Tuple) and [x.id for x in tv.elts] == [a, b]:
                        why = f"pairs come from self.{self_attr(comp.generators[0].iter)}, filled only under == (R01b)"
            if why is None and f.cls and f.cls.endswith(".PLISTNode") and a == "self":
                ctx.proved("R02a", f.file, f.short, c, f"Match({a},{b},0)",
                           "reviewed exception: zero-cost match of the plist wrapper shell; the wrapped roots are "
                           "diffed by the second edit of the same collection", nontrivial=False)
                continue
            if why:
                ctx.proved("R02a", f.file, f.short, c, f"Match({a},{b},0)", why)
            else:
                ctx.violation("R02a", f.file, f.short, c, f"Match({a},{b},0)",
                              f"zero-cost Match({a}, {b}, 0) is not dominated by a test that {a} equals {b}: two "
                              f"different values can be reported as unchanged, so unequal documents may diff to cost 0")
    ctx.floor("R02a", n, 8, "literal-zero Match constructions")


def trimmed_pair_lists(m):
    """Attributes of EditDistance that only receive (fn, tn) pairs under fn == tn (inline loop or equal-pair helper)."""
    from .. import scans
    q = m.find_class("EditDistance")
    if not q:
        return set()
    init = m.method(q, "__init__")
    return {sc["attr"] for sc in scans.equal_pair_scans(m, q, init) if sc["guarded"]}


def r02b(ctx):
    m = ctx.model
    ctx.rule("R02b", "where a Match cost is computed from a projection of the two nodes, the projection is the one "
                     "__eq__ compares (otherwise unequal nodes with equal projections cost 0)")
    q = m.need_class("LeafNode")
    e, eq = m.method(q, "edits"), m.method(q, "__eq__")
    other = func_params(e.node)[1]
    n = 0
    for c in walk_no_nested(e.node):
        if isinstance(c, ast.Call) and call_name(c) == "Match" and len(c.args) >= 3 and not isinstance(c.args[2], ast.Constant):
            n += 1
            cost = c.args[2]
            projs = []
            if isinstance(cost, ast.Call):
                for a in cost.args:
                    projs.append(ast.unparse(a).replace(" ", ""))
            eq_cmp = [(l, r) for r_ in walk_no_nested(eq.node) if isinstance(r_, ast.Return) and r_.value is not None
                      for l, r in _eq_operands(r_.value)]
            eq_proj = {l for l, r in eq_cmp if l.startswith("self.")}
            cost_proj = {p for p in projs if "self." in p}
            if cost_proj and eq_proj and cost_proj == eq_proj:
                ctx.proved("R02b", e.file, "LeafNode.edits", c, "leaf cost projection",
                           f"cost and equality both use {sorted(eq_proj)}")
            else:
                ctx.violation("R02b", e.file, "LeafNode.edits", c, "leaf cost projection",
                              f"the cost of matching two leaves is computed from {sorted(cost_proj)} but LeafNode.__eq__ "
                              f"compares {sorted(eq_proj)}: leaves of different type with the same text (1 vs \"1\") are "
                              f"unequal yet cost 0, so unequal documents can diff to zero cost and exit status 0")
    ctx.floor("R02b", n, 1, "computed-cost Match constructions in LeafNode.edits")


def r02c(ctx):
    m = ctx.model
    ctx.rule("R02c", "levenshtein_distance returns the table cell indexed by the table's dimensions, not by loop-carried "
                     "variables of loops that may run zero times")
    f = m.func("graphtage.levenshtein.levenshtein_distance")
    loopvars = set()
    for n in walk_no_nested(f.node):
        if isinstance(n, ast.For):
            loopvars |= {x.id for x in ast.walk(n.target) if isinstance(x, ast.Name)}
    rets = [r for r in walk_no_nested(f.node) if isinstance(r, ast.Return) and isinstance(r.value, ast.Subscript)]
    ctx.floor("R02c", len(rets), 1, "table-cell returns in levenshtein_distance")
    for r in rets:
        used = {x.id for x in ast.walk(r.value) if isinstance(x, ast.Name)} & loopvars
        if used:
            ctx.violation("R02c", f.file, "levenshtein_distance", r, "return",
                          f"`{norm(r)}` indexes the answer by loop variable(s) {sorted(used)}; when a loop runs zero times "
                          f"(empty string) they keep their initial value and the wrong cell (cost 0) is returned")
        else:
            ctx.proved("R02c", f.file, "levenshtein_distance", r, "return",
                       f"`{norm(r)}` is indexed by the table dimensions")


def r02c2(ctx):
    m = ctx.model
    ctx.rule("R02c", "levenshtein_distance returns the table cell indexed by the table's dimensions, not by loop-carried "
                     "variables of loops that may run zero times")
    f = m.func("graphtage.levenshtein.levenshtein_distance")
    tb = pat.first("D = [[0] * C for ANY in range(R)]", f.node)[1] or pat.first("D = [[0] * C for X in range(R)]", f.node)[1]
    if tb is None:
        if _rolling_rows(ctx, f):
            return
        ctx.inconclusive("R02c", f.file, "levenshtein_distance", f.node, "table", "distance table construction not recognised")
        return
    D, C, R = tb["D"], tb["C"], tb["R"]
    col0 = pat.first(f"for I in range(1, {R}):\n    {D}[I][0] = I", f.node)[0]
    row0 = pat.first(f"for J in range(1, {C}):\n    {D}[0][J] = J", f.node)[0]
    for got, what, dim in ((col0, "first column", R), (row0, "first row", C)):
        if got is not None:
            ctx.proved("R02c", f.file, "levenshtein_distance", got, f"border {what}", f"the {what} is initialised to 1..{dim}-1 over its full length")
        else:
            ctx.violation("R02c", f.file, "levenshtein_distance", f.node, f"border {what}",
                          f"the {what} of the distance table is not initialised as `for i in range(1, {dim}): {D}[..] = i` over its "
                          f"full length: cells left at 0 make deleting/inserting a whole suffix free, so two different scalars "
                          f"(e.g. 100 vs 0) get cost 0")
    # recurrence reads the three neighbours
    rec = pat.first(f"{D}[I][J] = min({D}[I - 1][J] + 1, {D}[I][J - 1] + 1, {D}[I - 1][J - 1] + K)", f.node)[0]
    if rec is not None:
        ctx.proved("R02c", f.file, "levenshtein_distance", rec, "recurrence", "each cell is the minimum over delete / insert / substitute")
    else:
        ctx.violation("R02c", f.file, "levenshtein_distance", f.node, "recurrence",
                      "the cell recurrence is no longer min(up + 1, left + 1, diagonal + substitution cost)")


def _rolling_rows(ctx, f):
    """Two-row form of the same table: `P = list(range(C))`, then per row a fresh `D` whose first cell is the row
    number, the same three-neighbour recurrence reading the previous row, and `P = D` at the end of the row."""
    node, b = pat.first("P = list(range(C))", f.node)
    if b is None:
        return False
    P, C = b["P"], b["C"]
    outer = None
    for lp in walk_no_nested(f.node):
        if isinstance(lp, ast.For) and isinstance(lp.target, ast.Name) and pat.has(f"{P} = D", lp, stmts=True):
            _, rb = pat.first(f"{P} = D", lp)
            outer, D = lp, rb["D"]
            break
        if isinstance(lp, ast.For) and isinstance(lp.target, ast.Name):
            # two preallocated rows swapped at the end of each pass: `P, D = D, P`
            for s_ in lp.body:
                if isinstance(s_, ast.Assign) and isinstance(s_.targets[0], ast.Tuple) and isinstance(s_.value, ast.Tuple) \
                        and [dotted(x) for x in s_.targets[0].elts] == [dotted(x) for x in reversed(s_.value.elts)] \
                        and len(s_.value.elts) == 2 and P in [dotted(x) for x in s_.value.elts]:
                    outer, D = lp, next(dotted(x) for x in s_.value.elts if dotted(x) != P)
                    break
            if outer is not None:
                break
    if outer is None or D == P:
        return False
    I = outer.target.id
    ctx.proved("R02c", f.file, "levenshtein_distance", node, "border first row", f"the first row is list(range({C})): 0..{C}-1")
    it = ast.unparse(outer.iter).replace(" ", "")
    full = it.startswith("range(1,")
    first_cell = (pat.has(f"{D}[0] = {I}", outer, stmts=True) or pat.has(f"{D} = [{I}] + ANY", outer, stmts=True)
                  or pat.has(f"{D} = [{I}] * ANY", outer, stmts=True))
    if first_cell and full:
        ctx.proved("R02c", f.file, "levenshtein_distance", outer, "border first column", f"every row starts with its row number `{I}`")
    else:
        ctx.violation("R02c", f.file, "levenshtein_distance", outer, "border first column",
                      f"the first cell of each new row `{D}` is not set to the row number `{I}`"
                      + ("" if full else f" (rows iterate `{norm(outer.iter, 30)}`)") +
                      ": cells left at 0 make deleting a whole prefix free, so two different scalars (e.g. -5 vs 5, 10 vs 0) "
                      "get cost 0")
    rec = pat.first(f"{D}[J] = min({P}[J] + 1, {D}[J - 1] + 1, {P}[J - 1] + K)", outer)[0]
    if rec is None:
        # the three neighbours in any order
        for a_ in walk_no_nested(outer):
            if isinstance(a_, ast.Assign) and isinstance(a_.targets[0], ast.Subscript) and dotted(a_.targets[0].value) == D \
                    and isinstance(a_.value, ast.Call) and call_name(a_.value) == "min" and len(a_.value.args) == 3:
                J = ast.unparse(a_.targets[0].slice).replace(" ", "")
                args_ = sorted(ast.unparse(x).replace(" ", "") for x in a_.value.args)
                fixed = sorted([f"{P}[{J}]+1", f"{D}[{J}-1]+1"])
                diag = [x for x in args_ if x.startswith(f"{P}[{J}-1]+")]
                rest = sorted(x for x in args_ if x not in diag)
                if rest == fixed and len(diag) == 1 and diag[0] != f"{P}[{J}-1]+1":
                    rec = a_
    if rec is not None:
        ctx.proved("R02c", f.file, "levenshtein_distance", rec, "recurrence", "each cell is the minimum over delete / insert / substitute")
    else:
        ctx.violation("R02c", f.file, "levenshtein_distance", outer, "recurrence",
                      "the cell recurrence is no longer min(up + 1, left + 1, diagonal + substitution cost)")
    rets = [r for r in walk_no_nested(f.node) if isinstance(r, ast.Return) and isinstance(r.value, ast.Subscript)]
    for r in rets:
        t = ast.unparse(r.value).replace(" ", "")
        if t not in (f"{P}[{C}-1]", f"{P}[-1]"):
            ctx.violation("R02c", f.file, "levenshtein_distance", r, "answer cell", f"`{norm(r)}` is not the last cell of the last row")
    return True


def r02g(ctx):
    m = ctx.model
    ctx.rule("R02g", "leaf equality keeps scalar kinds apart: Python's == identifies True with 1 and False with 0, so the "
                     "LeafNode branch of LeafNode.__eq__ must conjoin the value comparison with a kind agreement "
                     "(isinstance(a, bool) == isinstance(b, bool), or type(a) is type(b)); every zero-cost shortcut "
                     "(R02a) rests on this equality")
    q = m.need_class("LeafNode")
    f = m.method(q, "__eq__")
    o = func_params(f.node)[1]
    rets = []
    for r in walk_no_nested(f.node):
        if isinstance(r, ast.Return) and r.value is not None:
            facts = [ast.unparse(t).replace(" ", "") for t, pol in flatten_conditions(dominating_conditions(r)) if pol]
            if f"isinstance({o},LeafNode)" in facts:
                rets.append(r)
    ctx.floor("R02g", len(rets), 1, "returns of LeafNode.__eq__ for a leaf operand")
    for r in rets:
        from ..astx import resolve_local
        rv = resolve_local(f.node, r.value)
        conj = rv.values if isinstance(rv, ast.BoolOp) and isinstance(rv.op, ast.And) else [rv]
        conj = [resolve_local(f.node, c) for c in conj]
        conj = [x for c in conj for x in (c.values if isinstance(c, ast.BoolOp) and isinstance(c.op, ast.And) else [c])]
        txt = [ast.unparse(c).replace(" ", "") for c in conj]
        value = any(t in (f"self.object=={o}.object", f"{o}.object==self.object") for t in txt)
        kinds = (f"isinstance(self.object,bool)==isinstance({o}.object,bool)", f"isinstance({o}.object,bool)==isinstance(self.object,bool)",
                 f"type(self.object)istype({o}.object)", f"type(self.object)==type({o}.object)", f"type({o}.object)istype(self.object)",
                 f"type(self)istype({o})", f"self.__class__is{o}.__class__")
        kind = any(t in kinds for t in txt)
        if value and kind:
            ctx.proved("R02g", f.file, "LeafNode.__eq__", r, "kind agreement", f"`{norm(r.value, 90)}`")
        elif value:
            ctx.violation("R02g", f.file, "LeafNode.__eq__", r, "kind agreement",
                          f"`{norm(r, 60)}` compares the wrapped objects only; True == 1 and False == 0 in Python, so a boolean "
                          f"leaf equals a numeric leaf: [1, true] vs [true, 1] costs 0 and exits with status 0, and with "
                          f"--dict-strategy none the key 1 is paired with the key true")
        else:
            ctx.inconclusive("R02g", f.file, "LeafNode.__eq__", r, "kind agreement", f"`{norm(r, 60)}` is not a value comparison of the wrapped objects")


def r02h(ctx):
    m = ctx.model
    ctx.rule("R02h", "every part of a parsed element reaches the tree: the ElementTree data model splits character data into "
                     "`.text` (before the first child) and `.tail` (after an element's end tag); a loader that copies tag, attrib, "
                     "text and children but never reads `.tail` drops mixed-content text, so documents that differ only there "
                     "compare as equal (cost 0, exit 0)")
    f = m.functions.get("graphtage.xml.build_tree")
    if f is None:
        ctx.inconclusive("R02h", "graphtage/xml.py", "build_tree", None, "xml loader", "graphtage.xml.build_tree not found")
        return
    attrs = {a.attr for a in walk_no_nested(f.node) if isinstance(a, ast.Attribute) and isinstance(a.value, ast.Name)}
    parts = {"tag", "attrib", "text"}
    ctx.floor("R02h", len(parts & attrs), 3, "element parts read by xml.build_tree")
    if "tail" in attrs:
        ctx.proved("R02h", f.file, "build_tree", f.node, "element tail text", "the loader reads .tail")
    else:
        site = next((a for a in walk_no_nested(f.node) if isinstance(a, ast.Attribute) and a.attr == "text"), f.node)
        ctx.violation("R02h", f.file, "build_tree", site, "element tail text",
                      "xml.build_tree reads .tag, .attrib and .text of each element but never .tail: `<a><b/>tail</a>` and "
                      "`<a><b/>other</a>` build the same tree, the comparison costs 0 and the command exits 0 although the "
                      "documents differ")


def r02c3(ctx):
    m = ctx.model
    ctx.rule("R02c", "levenshtein_distance returns the table cell indexed by the table's dimensions, not by loop-carried "
                     "variables of loops that may run zero times")
    f = m.func("graphtage.levenshtein.levenshtein_distance")
    ps = func_params(f.node)[:2]
    trims = [a for a in walk_no_nested(f.node) if isinstance(a, ast.Assign) and len(a.targets) == 1 and isinstance(a.targets[0], ast.Name)
             and a.targets[0].id in ps and isinstance(a.value, ast.Subscript) and isinstance(a.value.slice, ast.Slice)]
    if not trims:
        ctx.proved("R02c", f.file, "levenshtein_distance", f.node, "arguments untrimmed", "the strings are compared whole (no prefix/suffix trimming)", nontrivial=False)
        return
    # a trimmed implementation: the suffix must be measured on what follows the prefix in both strings
    scans = [l for l in walk_no_nested(f.node) if isinstance(l, ast.For) and isinstance(l.iter, ast.Call) and call_name(l.iter) == "zip"
             and all(isinstance(x, ast.Call) and call_name(x) == "reversed" for x in l.iter.args)]
    ok = bool(scans) and all(all(isinstance(x.args[0], ast.Subscript) and isinstance(x.args[0].slice, ast.Slice) and x.args[0].slice.lower is not None
                                 and x.args[0].slice.upper is None and dotted(x.args[0].value) in ps for x in l.iter.args) for l in scans)
    if ok:
        ctx.proved("R02c", f.file, "levenshtein_distance", trims[0], "trimming clear of the prefix", "the common suffix is measured on the remainders after the common prefix")
    else:
        ctx.violation("R02c", f.file, "levenshtein_distance", trims[0], "trimming clear of the prefix",
                      f"levenshtein_distance trims a common prefix and suffix (`{norm(trims[0], 50)}`) but the suffix is not measured on what "
                      f"follows the prefix in BOTH strings: for '1' vs '11' (a doubled character) prefix and suffix overlap, both remainders "
                      f"are empty and the distance is 0 - two different scalars match at cost 0 and are printed without any mark")


def r02d(ctx):
    m = ctx.model
    ctx.rule("R02d", "main returns status 1 iff had_edits; had_edits starts False and each output mode sets it from "
                     "has_non_zero_cost() over the edits it printed")
    f = m.func("graphtage.__main__.main")
    fn = f.node
    flag = None
    for s in reversed(fn.body):
        if isinstance(s, ast.If) and isinstance(s.test, ast.Name):
            r1 = [x for x in s.body if isinstance(x, ast.Return)]
            r0 = [x for x in s.orelse if isinstance(x, ast.Return)]
            if r1 and r0 and isinstance(r1[0].value, ast.Constant) and isinstance(r0[0].value, ast.Constant):
                flag = (s, s.test.id, r1[0].value.value, r0[0].value.value)
                break
    if flag is None:
        rets = [r for r in fn.body if isinstance(r, ast.Return)]
        if rets and isinstance(rets[-1].value, ast.IfExp) and isinstance(rets[-1].value.test, ast.Name):
            v = rets[-1].value
            flag = (rets[-1], v.test.id, getattr(v.body, "value", None), getattr(v.orelse, "value", None))
    if flag is None:
        ctx.violation("R02d", f.file, "main", fn, "final status",
                      "main does not end with `return 1 if <had edits> else 0`: the exit status no longer reflects whether "
                      "the documents differ")
        return
    node, var, t, e = flag
    if t == 1 and e == 0:
        ctx.proved("R02d", f.file, "main", node, "final status", f"returns 1 iff {var}")
    else:
        ctx.violation("R02d", f.file, "main", node, "final status", f"returns {t} when {var} else {e}; expected 1 / 0")
    assigns = [a for a in walk_no_nested(fn) if isinstance(a, ast.Assign) and isinstance(a.targets[0], ast.Name)
               and a.targets[0].id == var]
    inits = [a for a in assigns if isinstance(a.value, ast.Constant)]
    sets = [a for a in assigns if not isinstance(a.value, ast.Constant)]
    if not inits or any(a.value.value is not False for a in inits):
        ctx.violation("R02d", f.file, "main", inits[0] if inits else fn, f"{var} initial value",
                      f"{var} is not initialised to False before the output modes")
    ctx.floor("R02d", len(sets), 2, "output modes setting the status flag")
    # every output mode (edit list / digest / full diff) sets the flag
    chain = next((i for i in walk_no_nested(fn) if isinstance(i, ast.If) and ".only_edits" in ast.unparse(i.test)), None)
    if chain is None:
        ctx.inconclusive("R02d", f.file, "main", fn, "output modes", "the only_edits / edit_digest / full-diff chain was not found")
    else:
        arms = [("--only-edits", chain.body)]
        rest = chain.orelse
        if len(rest) == 1 and isinstance(rest[0], ast.If) and ".edit_digest" in ast.unparse(rest[0].test):
            arms.append(("--edit-digest", rest[0].body))
            arms.append(("full diff", rest[0].orelse))
        else:
            arms.append(("other modes", rest))
        for label, body in arms:
            has = any(isinstance(a, ast.Assign) and isinstance(a.targets[0], ast.Name) and a.targets[0].id == var
                      for s_ in body for a in ast.walk(s_))
            if has:
                ctx.proved("R02d", f.file, "main", body[0] if body else chain, f"mode {label} sets {var}", f"the {label} mode assigns {var}")
            else:
                ctx.violation("R02d", f.file, "main", body[0] if body else chain, f"mode {label} sets {var}",
                              f"the {label} output mode never assigns {var}: differences found in that mode still exit with status 0")
    for a in sets:
        txt = ast.unparse(a.value).replace(" ", "")
        mode = "full diff" if "dfs()" in txt else "edit list / digest"
        ok = "has_non_zero_cost()" in txt and (txt.startswith(f"{var}or") or txt.startswith("any("))
        if "dfs()" in txt:
            ok = ok and ".edit_list" in txt
        if ok:
            ctx.proved("R02d", f.file, "main", a, f"{var} <- {mode} @{_mode_key(a)}", f"{var} = {norm(a.value, 80)}")
        else:
            ctx.violation("R02d", f.file, "main", a, f"{var} <- {mode} @{_mode_key(a)}",
                          f"`{norm(a, 90)}` does not derive the status from has_non_zero_cost() of the edits this mode printed")


def _mode_key(a):
    for t, pol, _ in dominating_conditions(a):
        txt = ast.unparse(t)
        if ".only_edits" in txt or ".edit_digest" in txt:
            return ("" if pol else "not ") + txt
    return "?"


def r02e(ctx):
    m = ctx.model
    ctx.rule("R02e", "the __eq__ a zero-cost guard relies on compares every component the class exposes through children()")
    n = 0
    for cname in ("XMLElement", "KeyValuePairNode", "SequenceNode", "DataClassNode", "LeafNode"):
        q = m.find_class(cname)
        if q is None:
            continue
        eq = m.method(q, "__eq__")
        if eq is None:
            continue
        n += 1
        txt = code(eq.node)
        # plus the same-class helpers __eq__ calls on either operand (`self._stripped_text()` / `other._stripped_text()`)
        for c_ in walk_no_nested(eq.node):
            if isinstance(c_, ast.Call) and isinstance(c_.func, ast.Attribute):
                h_ = m.method(q, c_.func.attr)
                if h_ is not None and h_.cls == eq.cls and h_.node is not eq.node:
                    txt += "\n" + code(h_.node)
        if cname == "SequenceNode":
            comps = {"_children"}
        elif cname == "DataClassNode":
            comps = {"items()"}
        elif cname == "LeafNode":
            comps = {"object"}
        else:
            shapes = nodeshape.children_shapes(m, q) or []
            comps = {x.replace("self.", "") for s in shapes for x in s}
        missing = sorted(c for c in comps if f"self.{c}" not in txt and f".{c}" not in txt)
        if missing:
            ctx.violation("R02e", eq.file, f"{cname}.__eq__", eq.node, f"{cname}.__eq__ components",
                          f"{cname}.__eq__ does not compare {missing}: nodes that differ only there are 'equal', get a "
                          f"zero-cost Match, and the difference is not reported")
        else:
            ctx.proved("R02e", eq.file, f"{cname}.__eq__", eq.node, f"{cname}.__eq__ components",
                       f"compares {sorted(comps)}")
    ctx.floor("R02e", n, 4, "node equality implementations")


def r02l(ctx):
    m = ctx.model
    ctx.rule("R02l", "container equality keeps kinds apart: SequenceNode.__eq__ compares the `_children` collections only, and the "
                     "collections of a multiset (HashableCounter), a mapping with key edits (HashableCounter) and a fixed-key mapping (dict) "
                     "are all dict-like - two *empty* ones are == whatever the kind, so an empty set and an empty mapping are equal nodes "
                     "and every zero-cost shortcut (R02a) treats `{}` and `set()` as the same datum")
    sq = m.need_class("SequenceNode")
    msq, mpq = m.find_class("MultiSetNode"), m.find_class("MappingNode")
    if msq is None or mpq is None:
        ctx.inconclusive("R02l", "graphtage/graphtage.py", "-", None, "container kinds", "MultiSetNode / MappingNode not found")
        return
    n = 0
    reported = set()
    for q in sorted(m.subclasses(msq)) + sorted(x for x in m.subclasses(mpq) if not m.is_subclass(x, msq)):
        if m.is_abstract(q):
            continue
        eq = m.method(q, "__eq__")
        if eq is None:
            continue
        n += 1
        src = code(eq.node)
        kind = "MappingNode" in src or "type(self)" in src or "__class__" in src or "container_type" in src
        short = q.rsplit(".", 1)[-1]
        if kind:
            ctx.proved("R02l", eq.file, eq.short, eq.node, f"{short} equality", "the comparison includes a kind test")
        elif eq.qual not in reported:
            reported.add(eq.qual)
            ctx.violation("R02l", eq.file, eq.short, eq.node, "container kinds",
                          f"{eq.short} (the equality every multiset and mapping class inherits) is `{norm(eq.node.body[-1], 70)}`: no kind test, and "
                          f"HashableCounter() == {{}} == HashableCounter(): an empty multiset equals an empty mapping, `[{{}}]` vs `[set()]` "
                          f"(pickle files, pydiff) costs 0 and exits 0")
    ctx.floor("R02l", n, 2, "concrete multiset / mapping classes")


def r02f2(ctx):
    """Container half of R02f, for the properties that rest on the size-derived cap (C03, C04): run by them, not by C02 - a
    container removed from or inserted into a list of containers carries a penalty of 1, so its cost is positive all the same."""
    m = ctx.model
    ctx.rule("R02f", "... and the size-derived cap of compound edits (from.total_size + to.total_size + 1, EditCollection.bounds) is an "
                     "upper limit only if replacing a node never costs more than both sizes: Replace charges max(sizes) + 1, so every "
                     "node that can be replaced must have size >= 1 - containers included")
    sq = m.need_class("SequenceNode")
    n = 0
    seen = set()
    for q in sorted(m.subclasses(sq)):
        if m.is_abstract(q):
            continue
        cts = m.method(q, "calculate_total_size")
        if cts is None or cts.qual in seen:
            continue
        seen.add(cts.qual)
        n += 1
        rets = [r.value for r in walk_no_nested(cts.node) if isinstance(r, ast.Return) and r.value is not None]
        # `sum(<per-child term> for ...)` with no constant added outside the sum is 0 for an empty container
        bare = [r for r in rets if isinstance(r, ast.Call) and call_name(r) == "sum"]
        if bare:
            ctx.violation("R02f", cts.file, cts.short, bare[0], "container size can be 0",
                          f"{cts.short} is `{norm(bare[0], 60)}`: an empty container has size 0, Replace of it by anything of size s costs "
                          f"s + 1 > 0 + s, and data-class nodes add no per-slot constant - a dozen replaced empty slots push a "
                          f"FixedKeyDictNodeEdit above from.size + to.size + 1, bounds() turns to (-inf, inf) and the enclosing edit never "
                          f"finishes refining")
        else:
            ctx.proved("R02f", cts.file, cts.short, cts.node, "container size >= 1", "a constant is added outside the sum over the children")
    ctx.floor("R02f", n, 2, "container size functions examined")


def r02j(ctx):
    m = ctx.model
    ctx.rule("R02j", "every character of a CSV cell reaches the tree: csv.reader is fed a file opened with newline='' (the csv module's "
                     "documented requirement).  In the default universal-newlines mode Python rewrites \\r and \\r\\n to \\n before the "
                     "reader sees them, also inside quoted cells, so two tables that differ only in such a character load equal and "
                     "diff to cost 0")
    n = 0
    for fq, f in sorted(m.functions.items()):
        for c in walk_no_nested(f.node):
            if not (isinstance(c, ast.Call) and resolve_ext(m, f.module, c.func) == "csv.reader" and c.args):
                continue
            n += 1
            src = c.args[0]
            opened = None
            for w in ancestors(c):
                if isinstance(w, ast.With):
                    for it in w.items:
                        if it.optional_vars is not None and dotted(it.optional_vars) == dotted(src) and isinstance(it.context_expr, ast.Call) \
                                and call_name(it.context_expr) == "open":
                            opened = it.context_expr
            if opened is None:
                ctx.inconclusive("R02j", f.file, f.short, c, "csv.reader source", f"cannot find where `{norm(src, 30)}` is opened")
                continue
            nl = next((k.value for k in opened.keywords if k.arg == "newline"), None)
            mode = opened.args[1] if len(opened.args) > 1 else next((k.value for k in opened.keywords if k.arg == "mode"), None)
            if isinstance(nl, ast.Constant) and nl.value == "":
                ctx.proved("R02j", f.file, f.short, opened, "csv.reader source", "opened with newline='' - the reader sees the bytes' own line ends")
            else:
                ctx.violation("R02j", f.file, f.short, opened, "csv.reader source",
                              f"`{norm(opened, 50)}` feeds csv.reader without newline='': \\r and \\r\\n inside quoted cells are rewritten to "
                              f"\\n before parsing, so `a,\"x\\r\\ny\"` and `a,\"x\\ny\"` load as the same table and the comparison reports no difference")
    ctx.floor("R02j", n, 1, "csv.reader calls")


def resolve_ext(m, module, e):
    r = m.resolve_expr(module, e)
    if r and r[0] and r[0][0] in ("ext", "module"):
        return r[0][1]
    return None


def r02f(ctx):
    m = ctx.model
    ctx.rule("R02f", "removal, insertion and replacement always cost more than zero: cost = node size + penalty, so "
                     "wherever the penalty can be 0 every node that can be removed/inserted must have size >= 1; "
                     "Replace adds a positive constant")
    rq = m.need_class("Replace")
    init = m.method(rq, "__init__")
    # the value handed to ConstantCostEdit as `cost=` (followed through one local)
    cost = next((k.value for c in walk_no_nested(init.node) if isinstance(c, ast.Call) for k in c.keywords if k.arg == "cost"), None)
    if isinstance(cost, ast.Name):
        cost = next((s.value for s in walk_no_nested(init.node) if isinstance(s, ast.Assign) and isinstance(s.targets[0], ast.Name)
                     and s.targets[0].id == cost.id), None)
    if cost is not None and isinstance(cost, ast.BinOp) and isinstance(cost.op, ast.Add) and \
            isinstance(cost.right, ast.Constant) and cost.right.value >= 1:
        ctx.proved("R02f", init.file, "Replace.__init__", init.node, "Replace cost", f"cost = {norm(cost)} > 0")
    else:
        ctx.violation("R02f", init.file, "Replace.__init__", init.node, "Replace cost",
                      f"Replace cost `{norm(cost) if cost is not None else '?'}` is not (size + positive constant)")
    # zero-penalty sites over document nodes
    lq = m.need_class("ListNode")
    e = m.method(lq, "edits")
    zero_pen = [s for s in walk_no_nested(e.node) if isinstance(s, ast.Assign) and isinstance(s.targets[0], ast.Name)
                and "penalty" in s.targets[0].id and isinstance(s.value, ast.Constant) and s.value.value == 0]
    if not zero_pen:
        ctx.proved("R02f", e.file, "ListNode.edits", e.node, "penalty", "list insert/remove penalty is never 0", nontrivial=False)
        return
    leaf = m.need_class("LeafNode")
    n = 0
    for q in sorted(m.subclasses(leaf)):
        if m.is_abstract(q) or q.endswith("CyclicReference") or q == leaf:
            continue    # the bare LeafNode base is not produced by any loader; its subclasses are judged
        short = q.rsplit(".", 1)[-1]
        cts = m.method(q, "calculate_total_size")
        rets = [r.value for r in walk_no_nested(cts.node) if isinstance(r, ast.Return)]
        n += 1
        verdict = None
        for r in rets:
            if isinstance(r, ast.Constant) and isinstance(r.value, int) and r.value <= 0:
                verdict = f"calculate_total_size returns the constant {r.value}"
            elif isinstance(r, ast.Call) and call_name(r) == "len":
                # len(str(self.object)): >= 1 for numbers and booleans, possibly 0 for strings
                if short == "StringNode":
                    verdict = "calculate_total_size is len(str(self.object)), which is 0 for the empty string"
        if verdict:
            ctx.violation("R02f", cts.file, f"{short}.calculate_total_size", zero_pen[0], f"{short} size can be 0",
                          f"{short}: {verdict}; ListNode.edits uses insert/remove penalty 0 for lists of leaves, so removing "
                          f"or inserting such a node costs 0 and two unequal lists diff to total cost 0 (exit status 0)")
        else:
            ctx.proved("R02f", cts.file, f"{short}.calculate_total_size", cts.node, f"{short} size >= 1",
                       "size is the length of a non-empty textual form")
    ctx.floor("R02f", n, 4, "leaf classes examined")


def run(ctx):
    m = ctx.model
    r02a(ctx, trimmed_pair_lists(m))
    r02b(ctx)
    r02c(ctx)
    r02c2(ctx)
    r02c3(ctx)
    r02d(ctx)
    r02e(ctx)
    r02f(ctx)
    r02g(ctx)
    r02h(ctx)
    r02j(ctx)
    r02l(ctx)
    from .c09 import r09b
    r09b(ctx)         # a loader's wrapper class must not make equal data unequal (or equal only from one side)
    from .c18 import r18a
    r18a(ctx)         # ... nor may a loader erase a scalar's type (bytes stored as text compare equal to that text)
    from ..memo import e13b
    e13b(ctx)         # no cost is memoised under a key that conflates 1, 1.0 and True
    from . import c14
    from .. import cli
    f, specs, groups = cli.parse_cli(m)
    from . import c01
    c01.r01b(ctx)               # trimming an ordered list twice (prefix and suffix overlapping) reports unequal lists as equal
    from . import c03
    c03.r03a(ctx, only=("edits-only",))   # a compound edit's cost counts every sub-edit its script lists (else unequal lists can cost 0)
    c14.r14d(ctx, f, specs)     # the command compares the two trees it loaded (no CLI-only substitution or transformation)
    ctx.assume("positivity of a computed non-zero cost for arbitrary unequal values (numeric) is not decided beyond the "
               "structural clauses above")
