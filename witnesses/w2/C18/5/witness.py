"""C18 witness: a cyclic structure of custom objects whose __repr__ shows their fields (the usual hand written
__repr__) ends in RecursionError instead of the cycle ValueError, and - worse - also when cycles are to be ignored:
the builder formats repr(node)/repr(child) eagerly for the exception text and for a log.debug() line."""
import logging
import sys

from graphtage import BuildOptions
from graphtage.builder import CyclicReference
from graphtage import pydiff

logging.disable(logging.CRITICAL)   # debug output is off; the message is formatted regardless


class Employee:
    def __init__(self, name):
        self.name = name
        self.boss = None
        self.deputy = None

    def __repr__(self):   # fine for every acyclic use, recursive on a cycle - like most hand written __repr__s
        return f"Employee(name={self.name!r}, boss={self.boss!r}, deputy={self.deputy!r})"


class Plain:   # control: same shape, default object.__repr__
    def __init__(self, name):
        self.name = name
        self.boss = None
        self.deputy = None


bad = []
for cls in (Plain, Employee):
    boss, worker = cls("b"), cls("w")
    worker.boss = boss
    boss.deputy = worker            # boss -> worker -> boss
    for ignore in (False, True):
        label = f"{cls.__name__}, ignore_cycles={ignore}"
        try:
            tree = pydiff.build_tree(boss, BuildOptions(ignore_cycles=ignore))
        except ValueError as e:
            outcome = "cycle error" if "cycle" in str(e) else f"ValueError {e}"
        except RecursionError as e:
            outcome = f"RecursionError: {e}"
        else:
            outcome = "placeholder" if any(isinstance(n, CyclicReference) for n in tree.dfs()) else "tree, no placeholder"
        expected = "placeholder" if ignore else "cycle error"
        print(f"{label}: {outcome}")
        if outcome != expected:
            bad.append(f"{label}: expected {expected}, got {outcome}")

if bad:
    print("\n".join(bad))
    sys.exit(1)
sys.exit(0)
