#!/usr/bin/env python
"""C20 witness 1: a YAML document truncated inside an explicitly tagged scalar makes the command die with an
uncaught IndexError / KeyError / AttributeError (traceback) instead of `Error parsing <file>: ...`.

Exit 1 when the violation shows, 0 otherwise."""
import os
import subprocess
import sys
import tempfile

VALID = b"count: !!int 7\nflag: !!bool true\n"                 # graphtage loads and diffs this one
VALID2 = b"when: !!timestamp 2001-12-14\n"                       # valid YAML 1.1 (graphtage has no node type for dates)
# every one of these is a prefix of VALID (truncation at a byte); the complete document is not used as a bad input
CUTS = {
    "int":       VALID[:len(b"count: !!int")],                                   # `!!int` with an empty scalar
    "bool":      VALID[:len(b"count: !!int 7\nflag: !!bool tru")],               # `!!bool tru`
    "timestamp": VALID2[:len(b"when: !!timestamp 2001-12-")],
}
GOOD = b"count: 7\n"


def run_cli(args, cwd):
    env = dict(os.environ)
    return subprocess.run([sys.executable, "-m", "graphtage", "--no-status", "--no-color"] + args, cwd=cwd, env=env,
                          stdout=subprocess.PIPE, stderr=subprocess.PIPE, timeout=120)


def main():
    for name, data in CUTS.items():
        assert (VALID.startswith(data) or VALID2.startswith(data)) and data not in (VALID, VALID2)
    failures = []
    with tempfile.TemporaryDirectory() as d:
        with open(os.path.join(d, "good.yaml"), "wb") as f:
            f.write(GOOD)
        for name, data in CUTS.items():
            bad = f"bad_{name}.yaml"
            with open(os.path.join(d, bad), "wb") as f:
                f.write(data)
            for args in ([bad, "good.yaml"], ["good.yaml", bad]):
                p = run_cli(args, d)
                err = p.stderr.decode("utf-8", "replace")
                problems = []
                if "Traceback (most recent call last)" in err:
                    problems.append("uncaught exception: " + err.strip().splitlines()[-1])
                if bad not in err.replace("Traceback", "") or "Error parsing" not in err:
                    problems.append("no `Error parsing %s` message on stderr" % bad)
                if p.returncode == 0:
                    problems.append("exit status 0")
                if p.stdout.strip():
                    problems.append("something was printed on stdout")
                if problems:
                    failures.append((data, args, problems))
    if failures:
        print("C20 VIOLATED: truncated YAML documents are not reported as parse errors")
        for data, args, problems in failures:
            print(f"  graphtage {' '.join(args)}   (bad file = {data!r})")
            for pr in problems:
                print(f"      - {pr}")
        return 1
    print("ok: every truncated YAML document was reported as an error naming the file")
    return 0


if __name__ == "__main__":
    sys.exit(main())
