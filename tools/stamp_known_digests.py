#!/venv/bin/python
"""(Re)compute the `digest` of every `known` entry from the current /repo tree.  Run by hand after triage only - the checks
never write known_findings.json."""
import json, os, sys
sys.path.insert(0, os.path.dirname(os.path.dirname(os.path.abspath(__file__))))
from gtstatic.__main__ import run_rules
from gtstatic import core
p = "/verif/known_findings.json"
d = json.load(open(p))
props = sorted({f["property"] for f in d["findings"] if f["status"] == "known"})
n = 0
for pr in props:
    ctx = run_rules(pr, "/repo", "quick", quiet=True)
    by = {(i.rule, i.key): i for i in ctx.instances if i.verdict == core.VIOLATION}
    for f in d["findings"]:
        if f["status"] == "known" and f["property"] == pr:
            i = by.get((f["rule"], f["key"]))
            if i is None:
                print("NOT REPORTED ANY MORE:", pr, f["key"])
                continue
            if i.digest:
                f["digest"] = i.digest
                n += 1
            else:
                f.pop("digest", None)
json.dump(d, open(p, "w"), indent=1)
print("stamped", n)
