"""C08 witness 4: building a tree from a Python dict with a non-leaf key (a tuple) next to a leaf key succeeds or raises
TypeError depending on the order of the keys (BasicBuilder / graphtage.pydiff.build_tree, default dictionary strategy)."""
import sys

from graphtage import BuildOptions
from graphtage.builder import BasicBuilder
from graphtage import pydiff
from graphtage.printer import DEFAULT_PRINTER

DEFAULT_PRINTER.quiet = True

D1 = {(1, 2): "a", 3: "b"}
D2 = {3: "b", (1, 2): "a"}   # the same mapping, keys reordered


def cost(from_tree, to_tree):
    edit = from_tree.edits(to_tree)
    while edit.valid and edit.tighten_bounds():
        pass
    assert edit.bounds().definitive()
    return edit.bounds().upper_bound


def attempt(build, doc):
    try:
        return build(doc), None
    except Exception as e:
        return None, f"{type(e).__name__}: {e}"


failed = False
for name, kwargs in (("auto", {}), ("match", {"auto_match_keys": False}), ("none", {"allow_key_edits": False})):
    options = BuildOptions(**kwargs)
    for source, build in (
            ("BasicBuilder", lambda d: BasicBuilder(options).build_tree(d)),
            ("pydiff.build_tree", lambda d: pydiff.build_tree(d, options))
    ):
        (t1, e1), (t2, e2) = attempt(build, D1), attempt(build, D2)
        if (e1 is None) != (e2 is None):
            failed = True
            print(f"[{name}/{source}] {D1!r} -> {e1 or 'builds'}; {D2!r} -> {e2 or 'builds'}")
        elif e1 is None:
            c = cost(t1, t2)
            if c != 0:
                failed = True
                print(f"[{name}/{source}] {D1!r} vs {D2!r} costs {c}, expected 0")
sys.exit(1 if failed else 0)
