"""E12 - what a recursive function notes on the way in, it forgets on the way out (on every way out, if on any).

A recursive builder that tracks "what is being expanded further up the stack" in a set (an ancestor set for cycle
detection) must remove the entry on every normal exit after adding it.  An exit that skips the removal turns the set into
"everything ever visited": the second, perfectly legal, reference to a shared sub-object is then reported as a cycle - for
one branch of the function only (one option, one container kind), so one loader refuses data its siblings accept.
"""
import ast

from .astx import walk_no_nested, call_name, dotted, func_params, block_of, ancestors, _set_parents
from .core import Inconclusive

POSITIVE = """
def build(obj, seen):
    if isinstance(obj, list):
        seen.add(id(obj))
        out = [build(x, seen) for x in obj]
        seen.discard(id(obj))
        return out
    elif isinstance(obj, dict):
        seen.add(id(obj))
        items = {k: build(v, seen) for k, v in obj.items()}
        if len(items) > 3:
            seen.discard(id(obj))
            return items
        else:
            return dict(items)
    return obj
"""
NEGATIVE = """
def build(obj, seen):
    if isinstance(obj, list):
        seen.add(id(obj))
        try:
            return [build(x, seen) for x in obj]
        finally:
            seen.discard(id(obj))
    elif isinstance(obj, dict):
        seen.add(id(obj))
        items = {k: build(v, seen) for k, v in obj.items()}
        seen.discard(id(obj))
        if len(items) > 3:
            return items
        return dict(items)
    return obj
"""


POSITIVE_C = """
class Path:
    def __init__(self):
        self._open = {}
    def enter(self, c):
        self._open[id(c)] = c
    def leave(self, c):
        self._open.pop(id(c), None)
def mapping(obj, path):
    path.enter(obj)
    items = {k: build(v, path) for k, v in obj.items()}
    if not items:
        return {}
    path.leave(obj)
    return items
"""
NEGATIVE_C = """
def build(obj, seen, check):
    if isinstance(obj, list):
        if check:
            seen.add(id(obj))
        out = [build(x, seen, check) for x in obj]
        if check:
            seen.discard(id(obj))
        return out
    return obj
"""


def _is_call_stmt(s, attrs, names):
    return isinstance(s, ast.Expr) and isinstance(s.value, ast.Call) and isinstance(s.value.func, ast.Attribute) \
        and s.value.func.attr in attrs and dotted(s.value.func.value) in names


def _terminates(stmts):
    """every path through the statements ends in return / raise / continue / break"""
    if not stmts:
        return False
    last = stmts[-1]
    if isinstance(last, (ast.Return, ast.Raise, ast.Continue, ast.Break)):
        return True
    if isinstance(last, ast.If):
        return bool(last.orelse) and _terminates(last.body) and _terminates(last.orelse)
    if isinstance(last, ast.Try):
        return _terminates(last.finalbody) or (_terminates(last.body) and all(_terminates(h.body) for h in last.handlers))
    if isinstance(last, ast.With):
        return _terminates(last.body)
    return False


def tracker_methods(tree):
    """(enter names, leave names) over the classes of a module that keep a container on self and have a method that puts an
    entry in (`self.X[k] = v`, `self.X.add(k)`) and another that takes one out (`pop`, `discard`, `remove`, `del`): a path
    tracker object, `path.enter(obj)` ... `path.leave(obj)`."""
    enter, leave = set(), set()
    for cls in [n for n in ast.walk(tree) if isinstance(n, ast.ClassDef)]:
        ins, outs = {}, {}
        for fn in [x for x in cls.body if isinstance(x, ast.FunctionDef) and x.name != "__init__"]:
            for x in walk_no_nested(fn):
                if isinstance(x, ast.Subscript) and isinstance(x.ctx, ast.Store) and dotted(x.value) and dotted(x.value).startswith("self."):
                    ins.setdefault(dotted(x.value), set()).add(fn.name)
                if isinstance(x, ast.Subscript) and isinstance(x.ctx, ast.Del) and dotted(x.value) and dotted(x.value).startswith("self."):
                    outs.setdefault(dotted(x.value), set()).add(fn.name)
                if isinstance(x, ast.Call) and isinstance(x.func, ast.Attribute) and (dotted(x.func.value) or "").startswith("self."):
                    if x.func.attr in ("add", "append", "setdefault"):
                        ins.setdefault(dotted(x.func.value), set()).add(fn.name)
                    elif x.func.attr in ("pop", "discard", "remove"):
                        outs.setdefault(dotted(x.func.value), set()).add(fn.name)
        for attr in set(ins) & set(outs):
            if not ins[attr] & outs[attr]:
                enter |= ins[attr]
                leave |= outs[attr]
    return enter, leave


def scan(fn, helper_adds=None, recursive=None, trackers=(frozenset(), frozenset())):
    """[(verdict, return node, enter stmt)] for every return of fn that follows an 'enter' (set.add) of a tracking set.
    recursive: decided by the caller when the recursion runs through other functions (build -> _build_mapping -> build);
    trackers: (enter, leave) method names of path-tracker classes (tracker_methods)."""
    helper_adds = helper_adds or {}
    name = fn.name
    if recursive is None:
        recursive = any(isinstance(c, ast.Call) and (dotted(c.func) == name or (isinstance(c.func, ast.Attribute) and c.func.attr == name))
                        for c in walk_no_nested(fn))
    if not recursive:
        return []
    enters, leaves = set(trackers[0]) | {"add"}, ("discard", "remove") + tuple(trackers[1])
    out = []
    for s in walk_no_nested(fn):
        sets = None
        if isinstance(s, ast.Expr) and isinstance(s.value, ast.Call):
            c = s.value
            if isinstance(c.func, ast.Attribute) and c.func.attr in enters and isinstance(c.func.value, ast.Name):
                sets = {c.func.value.id}
            elif isinstance(c.func, ast.Name) and c.func.id in helper_adds:
                pos = helper_adds[c.func.id]
                if pos < len(c.args) and isinstance(c.args[pos], ast.Name):
                    sets = {c.args[pos].id}
        if not sets:
            continue
        # only sets the function itself treats as a path set: somewhere it does remove an entry (a set that is never shrunk
        # is a 'visited' set by design - one path releasing what another keeps is the contradiction this rule reports)
        if not any(_is_call_stmt(x, leaves, sets) for x in walk_no_nested(fn)):
            continue
        # the blocks the enter sits in, innermost first: returns later in any of them follow the enter
        levels = []
        cur = s
        tests = []                 # the `if` tests the enter stands under (an `if check:` around the enter may also guard the removal)
        while cur is not None and cur is not fn:
            if isinstance(cur, ast.stmt):
                l_, i_ = block_of(cur)
                if l_ is not None:
                    levels.append((l_, i_, list(tests)))
                    if _terminates(l_[i_ + 1:]):
                        break          # control does not fall out of this block: nothing further out follows the enter
            par = getattr(cur, "_parent", None)
            if isinstance(par, ast.If) and cur in par.body:
                tests.append(ast.dump(par.test))
            if isinstance(par, (ast.For, ast.While, ast.FunctionDef, ast.AsyncFunctionDef, ast.Lambda)) and par is not fn:
                break              # an enter inside a loop body: the later statements of the loop's block follow many enters
            cur = par
        if not levels:
            continue

        def removes(stmts, guards):
            for x in stmts:
                if _is_call_stmt(x, leaves, sets):
                    return True
                if isinstance(x, ast.If) and ast.dump(x.test) in guards and not x.orelse and any(_is_call_stmt(y, leaves, sets) for y in x.body):
                    return True        # `if check: S.add(k)` ... `if check: S.discard(k)`
            return False
        for lst, idx, guards in levels:
            for later in lst[idx + 1:]:
                for r in [later] if isinstance(later, ast.Return) else [x for x in walk_no_nested(later) if isinstance(x, ast.Return)]:
                    # a removal on the way from the enter to this return: an earlier sibling in any block between them, or a finally
                    ok = False
                    cur = r
                    while cur is not None and cur is not fn:
                        l2, i2 = block_of(cur) if isinstance(cur, ast.stmt) else (None, None)
                        if l2 is not None:
                            start = idx + 1 if l2 is lst else 0
                            if removes(l2[start:i2], guards):
                                ok = True
                        par = getattr(cur, "_parent", None)
                        if isinstance(par, ast.Try) and any(_is_call_stmt(x, leaves, sets) for x in par.finalbody):
                            ok = True
                        if l2 is lst:
                            break
                        cur = par
                    # removals between the enter and the end of the inner blocks it sits in count as well
                    for l3, i3, g3 in levels:
                        if l3 is lst:
                            break
                        if removes(l3[i3 + 1:], g3):
                            ok = True
                    out.append(("ok" if ok else "bad", r, s))
    return out


# ---- E12b: a set that is only ever grown is a 'visited' set; refusing on a repeat visit turns sharing into a cycle ---------------
POSITIVE_B = """
def build(obj, seen=None):
    if seen is None:
        seen = set()
    if isinstance(obj, (list, dict)):
        if id(obj) in seen:
            raise ValueError("cycle")
        seen.add(id(obj))
    if isinstance(obj, list):
        return [build(x, seen) for x in obj]
    return obj
"""
NEGATIVE_B = """
def build(obj, seen=frozenset()):
    if isinstance(obj, (list, dict)):
        if id(obj) in seen:
            raise ValueError("cycle")
        seen = seen | {id(obj)}
    if isinstance(obj, list):
        return [build(x, seen) for x in obj]
    return obj
def walk(obj, visited):
    if id(obj) in visited:
        return None
    visited.add(id(obj))
    return [walk(x, visited) for x in obj]
"""


def scan_b(fn):
    """[(verdict, raise node, set name)]: in a recursive function, a membership test on a set that leads to `raise` while the
    set is grown in place (`S.add`), handed on to the recursive calls as it is, and never shrunk."""
    name = fn.name
    rec_calls = [c for c in walk_no_nested(fn) if isinstance(c, ast.Call) and (dotted(c.func) == name or (isinstance(c.func, ast.Attribute) and c.func.attr == name))]
    if not rec_calls:
        return []
    from .astx import dominating_conditions, flatten_conditions
    out = []
    grown = {c.func.value.id for c in walk_no_nested(fn) if isinstance(c, ast.Call) and isinstance(c.func, ast.Attribute)
             and c.func.attr == "add" and isinstance(c.func.value, ast.Name)}
    for S in sorted(grown):
        if any(_is_call_stmt(x, ("discard", "remove", "pop", "clear"), {S}) for x in walk_no_nested(fn)):
            continue            # E12 judges sets that are shrunk somewhere
        handed_on = any(any(isinstance(a, ast.Name) and a.id == S for a in list(c.args) + [k.value for k in c.keywords]) for c in rec_calls)
        if not handed_on:
            continue
        for r in walk_no_nested(fn):
            if not isinstance(r, ast.Raise):
                continue
            for t, pol in flatten_conditions(dominating_conditions(r)):
                if pol and isinstance(t, ast.Compare) and len(t.ops) == 1 and isinstance(t.ops[0], ast.In) and dotted(t.comparators[0]) == S:
                    out.append(("bad", r, S))
    return out


def e12(ctx):
    m = ctx.model
    ctx.rule("E12", "enter/leave pairing in recursive functions: an entry added to a tracking set on the way in (`seen.add(id(obj))`, "
                    "directly or through a helper) is removed again before every return that follows it - otherwise the set means "
                    "'visited' instead of 'on the current path' for that exit, and shared (not cyclic) sub-objects are refused")
    pos = scan(_set_parents(ast.parse(POSITIVE)).body[0])
    neg = scan(_set_parents(ast.parse(NEGATIVE)).body[0])
    if sorted(v for v, *_ in pos) != ["bad", "ok", "ok"] or any(v == "bad" for v, *_ in neg) or len(neg) != 3:
        raise Inconclusive(f"E12 self-test: embedded examples judged {[v for v, *_ in pos]} / {[v for v, *_ in neg]}")
    posb = scan_b(_set_parents(ast.parse(POSITIVE_B)).body[0])
    tb = _set_parents(ast.parse(NEGATIVE_B))
    negb = scan_b(tb.body[0]) + scan_b(tb.body[1])
    if [v for v, *_ in posb] != ["bad"] or negb:
        raise Inconclusive(f"E12b self-test: embedded examples judged {[v for v, *_ in posb]} / {[v for v, *_ in negb]}")
    # helpers that add to a set parameter
    helper_adds = {}
    for fq, f in m.functions.items():
        ps = func_params(f.node)
        for c in walk_no_nested(f.node):
            if isinstance(c, ast.Call) and isinstance(c.func, ast.Attribute) and c.func.attr == "add" and isinstance(c.func.value, ast.Name) \
                    and c.func.value.id in ps:
                helper_adds[f.node.name] = ps.index(c.func.value.id)
    # recursion through module-level helpers (build_tree -> _build_mapping -> build_tree): name-based call cycles per module
    calls = {}
    for fq, f in m.functions.items():
        calls[fq] = {(dotted(c.func) or "").rsplit(".", 1)[-1] for c in walk_no_nested(f.node) if isinstance(c, ast.Call)}
    by_mod = {}
    for fq, f in m.functions.items():
        by_mod.setdefault(f.file, {}).setdefault(f.node.name, []).append(fq)

    def in_cycle(fq, f):
        seen_, todo = set(), [fq]
        while todo:
            g = todo.pop()
            for nm in calls.get(g, ()):
                for h in by_mod.get(f.file, {}).get(nm, ()):
                    if h == fq:
                        return True
                    if h not in seen_:
                        seen_.add(h)
                        todo.append(h)
        return False
    trackers = {}
    for mod_, tree in m.mods.items():
        trackers[m.files[mod_]] = tracker_methods(tree)
    tt = _set_parents(ast.parse(POSITIVE_C))
    posc = scan(tt.body[1], recursive=True, trackers=tracker_methods(tt))
    tn = _set_parents(ast.parse(NEGATIVE_C))
    negc = scan(tn.body[0])
    if sorted(v for v, *_ in posc) != ["bad", "ok"] or [v for v, *_ in negc] != ["ok"]:
        raise Inconclusive(f"E12 self-test (tracker / guarded forms): embedded examples judged {[v for v, *_ in posc]} / {[v for v, *_ in negc]}")
    n = bad = scanned = 0
    for fq, f in sorted(m.functions.items()):
        scanned += 1
        for verdict, r, enter in scan(f.node, helper_adds, recursive=in_cycle(fq, f), trackers=trackers.get(f.file, (frozenset(), frozenset()))):
            n += 1
            if verdict == "bad":
                bad += 1
                ctx.violation("E12", f.file, f.short, r, f"return after `{ast.unparse(enter)[:40]}`",
                              f"`{ast.unparse(r)[:60]}` (line {r.lineno}) leaves {f.short} without undoing `{ast.unparse(enter)[:50]}` (line "
                              f"{enter.lineno}), which the other exits do: on this path the tracking set keeps the object after its "
                              f"expansion is finished, so a later, legal reference to the same object (a YAML alias used twice, a shared "
                              f"sub-dictionary) is reported as a cycle")
            else:
                ctx.proved("E12", f.file, f.short, r, f"return after `{ast.unparse(enter)[:40]}`", "the entry is removed before this exit")
        for verdict, r, S in scan_b(f.node):
            n += 1
            bad += 1
            ctx.violation("E12", f.file, f.short, r, f"refusal on a repeat visit ({S})",
                          f"`{ast.unparse(r)[:60]}` (line {r.lineno}) refuses an object found in `{S}`, but {f.short} only ever adds to `{S}` and "
                          f"hands the same set to its recursive calls: it holds everything visited so far, not the ancestors, so the second "
                          f"legal reference to a shared container (a YAML anchor used twice, an object reference in a binary plist) is "
                          f"reported as a cycle - one loader refuses data its siblings accept")
    if not bad:
        ctx.proved("E12", "graphtage/", "-", None, "enter/leave paired", f"{scanned} functions scanned, {n} exits after a tracked entry, all paired "
                                                                         f"(embedded positive and negative examples judged as expected)")
    ctx.floor("E12", scanned, 500, "functions scanned for enter/leave pairing")
