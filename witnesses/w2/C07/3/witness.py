"""C07 witness 3: the expression language of --match-if/--match-unless hands hash() (and id(), set()) to the user,
so one and the same command line produces different diffs in processes started with different PYTHONHASHSEEDs.

Documents and options are fixed; only the string-hash seed of the interpreter changes.
"""
import os
import subprocess
import sys
import tempfile

A = '[{"name": "alice", "v": 1}, {"name": "bob", "v": 2}, {"name": "carol", "v": 3}, {"name": "dave", "v": 4},' \
    ' {"name": "erin", "v": 5}, {"name": "frank", "v": 6}]'
B = '[{"name": "alice", "v": 10}, {"name": "bob", "v": 20}, {"name": "carol", "v": 30}, {"name": "dave", "v": 40},' \
    ' {"name": "erin", "v": 50}, {"name": "frank", "v": 60}]'
# "do not pair two records if the record's name falls into the even hash bucket"
EXPR = "hash(from['name']) % 2 == 0"


def main() -> int:
    outputs = {}
    with tempfile.TemporaryDirectory() as tmp:
        a = os.path.join(tmp, "a.json")
        b = os.path.join(tmp, "b.json")
        with open(a, "w") as f:
            f.write(A)
        with open(b, "w") as f:
            f.write(B)
        for seed in range(1, 9):
            env = dict(os.environ, PYTHONHASHSEED=str(seed))
            proc = subprocess.run(
                [sys.executable, "-m", "graphtage", "--no-color", "--quiet", "--condensed",
                 "--match-unless", EXPR, a, b],
                stdout=subprocess.PIPE, stderr=subprocess.DEVNULL, env=env
            )
            outputs[seed] = (proc.returncode, proc.stdout)
    distinct = sorted(set(outputs.values()))
    if len(distinct) > 1:
        print(f"VIOLATION: {len(distinct)} different (exit status, stdout) pairs for the same documents and options "
              f"across PYTHONHASHSEED=1..8:")
        shown = set()
        for seed, res in outputs.items():
            if res not in shown:
                shown.add(res)
                print(f"  PYTHONHASHSEED={seed}: rc={res[0]} stdout={res[1].decode('utf-8')!r}")
        return 1
    print("ok: identical output for all hash seeds")
    return 0


if __name__ == "__main__":
    sys.exit(main())
