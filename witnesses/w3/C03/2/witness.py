"""C03 witness 2: in the annotated diff tree the edits of equal multiset members pile up on ONE node object.

    from: DictNode with the pair "a": 1 twice        to: DictNode with the pair "a": 25 twice

(DictNode "supports matching dictionaries with duplicate keys".)  The top-level edit and the flat list both say 4:
two pair edits of cost 2 each.  In the tree returned by diff() the dictionary still has two children, but both are the
same EditedKeyValuePairNode object, and that object carries both pair edits: each child reports 4, the children add up
to 8 although their parent's edit costs 4, and adding up the leaf edits found on the nodes of the tree gives 8 as well.
"""
import logging
import sys

import graphtage as g
from graphtage import printer
from graphtage.edits import Insert
from graphtage.tree import CompoundEdit

logging.disable(logging.CRITICAL)
printer.DEFAULT_PRINTER.quiet = True


def pair(key, value):
    return g.KeyValuePairNode(g.StringNode(key), g.IntegerNode(value))


def trees():
    return g.DictNode([pair("a", 1), pair("a", 1)]), g.DictNode([pair("a", 25), pair("a", 25)])


def cost(edit):
    while edit.tighten_bounds():
        pass
    return edit.bounds().upper_bound


def listed_sum(edit):
    if isinstance(edit, CompoundEdit):
        return sum(listed_sum(sub) for sub in edit.edits())
    return cost(edit)


def tree_total(root):
    """every leaf edit attached to a node of the tree, plus the insertions listed by the compound edits on the nodes"""
    total = 0
    for node in root.dfs():
        for edit in node.edit_list:
            if isinstance(edit, CompoundEdit):
                total += sum(cost(sub) for sub in edit.edits() if isinstance(sub, Insert))
            else:
                total += cost(edit)
    return total


problems = []

a, b = trees()
top_edit = a.edits(b)
top = cost(top_edit)
if listed_sum(top_edit) != top:
    # (this is not what this witness is about, but it would make the numbers below meaningless)
    problems.append(f"top-level edit costs {top} but lists edits adding up to {listed_sum(top_edit)}")

a, b = trees()
flat = sum(cost(e) for e in a.get_all_edits(b))
if flat != top:
    problems.append(f"flat list adds up to {flat}, top-level edit costs {top}")

a, b = trees()
diff = a.diff(b)
if diff.edited_cost() != top:
    problems.append(f"root of the diff tree reports {diff.edited_cost()}, top-level edit costs {top}")

children = list(diff.children())
child_costs = [child.edited_cost() for child in children]
if sum(child_costs) != diff.edited_cost():
    problems.append(f"diff tree: the dictionary's edit costs {diff.edited_cost()}, but its {len(children)} children "
                    f"report {child_costs} = {sum(child_costs)}"
                    f" (edits per child: {[len(child.edit_list) for child in children]},"
                    f" distinct child objects: {len(set(map(id, children)))})")

total = tree_total(diff)
if total != top:
    problems.append(f"diff tree: the leaf edits attached to its nodes add up to {total}, top-level edit costs {top}")

if problems:
    print("C03 violated for {a: 1, a: 1} -> {a: 25, a: 25}:")
    for p in problems:
        print("  -", p)
    sys.exit(1)
print("ok: every view reports", top)
sys.exit(0)
