"""C12: the YAML formatter prints nothing at all for an empty string, so it comes back as null (value, list item,
whole document) or makes the text unparsable (mapping key)."""
import io
import os
import sys
import tempfile

import graphtage
from graphtage.printer import Printer

DOCS = [
    "a: ''\n",            # value           -> `a: `   loads as {a: null}
    "- ''\n- b\n",        # list item       -> `- `    loads as [null, b]
    "''\n",               # whole document  -> ``      loads as null
    "'': a\nb: c\n",      # mapping key     -> `: a`   is rejected by the loader
    'a: ""\n',
    "a: !!str\n",
]


def load(ft, data: bytes):
    fd, path = tempfile.mkstemp()
    try:
        os.write(fd, data)
        os.close(fd)
        return ft.build_tree(path)
    finally:
        os.unlink(path)


def main() -> int:
    ft = graphtage.FILETYPES_BY_TYPENAME['yaml']
    failures = []
    for text in DOCS:
        tree = load(ft, text.encode('utf-8'))
        out = io.StringIO()
        ft.get_default_formatter().print(Printer(out_stream=out, ansi_color=False, quiet=True), tree)
        printed = out.getvalue()
        try:
            again = load(ft, printed.encode('utf-8'))
        except Exception as e:
            failures.append(f'{text!r} -> {printed!r}: rejected by the loader ({type(e).__name__})')
            continue
        if again != tree:
            failures.append(f'{text!r} -> {printed!r}: loads as {again!r} instead of {tree!r}')
    for f in failures:
        print('VIOLATION', f)
    return 1 if failures else 0


if __name__ == '__main__':
    sys.exit(main())
