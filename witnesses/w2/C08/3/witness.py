"""C08 witness 3: mappings with a NaN key (YAML `.nan`).
 (a) with --dict-strategy none (FixedKeyDictNode) a document and its key-permuted copy do not compare as equal;
 (b) with the default strategies (DictNode) reordering the keys of one document changes the total cost."""
import itertools
import os
import sys
import tempfile

from graphtage import BuildOptions
from graphtage import yaml as gyaml
from graphtage.printer import DEFAULT_PRINTER

DEFAULT_PRINTER.quiet = True


def load_yaml(text, options):
    with tempfile.NamedTemporaryFile("w", suffix=".yml", delete=False) as f:
        f.write(text)
    try:
        return gyaml.build_tree(f.name, options)
    finally:
        os.unlink(f.name)


def cost(from_tree, to_tree):
    edit = from_tree.edits(to_tree)
    while edit.valid and edit.tighten_bounds():
        pass
    assert edit.bounds().definitive()
    return edit.bounds().upper_bound


failed = False

# (a) a document and its key-permuted copy
options = BuildOptions(allow_key_edits=False, auto_match_keys=False)
c = cost(load_yaml(".nan: 1\n1: 2\n0: 3\n", options), load_yaml("0: 3\n1: 2\n.nan: 1\n", options))
if c != 0:
    failed = True
    print(f"[none] {{.nan: 1, 1: 2, 0: 3}} vs {{0: 3, 1: 2, .nan: 1}} costs {c}, expected 0")

# (b) reordering the keys of the from document changes the cost
ITEMS = ["2: bacacb", "21: [baaa, ac]", ".nan: 0"]
TO = "8: c\n33: [baaa, ac]\n11: {}\n"
for name, kwargs in (("auto", {}), ("match", {"auto_match_keys": False})):
    options = BuildOptions(**kwargs)
    to_tree = load_yaml(TO, options)
    costs = {}
    for perm in itertools.permutations(ITEMS):
        costs.setdefault(cost(load_yaml("\n".join(perm) + "\n", options), to_tree), []).append("{" + ", ".join(perm) + "}")
    if len(costs) > 1:
        failed = True
        print(f"[{name}] the cost against {{8: c, 33: [baaa, ac], 11: {{}}}} depends on the key order of the from document:")
        for k, v in sorted(costs.items()):
            print(f"    cost {k}: {v}")

sys.exit(1 if failed else 0)
