"""C14 witness 3: `graphtage.__main__.main(argv)` closes the process's sys.stdout (only in the non-HTML mode).

The console-script entry point is an ordinary function `main(argv) -> int`; calling it twice for the same files must
give the same text and status twice (and must leave the caller able to print the status).  The second call dies with
`ValueError: I/O operation on closed file`; with `--html` both calls work, so the two printers disagree as well.
"""
import os
import subprocess
import sys
import tempfile

CHILD = r'''
import sys
from graphtage.__main__ import main
argv = ['graphtage', '--no-status', '--no-color'] + sys.argv[1:]
rc1 = main(argv)
sys.stderr.write(f"FIRST rc={rc1} stdout.closed={sys.stdout.closed}\n")
try:
    rc2 = main(argv)
    sys.stderr.write(f"SECOND rc={rc2}\n")
except BaseException as e:
    sys.stderr.write(f"SECOND raised {type(e).__name__}: {e}\n")
'''


def run(extra, d):
    p = subprocess.run([sys.executable, '-c', CHILD] + extra + ['a.json', 'b.json'], cwd=d, capture_output=True,
                       stdin=subprocess.DEVNULL, env=os.environ)
    out = p.stdout.decode('utf-8', 'replace')
    marks = [l for l in p.stderr.decode('utf-8', 'replace').splitlines() if l.startswith(('FIRST', 'SECOND'))]
    return out, marks


def main():
    with tempfile.TemporaryDirectory() as d:
        with open(os.path.join(d, 'a.json'), 'w') as f:
            f.write('{"a": [1, 2], "b": "x"}')
        with open(os.path.join(d, 'b.json'), 'w') as f:
            f.write('{"a": [1, 3], "c": "x"}')
        single = subprocess.run([sys.executable, '-m', 'graphtage', '--no-status', '--no-color', 'a.json', 'b.json'],
                                cwd=d, capture_output=True, stdin=subprocess.DEVNULL, env=os.environ)
        once = single.stdout.decode('utf-8', 'replace')
        out, marks = run([], d)
        bad = []
        if out != once + once or marks != ['FIRST rc=1 stdout.closed=False', 'SECOND rc=1']:
            n_diffs = out.count('"a"')
            bad.append(f"plain mode: expected the diff twice and rc=1 twice; got {n_diffs} diff(s), {marks}")
        out_h, marks_h = run(['--html'], d)
        if bad:
            print("VIOLATION: main() closes sys.stdout, a second run of the command in the same process has no output")
            for b in bad:
                print("  " + b)
            print(f"  (with --html the same sequence gives {marks_h})")
            return 1
    print("ok: main() can be called twice")
    return 0


if __name__ == '__main__':
    sys.exit(main())
