"""C12 - printing an unedited document yields text that parses back equal (necessary conditions only).

E9 own-format encoding: for JSON and CSV (whole value domain) leaf content reaches printer.write only through the
format's own encoder (json.dumps / csv.writer), and string characters through the format's escape(); E5 own-format
dispatch: for each format, every node class its own loader can produce resolves - under that format's default
formatter - to a handler inside that formatter's own tree, not to a foreign format's handler through the global
fallback and not to node.print.  The round trip itself over Unicode, numbers and nesting is NOT decided.
"""
import ast

from ..astx import code
from ..astx import walk_no_nested, dotted, call_name, self_attr, func_params, ancestors
from ..core import norm, Inconclusive
from .c06 import e9_json, encoder_on_all_paths
from .c09 import loader_chain, json_return_classes

TREE = "graphtage.tree.TreeNode"


def e9_csv(ctx):
    m = ctx.model
    ctx.rule("E9-csv", "CSV leaves are written through csv.writer(...).writerow([node.object]) with only the row terminator "
                       "stripped; delimiters between columns come from the row formatter")
    q = m.need_class("CSVFormatter")
    f = m.method(q, "print_LeafNode")
    # print_LeafNode plus the helpers it calls (module-level functions of csv.py or methods of the formatter)
    region = [(f, None)]
    for c in walk_no_nested(f.node):
        if isinstance(c, ast.Call):
            h = None
            if isinstance(c.func, ast.Name):
                r_ = m.resolve_expr(f.module, c.func)
                h = m.functions.get(r_[0][1]) if r_ and r_[0] and r_[0][0] == "func" else None
            elif self_attr(c.func):
                h = m.method(q, self_attr(c.func))
            if h is not None and h.module == f.module and h.node is not f.node:
                region.append((h, c))

    def is_trailing_slice(e):
        return isinstance(e, ast.Subscript) and isinstance(e.slice, ast.Slice) and e.slice.lower is None \
            and isinstance(e.slice.upper, ast.UnaryOp) and isinstance(e.slice.upper.op, ast.USub) and e.slice.step is None

    def derived(e, fn, base, depth=0):
        """Is expression `e` (in function node fn) the text `base` yields, shortened at most by trailing slices?  base(e) says
        whether e is the text itself (the getvalue() call, or the helper's parameter)."""
        if depth > 6:
            return False
        if base(e):
            return True
        if is_trailing_slice(e):
            return derived(e.value, fn, base, depth + 1)
        if isinstance(e, ast.Name):
            vals = [a_.value for a_ in walk_no_nested(fn) if isinstance(a_, ast.Assign) and len(a_.targets) == 1
                    and isinstance(a_.targets[0], ast.Name) and a_.targets[0].id == e.id]
            # a name that shortens itself (`r = r[:-1]`) is fine as long as its first value is the text
            vals = [v_ for v_ in vals if not (is_trailing_slice(v_) and dotted(v_.value) == e.id)]
            return bool(vals) and all(derived(v_, fn, base, depth + 1) for v_ in vals)
        if isinstance(e, ast.Call) and isinstance(e.func, ast.Name) and len(e.args) == 1 and not e.keywords:
            r_ = m.resolve_expr(f.module, e.func)
            h_ = m.functions.get(r_[0][1]) if r_ and r_[0] and r_[0][0] == "func" else None
            if h_ is not None and h_.module == f.module:
                hp = func_params(h_.node)
                rets_ = [x for x in walk_no_nested(h_.node) if isinstance(x, ast.Return)]
                pure = bool(rets_) and len(hp) == 1 and all(x.value is not None and derived(x.value, h_.node, lambda z: isinstance(z, ast.Name) and z.id == hp[0], depth + 1)
                                                            for x in rets_)
                return pure and derived(e.args[0], fn, base, depth + 1)
        return False
    src_ok = ok_flow = False
    for g, call in region:
        wr = [c for c in walk_no_nested(g.node) if isinstance(c, ast.Call) and isinstance(c.func, ast.Attribute) and c.func.attr == "writerow"]
        if not wr or "csv.writer(" not in code(g.node).replace(" ", ""):
            continue
        arg = wr[0].args[0] if wr[0].args else None
        if not (isinstance(arg, ast.List) and len(arg.elts) == 1):
            continue
        # the default dialect: under QUOTE_MINIMAL a field is quoted for the delimiter, the quote character and the characters of
        # the *line terminator* - with lineterminator='' or '\n' a bare \r (or \n) in a cell is written unquoted and splits the row
        ctor = [c for c in walk_no_nested(g.node) if isinstance(c, ast.Call) and call_name(c) in ("csv.writer", "writer")]
        if not ctor or any(len(c.args) != 1 or c.keywords for c in ctor):
            continue
        cell = ast.unparse(arg.elts[0]).replace(" ", "")
        if call is None:
            src_ok = cell == "node.object"
        else:
            ps = [p_ for p_ in func_params(g.node) if p_ != "self"]
            src_ok = cell in ps and ps.index(cell) < len(call.args) and ast.unparse(call.args[ps.index(cell)]).replace(" ", "") == "node.object"
        is_text = lambda z: isinstance(z, ast.Call) and isinstance(z.func, ast.Attribute) and z.func.attr == "getvalue"
        if not any(is_text(x) for x in walk_no_nested(g.node)):
            continue
        writes = [c for c in walk_no_nested(f.node) if isinstance(c, ast.Call) and isinstance(c.func, ast.Attribute)
                  and c.func.attr == "write" and dotted(c.func.value) == "printer"]
        if call is None:
            ok_flow = len(writes) == 1 and bool(writes[0].args) and derived(writes[0].args[0], g.node, is_text)
        else:
            rets = [r_ for r_ in walk_no_nested(g.node) if isinstance(r_, ast.Return)]
            ok_flow = bool(rets) and all(r_.value is not None and derived(r_.value, g.node, is_text) for r_ in rets) \
                and len(writes) == 1 and writes[0].args and writes[0].args[0] is call
    if src_ok and ok_flow:
        ctx.proved("E9-csv", f.file, "CSVFormatter.print_LeafNode", f.node, "csv leaf encoding",
                   "csv.writer quoting of [node.object]; only the trailing line terminator is removed")
    else:
        ctx.violation("E9-csv", f.file, "CSVFormatter.print_LeafNode", f.node, "csv leaf encoding",
                      "a CSV cell is not written as csv.writer's encoding of [node.object] minus the row terminator: cells "
                      "containing commas, quotes or newlines would not parse back")
    rq = m.need_class("CSVRowFormatter")
    init = m.method(rq, "__init__")
    if "super().__init__('','',',')" in code(init.node).replace(" ", ""):
        ctx.proved("E9-csv", init.file, "CSVRowFormatter.__init__", init.node, "column delimiter", "columns are joined with ','")
    else:
        ctx.violation("E9-csv", init.file, "CSVRowFormatter.__init__", init.node, "column delimiter", "CSV rows are no longer delimited by ','")


def loader_classes(m, ftq):
    """Node classes a file type's loader can produce (constructor calls along the loader chain + json.build_tree's set)."""
    bt = m.method(ftq, "build_tree")
    out = set()
    uses_json = False
    chain = loader_chain(m, bt)
    extra = []
    for f in chain:
        for c in walk_no_nested(f.node):
            if isinstance(c, ast.Call):
                r = m.resolve_expr(f.module, c.func)
                if r and r[0] and r[0][0] == "class" and r[0][1] in m.classes and m.is_subclass(r[0][1], TREE):
                    out.add(r[0][1])
                    init = m.method(r[0][1], "__init__")
                    if init is not None and init.qual not in [x.qual for x in chain + extra]:
                        extra.append(init)
                if r and r[0] and r[0][0] == "func" and r[0][1] == "graphtage.json.build_tree":
                    uses_json = True
    for f in extra:
        for c in walk_no_nested(f.node):
            if isinstance(c, ast.Call):
                r = m.resolve_expr(f.module, c.func)
                if r and r[0] and r[0][0] == "class" and r[0][1] in m.classes and m.is_subclass(r[0][1], TREE):
                    out.add(r[0][1])
                if isinstance(c.func, ast.Attribute) and c.func.attr == "from_dict":
                    k = m.resolve_class(f.module, c.func.value)
                    if k:
                        out.add(k)
                        out.add(m.need_class("KeyValuePairNode"))
    if uses_json:
        out |= json_return_classes(m)
        out.add(m.need_class("KeyValuePairNode"))
    return out


def e5_own(ctx):
    m = ctx.model
    ctx.rule("E5-own", "own-format dispatch: under a format's default formatter every node class that format's loader can "
                       "produce resolves to a handler inside that formatter's own sub-formatter tree (not to another "
                       "format's handler through the global registry, and not to node.print)")
    fmts, default = m.formatter_registry()
    n = 0
    for q, info in sorted(m.filetypes().items()):
        if info["name"] in ("pickle",) or info["default_formatter"] not in default:
            continue
        root = default[info["default_formatter"]]
        own = {id(x) for x in root.walk()}
        for k in sorted(loader_classes(m, q)):
            n += 1
            r = m.get_formatter(m.node_mro_names(k), root)
            ks = k.rsplit(".", 1)[-1]
            if r is None:
                ctx.violation("E5-own", m.files[m.classes[k][0]], ks, None, f"{info['name']} x {ks}",
                              f"{info['name']}: no formatter handles {ks}; the node's own print() is used, which does not emit {info['name']} syntax")
            elif id(r[0]) in own and m.classes[r[0].q][0] != m.classes[root.q][0] and ks != "KeyValuePairNode":
                ctx.violation("E5-own", m.files[m.classes[r[0].q][0]], f"{r[0].name}.{r[1]}", None, f"{info['name']} x {ks}",
                              f"{info['name']}: {ks} is printed by {r[0].name}.{r[1]}, a formatter of another format's module that is "
                              f"only embedded as a helper: the output for this node is not {info['name']} syntax")
            elif id(r[0]) not in own:
                ctx.violation("E5-own", m.files[m.classes[r[0].q][0]], f"{r[0].name}.{r[1]}", None, f"{info['name']} x {ks}",
                              f"{info['name']}: {ks} is printed by {r[0].name}.{r[1]}, found through the global formatter registry "
                              f"- a handler of another format - so the output is not {info['name']} and does not parse back")
            else:
                ctx.proved("E5-own", m.files[m.classes[r[0].q][0]], f"{r[0].name}.{r[1]}", None, f"{info['name']} x {ks}",
                           f"{ks} -> {r[0].path()}.{r[1]}")
    ctx.floor("E5-own", n, 30, "format x loader-class cells")


def r12c(ctx):
    m = ctx.model
    ctx.rule("R12c", "formatter singletons carry no marker state from one print to the next: every flag that write_char sets "
                     "from its removed/inserted arguments is reset to False after the last character of a string edit, so a "
                     "later plain print through the same formatter instance emits no stray ~~ / ++")
    q = m.need_class("StringFormatter")
    wc = m.method(q, "write_char")
    flags = set()
    for s_ in walk_no_nested(wc.node):
        if isinstance(s_, ast.Assign) and self_attr(s_.targets[0]) and isinstance(s_.value, ast.Name) \
                and s_.value.id in func_params(wc.node):
            flags.add(self_attr(s_.targets[0]))
    ctx.floor("R12c", len(flags), 1, "marker-state flags set by write_char")
    pe = m.method(q, "print_StringEdit")
    calls = [c for c in walk_no_nested(pe.node) if isinstance(c, ast.Call) and self_attr(c.func) == "write_char"]
    last = max((c.lineno for c in calls), default=0)
    for fl in sorted(flags):
        resets = [s_ for s_ in walk_no_nested(pe.node) if isinstance(s_, ast.Assign) and self_attr(s_.targets[0]) == fl
                  and isinstance(s_.value, ast.Constant) and s_.value.value is False and s_.lineno > last]
        if resets:
            ctx.proved("R12c", pe.file, "StringFormatter.print_StringEdit", resets[0], f"{fl} reset",
                       f"self.{fl} is cleared after the last character is written")
        else:
            ctx.violation("R12c", pe.file, "StringFormatter.print_StringEdit", pe.node, f"{fl} reset",
                          f"write_char sets self.{fl} while printing a string edit, but print_StringEdit does not reset it after "
                          f"the last character: the formatter is a shared singleton (DEFAULT_INSTANCE), so the next unedited "
                          f"string printed through it starts with a stray change marker and no longer parses back equal")


def r12d(ctx):
    m = ctx.model
    ctx.rule("R12d", "an empty container is printed as something: a sequence formatter built with an empty opening and closing symbol "
                     "(block styles: YAML) writes nothing at all for an empty list or mapping, and 'nothing' loads back as null; "
                     "every handler of such a formatter that delegates to SequenceFormatter.print_SequenceNode must first test the "
                     "node for emptiness and write an explicit empty form (`[]`, `{}`)")
    SF = m.need_class("SequenceFormatter")
    n = 0
    # scope: formats whose loader reads the empty document as null (an explicit `build_tree(None, ...)` on the loading path);
    # for the others "nothing" may be the correct form of an empty container (an empty CSV row, an empty Python module, the
    # child list of an XML element, a plist <array></array> written by the handler itself)
    fmts, default = m.formatter_registry()
    scope = set()
    for fq, info in sorted(m.filetypes().items()):
        bt = m.method(fq, "build_tree")
        if bt is None or info["default_formatter"] not in default:
            continue
        def may_be_none(fn_node, e):
            if isinstance(e, ast.Constant) and e.value is None:
                return True
            if isinstance(e, ast.IfExp):
                return may_be_none(fn_node, e.body) or may_be_none(fn_node, e.orelse)
            if isinstance(e, ast.Name):
                for a in walk_no_nested(fn_node):
                    if isinstance(a, (ast.Assign, ast.AnnAssign)) and a.value is not None and not isinstance(a.value, ast.Name):
                        tgts = a.targets if isinstance(a, ast.Assign) else [a.target]
                        if any(isinstance(t, ast.Name) and t.id == e.id for t in tgts) and may_be_none(fn_node, a.value):
                            return True
            return False
        reads_empty_as_null = any(isinstance(c, ast.Call) and (call_name(c) or "").endswith("build_tree") and c.args
                                  and may_be_none(f_.node, c.args[0])
                                  for f_ in loader_chain(m, bt) for c in walk_no_nested(f_.node))
        if reads_empty_as_null:
            scope |= {x.q for x in default[info["default_formatter"]].walk()}
    for q in sorted(m.subclasses(SF)):
        if q not in scope:
            continue
        init = m.method(q, "__init__")
        if init is None or init.cls != q:
            continue
        sup = [c for c in walk_no_nested(init.node) if isinstance(c, ast.Call) and isinstance(c.func, ast.Attribute) and c.func.attr == "__init__"
               and isinstance(c.func.value, ast.Call) and call_name(c.func.value) == "super"]
        if not sup or len(sup[0].args) < 2:
            continue
        a0, a1 = sup[0].args[0], sup[0].args[1]
        if not (isinstance(a0, ast.Constant) and a0.value == "" and isinstance(a1, ast.Constant) and a1.value == ""):
            continue
        short = q.rsplit(".", 1)[-1]
        for name, (kind, fn) in sorted(m.attrs[q].items()):
            if kind != "def" or not name.startswith("print_"):
                continue
            deleg = [c for c in walk_no_nested(fn.node) if isinstance(c, ast.Call) and isinstance(c.func, ast.Attribute)
                     and c.func.attr == "print_SequenceNode" and isinstance(c.func.value, ast.Call) and call_name(c.func.value) == "super"]
            if not deleg:
                continue
            n += 1
            ok = False
            for i_ in walk_no_nested(fn.node):
                if isinstance(i_, ast.If):
                    t = ast.unparse(i_.test).replace(" ", "")
                    empt = "len(" in t and ("==0" in t or t.startswith("notlen(")) or t.startswith("not") and "len(" not in t and "isinstance" not in t
                    writes = [c for s_ in i_.body for c in ast.walk(s_) if isinstance(c, ast.Call) and isinstance(c.func, ast.Attribute)
                              and c.func.attr == "write" and c.args and isinstance(c.args[0], ast.Constant) and isinstance(c.args[0].value, str)
                              and c.args[0].value.strip()]
                    if empt and writes and i_.lineno < deleg[0].lineno:
                        ok = True
            if ok:
                ctx.proved("R12d", fn.file, f"{short}.{name}", deleg[0], f"{short}.{name} empty form", "an empty node is written in an explicit empty form before delegating")
            else:
                ctx.violation("R12d", fn.file, f"{short}.{name}", deleg[0], f"{short}.{name} empty form",
                              f"{short} is built with empty opening and closing symbols and {name} hands the node to "
                              f"SequenceFormatter.print_SequenceNode without looking at its length: an empty container prints as the empty "
                              f"string (`a: []` becomes `a: `), which the loader reads back as null - the document does not survive a print")
    ctx.floor("R12d", n, 2, "delegating handlers of symbol-less sequence formatters")


def r12e(ctx):
    m = ctx.model
    ctx.rule("R12e", "names survive the XML round trip: ElementTree hands out namespaced names in Clark notation (`{uri}local`) and "
                     "drops the xmlns declarations; a loader that stores `element.tag` / the keys of `element.attrib` as they are, "
                     "paired with a printer that writes names verbatim, prints `<{uri}a />` - which no XML parser accepts.  The "
                     "loader must translate such names (or keep the prefixes) before they reach the tree")
    f = m.functions.get("graphtage.xml.build_tree")
    if f is None:
        ctx.inconclusive("R12e", "graphtage/xml.py", "build_tree", None, "xml loader", "graphtage.xml.build_tree not found")
        return
    uses = [x for x in walk_no_nested(f.node) if isinstance(x, ast.Attribute) and x.attr in ("tag", "attrib") and isinstance(x.ctx, ast.Load)]
    handles = any(isinstance(c, ast.Constant) and isinstance(c.value, str) and ("{" in c.value or "}" in c.value) for c in ast.walk(f.node)) \
        or "start-ns" in code(f.node) or "register_namespace" in code(f.node)
    ctx.floor("R12e", len(uses), 2, "element names taken from ElementTree in xml.build_tree")
    for x in uses:
        if handles:
            ctx.proved("R12e", f.file, "build_tree", x, f"element .{x.attr}", "Clark-notation names are translated before they reach the tree")
        else:
            ctx.violation("R12e", f.file, "build_tree", x, f"element .{x.attr}",
                          f"`{norm(x, 30)}` is stored as ElementTree reports it: for `<x:a xmlns:x=\"abc\"/>`, `<a xmlns=\"abc\"/>` or "
                          f"`<a xml:lang=\"en\">` that is `{{abc}}a` / `{{http://www.w3.org/XML/1998/namespace}}lang`, the xmlns declaration is "
                          f"gone, and XMLFormatter writes the name back verbatim: the printed document is not well-formed XML")


def r12f(ctx):
    m = ctx.model
    ctx.rule("R12f", "YAML keys are always loadable: the parser accepts a simple key (`key: value`) only up to 1024 characters on one "
                     "line; longer keys need the explicit form `? key` / `: value` (which yaml.dump itself emits).  The pair formatter "
                     "must choose between the two forms by looking at the key")
    q = m.find_class("YAMLKeyValuePairFormatter")
    f = m.method(q, "print_KeyValuePairNode") if q else None
    if f is None:
        ctx.inconclusive("R12f", "graphtage/yaml.py", "YAMLKeyValuePairFormatter.print_KeyValuePairNode", None, "yaml pair formatter", "not found")
        return
    explicit = [c for c in walk_no_nested(f.node) if isinstance(c, ast.Constant) and isinstance(c.value, str) and c.value.lstrip().startswith("?")]
    sep = [c for c in walk_no_nested(f.node) if isinstance(c, ast.Call) and isinstance(c.func, ast.Attribute) and c.func.attr == "write"
           and c.args and isinstance(c.args[0], ast.Constant) and c.args[0].value == ": "]
    ctx.floor("R12f", len(sep), 1, "simple-key separators written by the YAML pair formatter")
    for c in sep:
        if explicit:
            ctx.proved("R12f", f.file, f.short, c, "explicit key form", "long keys are written in the explicit `? key` form")
        else:
            ctx.violation("R12f", f.file, f.short, c, "explicit key form",
                          "every pair is written as the simple key `key: value`, whatever the key: a key of more than 1024 characters "
                          "(`? aaaa...` in the file, as yaml.dump writes it) is printed as a simple key, which the loader rejects with "
                          "ScannerError: mapping values are not allowed in this context")


def r12g(ctx):
    m = ctx.model
    ctx.rule("R12g", "the YAML scalar writer writes something for every value: `write_obj` (what every leaf handler of the YAML formatter "
                     "ends in) reaches a `printer.write(...)` on every path - a path that returns with nothing written prints a value as "
                     "the empty text, which the loader reads as null (`a: ''` came back as `a: null`)")
    q = m.need_class("YAMLFormatter")
    f = m.method(q, "write_obj")
    if f is None:
        ctx.inconclusive("R12g", "graphtage/yaml.py", "YAMLFormatter.write_obj", None, "scalar writer", "YAMLFormatter.write_obj not found")
        return
    ps = func_params(f.node)
    pr = next((p_ for p_ in ps if p_ not in ("self", "cls")), None)

    def writes(s_):
        return sum(1 for c in ast.walk(s_) if isinstance(c, ast.Call) and isinstance(c.func, ast.Attribute) and c.func.attr == "write"
                   and isinstance(c.func.value, ast.Name) and c.func.value.id == pr)

    def paths(stmts, facts, w):
        # [(facts, writes, terminating statement or None)] - if/else and early returns only; other statements are straight-line
        if not stmts:
            return [(facts, w, None)]
        s_, rest = stmts[0], stmts[1:]
        if isinstance(s_, ast.If):
            out = []
            for pol, branch in ((True, s_.body), (False, s_.orelse)):
                for fc, ww, end in paths(branch, facts + [(s_.test, pol)], w):
                    out += [(fc, ww, end)] if end is not None else paths(rest, fc, ww)
            return out
        if isinstance(s_, (ast.Return, ast.Raise)):
            return [(facts, w + writes(s_), s_)]
        return paths(rest, facts, w + writes(s_))
    silent = [(fc, end) for fc, w, end in paths(f.node.body, [], 0) if w == 0 and not isinstance(end, ast.Raise)]
    n = len(paths(f.node.body, [], 0))
    if silent:
        fc, end = silent[0]
        cond = " and ".join(("" if pol else "not ") + norm(t, 40) for t, pol in fc) or "always"
        ctx.violation("R12g", f.file, "YAMLFormatter.write_obj", end or f.node, "scalar writer",
                      f"under `{cond}` write_obj returns without writing anything: the value is printed as the empty text, which loads "
                      f"back as null (or, for a key, does not load at all)")
    else:
        ctx.proved("R12g", f.file, "YAMLFormatter.write_obj", f.node, "scalar writer", f"{n} path(s), each writes to the printer")
    ctx.floor("R12g", n, 1, "paths through YAMLFormatter.write_obj")


def r12h(ctx):
    m = ctx.model
    ctx.rule("R12h", "in a format where an empty line is data (CSV: a blank line loads as an empty row) the text ends once: the row "
                     "formatter terminates every row including the last (which is what lets trailing empty rows load back), so the "
                     "newline that main() appends to every output must not be appended to this one - two line breaks at the end are one "
                     "row more than the document had")
    q = m.find_class("CSVRows")
    f = m.method(q, "item_newline") if q else None
    mainf = m.functions.get("graphtage.__main__.main")
    if f is None or mainf is None:
        ctx.inconclusive("R12h", "graphtage/csv.py", "CSVRows.item_newline", None, "closing newline", "CSVRows.item_newline or main() not found")
        return
    from ..astx import dominating_conditions, flatten_conditions, facts_refute
    ps = func_params(f.node)
    last = ps[3] if len(ps) > 3 else "is_last"
    nls = [c for c in walk_no_nested(f.node) if isinstance(c, ast.Call) and isinstance(c.func, ast.Attribute) and c.func.attr in ("newline", "write")]
    terminates_last = [c for c in nls if not facts_refute(flatten_conditions(dominating_conditions(c)), {last: True})]
    closing = [c for c in walk_no_nested(mainf.node) if isinstance(c, ast.Call) and isinstance(c.func, ast.Attribute) and c.func.attr in ("write", "newline")
               and ((c.args and isinstance(c.args[0], ast.Constant) and c.args[0].value == "\n") or (c.func.attr == "newline" and not c.args))
               and not any(isinstance(a_, (ast.For, ast.While)) for a_ in ancestors(c))]
    ctx.floor("R12h", len(nls), 1, "line breaks written by CSVRows.item_newline")
    if not terminates_last or not closing:
        ctx.proved("R12h", f.file, "CSVRows.item_newline", f.node, "closing newline",
                   "rows are separated, not terminated" if not terminates_last else "main() appends no newline of its own", nontrivial=False)
        return
    for c in closing:
        conds = [ast.unparse(t) for t, pol in flatten_conditions(dominating_conditions(c))]
        aware = [x for x in conds if any(w in x.lower() for w in ("csv", "format", "endswith", "newline", "last_char", "ends_with"))]
        if aware:
            ctx.proved("R12h", mainf.file, "main", c, "closing newline", f"the closing newline is conditional on `{aware[0][:60]}`")
        else:
            ctx.violation("R12h", mainf.file, "main", c, "closing newline",
                          f"`{norm(c, 30)}` is appended to every output, and CSVRows.item_newline has already terminated the last row "
                          f"(`{norm(terminates_last[0], 30)}` also runs under {last}=True): `graphtage x.csv x.csv` prints one empty row "
                          f"more than x.csv has, and the printed text does not load back equal")


def r12i(ctx):
    m = ctx.model
    ctx.rule("R12i", "a node class with a handler of its own in a formatter (print_<Class>) prints itself through that formatter: its "
                     "print() delegates to <Formatter>.DEFAULT_INSTANCE.print(printer, self) - printing its parts with their generic "
                     "print() instead yields another format's text between this format's delimiters (plist header around JSON-like text)")
    n = 0
    tn = m.need_class("TreeNode")
    for q in sorted(m.classes):
        short = q.rsplit(".", 1)[-1]
        own = m.attrs[q].get("print")
        if not own or own[0] != "def" or not m.is_subclass(q, tn):
            continue
        if m.classes[q][0] not in ("graphtage.xml", "graphtage.plist", "graphtage.csv", "graphtage.yaml", "graphtage.json"):
            continue        # the formats C12 speaks about; generic containers and the Python-object differ have no text format of their own
        fmts = [fq for fq in m.classes if f"print_{short}" in m.attrs[fq] and m.classes[fq][0] == m.classes[q][0]]
        if not fmts:
            continue
        n += 1
        f = own[1]
        names = {fq.rsplit(".", 1)[-1] for fq in fmts}
        ok = any(isinstance(c, ast.Call) and isinstance(c.func, ast.Attribute) and c.func.attr == "print"
                 and isinstance(c.func.value, ast.Attribute) and c.func.value.attr == "DEFAULT_INSTANCE"
                 and (dotted(c.func.value.value) or "").rsplit(".", 1)[-1] in
                 {x.rsplit(".", 1)[-1] for fq in fmts for x in [fq] + [s_ for s_ in m.classes if m.is_subclass(s_, fq)]}
                 for c in walk_no_nested(f.node))
        if ok:
            ctx.proved("R12i", f.file, f"{short}.print", f.node, f"{short}.print", f"delegates to {sorted(names)[0]}.DEFAULT_INSTANCE")
        else:
            ctx.violation("R12i", f.file, f"{short}.print", f.node, f"{short}.print",
                          f"{short}.print() does not go through {sorted(names)[0]} (which has print_{short}): its parts are printed by their generic "
                          f"print(), so `tree.print(printer)` of a loaded document is not text of the document's own format")
    ctx.floor("R12i", n, 2, "node classes with a formatter handler of their own and a print() override")


def run(ctx):
    r12h(ctx)
    r12i(ctx)
    r12g(ctx)
    r12f(ctx)
    r12e(ctx)
    from ..memo import e13
    e13(ctx)          # a printer reused for a second document prints it as a fresh one would
    r12d(ctx)
    e9_json(ctx)
    r12c(ctx)
    e9_csv(ctx)
    e5_own(ctx)
    ctx.assume("the round trip itself (every Unicode scalar, extreme numbers, deep nesting) is a property of output values; "
               "third-party encoders/decoders are assumed to be mutual inverses on their domains")
