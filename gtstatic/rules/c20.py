"""C20 - malformed input is reported, not crashed on.

R20a error handlers cannot raise and name the file; R20b caught classes cover the parser's raise-set; R20c the CLI
turns a returned message into stderr output + non-zero status before anything is printed to the diff stream.
"""
import ast
import importlib

from ..astx import dotted, call_name, walk_no_nested, func_params, terminates, parent, block_of
from ..core import norm
from .. import extlib

IN_SCOPE = {"json", "json5", "yaml", "xml", "html", "plist"}   # text formats with a notion of syntax error

# Raise-sets of parser entry points.  'frozen': C-implemented or trusted by documentation; 'scan': pure-Python sources
# scanned for explicit raise statements reachable from the entry (extlib.explicit_raises).
PARSERS = {
    "json.load": {"frozen": ["json.decoder.JSONDecodeError"], "reads_text": True,
                  "why": "json.load raises JSONDecodeError for every syntax error (documented; C scanner)"},
    "json5.load": {"scan": (["json5.lib", "json5.parser"], ["load", "loads", "Parser"]), "reads_text": True,
                   "why": "json5.lib.loads raises ValueError(err) for parse errors"},
    "yaml.load_all": {"frozen": ["yaml.YAMLError"], "reads_text": False,
                      "why": "libyaml/pyyaml scanner, parser, composer and constructor errors all derive from YAMLError"},
    "xml.etree.ElementTree.parse": {"frozen": ["xml.etree.ElementTree.ParseError"], "reads_text": False,
                                    "why": "expat errors are converted to ParseError by XMLParser"},
    "plistlib.load": {"frozen": ["xml.parsers.expat.ExpatError"], "scan": (["plistlib"], ["load", "_PlistParser", "_BinaryPlistParser", "_is_fmt_xml",
                                                                 "_is_fmt_binary"]),
                      "reads_text": False,
                      "why": "expat raises ExpatError for ill-formed XML; plistlib itself raises ValueError / "
                             "InvalidFileException for well-formed XML that is not a plist"},
}
# Exceptions these parsers raise for malformed input WITHOUT an explicit raise statement a source scan could find (raised
# by C code, or by an unguarded subscript / attribute access on parser state).  Frozen table: each line was confirmed by a
# failing input (hunting wave, DESIGN 10.9) and by reading the parser.
IMPLICIT_RAISES = {
    "json.load": [("RecursionError", "brackets nested deeper than the interpreter's recursion limit (C scanner recursion; '[' x 100000)"),
                  ("ValueError", "an integer literal longer than sys.get_int_max_str_digits() ('[' + '1' x 5000): int() raises a plain ValueError"),
                  ("UnicodeDecodeError", "json.load decodes the bytes it read (detect_encoding + decode)")],
    "json5.load": [("RecursionError", "pure-Python recursive descent, about 20 frames per nesting level ('[' x 62)")],
    "plistlib.load": [("IndexError", "_PlistParser.end_key/add_object read self.stack[-1]; a <key> or value outside any container leaves the stack empty"),
                      ("AttributeError", "_date_from_string calls .groupdict() on the result of a regex match that is None for a malformed <date>"),
                      ("TypeError", "_date_from_string calls datetime.datetime(*fields) with fewer than three fields for a shortened <date>2020-01Z</date>")],
    "xml.etree.ElementTree.parse": [],
    "yaml.load_all": [("IndexError", "SafeConstructor.construct_yaml_int / construct_yaml_float read value[0] of an explicitly tagged scalar that is empty (`count: !!int`)"),
                      ("KeyError", "construct_yaml_bool looks the scalar up in bool_values (`flag: !!bool tru`)"),
                      ("AttributeError", "construct_yaml_timestamp calls .groupdict() on a regex match that is None (`when: !!timestamp 2001-12-`)")],
}
# Implicit raises belong to the parsing *engine*, not to the entry point that happens to drive it: every library module that
# creates a pyexpat parser (ParserCreate) hands the document's own encoding declaration to pyexpat.  Which entries do is read
# from the library source on every run (ENGINE_MODULES names the module to read), so a sibling entry cannot be forgotten.
PYEXPAT_IMPLICIT = [("LookupError", "an unknown encoding name in the XML declaration (pyexpat looks the codec up; `encoding=\"UTF-9\"`)"),
                    ("ValueError", "a multi-byte encoding such as shift_jis in the XML declaration is refused by pyexpat")]
ENGINE_MODULES = {"xml.etree.ElementTree.parse": "xml.etree.ElementTree", "plistlib.load": "plistlib"}


def drives_pyexpat(entry):
    mod = ENGINE_MODULES.get(entry)
    if mod is None:
        return False
    src = extlib.source_of(mod)
    if src is None:
        return True         # cannot read the library: assume the worst
    with open(src, encoding="utf-8") as fh:
        tree = ast.parse(fh.read(), src)
    return any(isinstance(c, ast.Call) and (call_name(c) or "").rsplit(".", 1)[-1] == "ParserCreate" for c in ast.walk(tree))


SAFE_HANDLER_CALLS = {"os.path.basename", "str", "repr", "type", "len"}


def import_obj(path):
    parts = path.split(".")
    for i in range(len(parts), 0, -1):
        try:
            mod = importlib.import_module(".".join(parts[:i]))
        except Exception:
            continue
        obj = mod
        try:
            for p in parts[i:]:
                obj = getattr(obj, p)
        except AttributeError:
            return None
        return obj
    import builtins
    return getattr(builtins, path, None)


def resolve_ext_name(m, module, expr):
    """Dotted external name an expression refers to (through the module's import map), or None."""
    r = m.resolve_expr(module, expr)
    if r and r[0]:
        kind = r[0][0]
        if kind == "ext":
            return r[0][1]
        if kind == "module":
            return r[0][1]
    return None


def exc_classes(m, module, type_expr):
    """Exception class objects named by an except clause (Name, Attribute or Tuple)."""
    exprs = type_expr.elts if isinstance(type_expr, ast.Tuple) else [type_expr]
    out = []
    for e in exprs:
        nm = resolve_ext_name(m, module, e)
        obj = import_obj(nm) if nm else None
        if obj is None and isinstance(e, ast.Name):
            obj = import_obj(e.id)
        out.append((norm(e), obj))
    return out


def find_loader_calls(m, f, depth=0, seen=None):
    """External parser entry calls reached from a build_tree method: [(ext dotted name, call node, FuncInfo, text_mode)]."""
    seen = seen if seen is not None else set()
    if f.qual in seen or depth > 3:
        return []
    seen.add(f.qual)
    out = []
    text_mode_opens = set()
    for n in walk_no_nested(f.node):
        if isinstance(n, ast.With):
            for it in n.items:
                c = it.context_expr
                if isinstance(c, ast.Call) and call_name(c) == "open":
                    mode = c.args[1] if len(c.args) > 1 else next((k.value for k in c.keywords if k.arg == "mode"), None)
                    binary = isinstance(mode, ast.Constant) and isinstance(mode.value, str) and "b" in mode.value
                    if not binary and isinstance(it.optional_vars, ast.Name):
                        text_mode_opens.add(it.optional_vars.id)
    for n in walk_no_nested(f.node):
        if not isinstance(n, ast.Call):
            continue
        nm = resolve_ext_name(m, f.module, n.func)
        if nm in PARSERS:
            text = any(isinstance(a, ast.Name) and a.id in text_mode_opens for a in n.args)
            out.append((nm, n, f, text))
            continue
        # delegation to a project function / method
        r = m.resolve_expr(f.module, n.func)
        if r and r[0] and r[0][0] == "func" and r[0][1] in m.functions:
            out += find_loader_calls(m, m.functions[r[0][1]], depth + 1, seen)
        elif isinstance(n.func, ast.Attribute) and isinstance(n.func.value, ast.Name) and n.func.value.id == "self" \
                and f.cls:
            t = m.method(f.cls, n.func.attr)
            if t is not None:
                out += find_loader_calls(m, t, depth + 1, seen)
    return out


def project_raises(m, f, depth=0, seen=None):
    """Explicit `raise <Builtin>(...)` statements in project functions a loader reaches after parsing (tree construction
    refuses some parsed values: json.build_tree raises ValueError for objects without a node type)."""
    import builtins
    seen = seen if seen is not None else set()
    if f.qual in seen or depth > 3:
        return []
    seen.add(f.qual)
    out = []
    for n in walk_no_nested(f.node):
        if isinstance(n, ast.Raise) and isinstance(n.exc, ast.Call) and isinstance(n.exc.func, ast.Name):
            cls = getattr(builtins, n.exc.func.id, None)
            if isinstance(cls, type) and issubclass(cls, Exception) and not issubclass(cls, (AssertionError, NotImplementedError, TypeError)):
                out.append((n.exc.func.id, cls, f"explicit raise in {f.short} ({f.file}:{n.lineno}), reached while building the tree"))
        if isinstance(n, ast.Call):
            r = m.resolve_expr(f.module, n.func)
            if r and r[0] and r[0][0] == "func" and r[0][1] in m.functions:
                out += project_raises(m, m.functions[r[0][1]], depth + 1, seen)
    uniq = {}
    for nm, cls, origin in out:
        uniq.setdefault(nm, (nm, cls, origin))
    return list(uniq.values())


def raise_set(entry):
    """[(class name, class object, origin)] a parser entry may raise (frozen table + explicit-raise scan)."""
    spec = PARSERS[entry]
    out = []
    for nm in spec.get("frozen", []):
        out.append((nm, import_obj(nm), "frozen table: " + spec["why"]))
    import builtins
    for nm, why in IMPLICIT_RAISES.get(entry, []):
        out.append((nm, getattr(builtins, nm), "implicit (frozen table): " + why))
    if drives_pyexpat(entry):
        for nm, why in PYEXPAT_IMPLICIT:
            out.append((nm, getattr(builtins, nm), f"implicit (pyexpat, created by {ENGINE_MODULES[entry]}): " + why))
    if "scan" in spec:
        mods, entries = spec["scan"]
        raised, reached = extlib.explicit_raises(mods, entries)
        for nm, sites in sorted(raised.items()):
            obj = extlib.resolve_exc(nm, mods)
            if obj is None or not (isinstance(obj, type) and issubclass(obj, BaseException)):
                continue
            if issubclass(obj, (AssertionError, NotImplementedError, StopIteration, TypeError)) or obj is Exception:
                # internal "cannot happen" guards (bare Exception / assertions) and argument-type guards
                # (plistlib.UID(data) int check, writer-side key checks): not driven by file content
                continue
            out.append((nm, obj, f"explicit raise in {sites[0][0]}:{sites[0][1]} (+{len(sites) - 1} more), reachable "
                                 f"from {entries[0]}()"))
    return out


def check_handler(ctx, m, f, tr, h, typename):
    """R20a for one except clause."""
    func = f.short
    caught = exc_classes(m, f.module, h.type) if h.type is not None else [("BaseException", BaseException)]
    bound = h.name
    ok = True
    # every path of the handler returns a non-None expression
    rets = [n for s in h.body for n in walk_no_nested(s) if isinstance(n, ast.Return)]
    if not terminates(h.body) or not rets or any(r.value is None for r in rets):
        ctx.violation("R20a", f.file, func, h, f"except {norm(h.type)}: fall-through",
                      f"the handler for {norm(h.type)} does not return an error message on every path (falls off or "
                      f"returns None): main would treat None as a tree")
        ok = False
    for s in h.body:
        for n in walk_no_nested(s):
            if isinstance(n, ast.Raise):
                ctx.violation("R20a", f.file, func, n, f"except {norm(h.type)}: raise",
                              "the error handler itself raises; build_tree_handling_errors must never throw")
                ok = False
            if isinstance(n, ast.FormattedValue):
                spec = n.format_spec
                spec_txt = "".join(v.value for v in spec.values if isinstance(v, ast.Constant)) if spec else ""
                refers = any(isinstance(x, ast.Name) and x.id == bound for x in ast.walk(n.value))
                if spec is not None and (spec_txt or not all(isinstance(v, ast.Constant) for v in spec.values)) \
                        and isinstance(n.value, ast.Name) and n.value.id == bound:
                    ctx.violation("R20a", f.file, func, n, f"{{{norm(n.value)}:{spec_txt}}}",
                                  f"format spec {spec_txt!r} applied to the caught exception `{bound}`: "
                                  f"BaseException.__format__ rejects a non-empty spec with TypeError, so the handler "
                                  f"crashes for every malformed {typename} file")
                    ok = False
                if refers and isinstance(n.value, ast.Attribute) and isinstance(n.value.value, ast.Name) \
                        and n.value.value.id == bound:
                    for label, cls in caught:
                        if cls is None:
                            ctx.inconclusive("R20a", f.file, func, n, f"{label}.{n.value.attr}",
                                             f"cannot import caught class {label} to check attribute {n.value.attr}")
                            ok = False
                        elif n.value.attr not in extlib.instance_attrs(cls):
                            ctx.violation("R20a", f.file, func, n, f"{label}.{n.value.attr}",
                                          f"the handler reads `{bound}.{n.value.attr}` but {label} instances have no "
                                          f"such attribute: AttributeError inside the error handler")
                            ok = False
            if isinstance(n, ast.Call):
                nm = call_name(n)
                if nm not in SAFE_HANDLER_CALLS and not (nm or "").startswith("os.path."):
                    ctx.violation("R20a", f.file, func, n, f"except {norm(h.type)}: call {nm or norm(n.func, 30)}",
                                  f"the error handler calls `{norm(n, 50)}`, which is outside the cannot-raise whitelist "
                                  f"({', '.join(sorted(SAFE_HANDLER_CALLS))}); an exception here escapes "
                                  f"build_tree_handling_errors instead of the message")
                    ok = False
            if isinstance(n, ast.Subscript) and not isinstance(n.slice, ast.Slice) and isinstance(n.ctx, ast.Load):
                ctx.violation("R20a", f.file, func, n, f"except {norm(h.type)}: index {norm(n, 40)}",
                              f"the error handler indexes `{norm(n, 50)}`; an IndexError/KeyError here (e.g. an error "
                              f"position past the last line) escapes build_tree_handling_errors instead of the message")
                ok = False
    # mentions the file
    params = func_params(f.node)
    pathp = params[1] if len(params) > 1 else None
    mentions = any(isinstance(x, ast.Name) and x.id == pathp for r in rets if r.value is not None
                   for x in ast.walk(r.value))
    if not mentions:
        ctx.violation("R20a", f.file, func, h, f"except {norm(h.type)}: no file name",
                      f"the returned message does not mention the file (`{pathp}`), so the CLI error does not name it")
        ok = False
    if ok:
        ctx.proved("R20a", f.file, func, h, f"except {norm(h.type)}",
                   f"handler returns an f-string naming the file on every path; conversions on `{bound}` carry no "
                   f"format spec; attributes read exist on {', '.join(l for l, _ in caught)}")
    return caught


def r20ab(ctx):
    m = ctx.model
    ctx.rule("R20a", "every except clause of a build_tree_handling_errors returns, on all paths, a message that names "
                     "the file and cannot itself raise (no format spec on the exception, attributes exist)")
    ctx.rule("R20b", "the classes caught cover the raise-set of the parser entry the loader calls (frozen table for "
                     "C parsers + explicit-raise scan of pure-Python parser sources + UnicodeDecodeError for text-mode reads)")
    fts = m.filetypes()
    n_impl = 0
    seen_impl = set()
    for q, info in sorted(fts.items()):
        f = m.method(q, "build_tree_handling_errors")
        if f is None:
            ctx.violation("R20a", m.files[m.classes[q][0]], q.rsplit(".", 1)[-1], None, "missing",
                          "file type has no build_tree_handling_errors")
            continue
        typename = info["name"] or q.rsplit(".", 1)[-1].lower()
        if f.qual in seen_impl:
            continue    # inherited implementation (HTML inherits XML's) is analysed once
        seen_impl.add(f.qual)
        n_impl += 1
        tries = [n for n in walk_no_nested(f.node) if isinstance(n, ast.Try)]
        bt = m.method(q, "build_tree")
        loaders = find_loader_calls(m, bt) if bt is not None else []
        func = f.short
        if not tries:
            if typename in IN_SCOPE:
                ctx.violation("R20b", f.file, func, f.node, "no try",
                              f"{typename}: build_tree_handling_errors has no try/except at all; every parse error "
                              f"escapes as an uncaught exception")
            else:
                ctx.proved("R20a", f.file, func, f.node, "no handler",
                           f"{typename} is outside the property's scope (no independent notion of a syntax error); "
                           f"delegates without handlers", nontrivial=False)
            continue
        tr = tries[0]
        # the try body is the delegating call
        delegates = any(isinstance(n, ast.Call) and isinstance(n.func, ast.Attribute) and n.func.attr == "build_tree"
                        for s in tr.body for n in ast.walk(s))
        if not delegates:
            ctx.inconclusive("R20a", f.file, func, tr, "try body", "try body does not delegate to self.build_tree")
        caught_all = []
        for h in tr.handlers:
            caught_all += check_handler(ctx, m, f, tr, h, typename)
        if typename not in IN_SCOPE and not any(ft_name in IN_SCOPE for ft_name in
                                                [fts[k]["name"] for k in fts if m.method(k, "build_tree_handling_errors") is f]):
            continue
        if not loaders:
            ctx.inconclusive("R20b", f.file, func, tr, "loader", f"cannot find the parser entry call of {typename}")
            continue
        internal = project_raises(m, bt)
        for entry, call, lf, text in loaders:
            rs = raise_set(entry) + internal
            internal = []
            if PARSERS[entry]["reads_text"] and text:
                rs.append(("UnicodeDecodeError", UnicodeDecodeError,
                           f"the file is opened in text mode in {lf.short} and decoded while {entry} reads it: a "
                           f"truncation inside a multi-byte character is a decode error"))
            for nm, obj, origin in rs:
                if obj is None:
                    ctx.inconclusive("R20b", f.file, func, call, f"{entry}:{nm}", f"cannot import {nm}")
                    continue
                covered = [l for l, c in caught_all if c is not None and issubclass(obj, c)]
                if covered:
                    ctx.proved("R20b", f.file, func, tr, f"{entry} raises {nm}",
                               f"{nm} ({origin}) is caught by `except {covered[0]}`")
                else:
                    ctx.violation("R20b", f.file, func, tr, f"{entry} raises {nm}",
                                  f"{typename}: {entry}() can raise {nm} ({origin}) but the handler only catches "
                                  f"{', '.join(l for l, _ in caught_all)}; the exception escapes "
                                  f"build_tree_handling_errors and the CLI crashes instead of naming the file")
    ctx.floor("R20a", n_impl, 5, "build_tree_handling_errors implementations")


def r20c(ctx):
    m = ctx.model
    ctx.rule("R20c", "in main, each result of build_tree_handling_errors is tested with isinstance(.., str) before any "
                     "other use; the branch writes that message to sys.stderr and returns a non-zero constant, and "
                     "nothing is written to the diff stream before")
    f = m.func("graphtage.__main__.main")
    calls = []
    for n in walk_no_nested(f.node):
        if isinstance(n, ast.Assign) and isinstance(n.value, ast.Call) and isinstance(n.value.func, ast.Attribute) \
                and n.value.func.attr == "build_tree_handling_errors" and isinstance(n.targets[0], ast.Name):
            calls.append(n)
    if len(calls) < 2:
        # the loading is written in a form the clauses below do not read (a loop over both files, a list of results).  One
        # necessary condition can still be decided: the message never goes through the level-filtered logger
        tainted = set()
        stmts = list(walk_no_nested(f.node))

        def dirty(e):
            return any((isinstance(x, ast.Name) and x.id in tainted) or (isinstance(x, ast.Attribute) and x.attr == "build_tree_handling_errors")
                       for x in ast.walk(e))
        for _ in range(4):
            for n in stmts:
                if isinstance(n, ast.Assign) and dirty(n.value):
                    tainted |= {t.id for tg in n.targets for t in ast.walk(tg) if isinstance(t, ast.Name)}
                if isinstance(n, ast.Call) and isinstance(n.func, ast.Attribute) and n.func.attr in ("append", "extend", "add") \
                        and isinstance(n.func.value, ast.Name) and any(dirty(a) for a in n.args):
                    tainted.add(n.func.value.id)
                if isinstance(n, (ast.For, ast.comprehension)) and dirty(n.iter):
                    tainted |= {t.id for t in ast.walk(n.target) if isinstance(t, ast.Name)}
        for n in stmts:
            if isinstance(n, ast.Call) and isinstance(n.func, ast.Attribute) and n.func.attr in ("error", "warning", "info", "critical", "exception", "log") \
                    and ((dotted(n.func.value) or "").split(".")[0] in ("log", "logger", "logging") or "getLogger" in ast.unparse(n.func.value)) \
                    and any(dirty(a) for a in n.args):
                ctx.violation("R20c", f.file, "main", n, "parse error goes to stderr",
                              f"`{norm(n, 70)}` reports the parse error through the logger, whose level the command line sets: with --quiet "
                              f"(or any level above the call's) a malformed input ends the run with status 1 and no message at all")
    ctx.floor("R20c", len(calls), 2, "build_tree_handling_errors call sites in main")
    first_print = None
    for n in walk_no_nested(f.node):
        if isinstance(n, ast.Call) and isinstance(n.func, ast.Attribute) and n.func.attr in ("write", "print", "newline") \
                and dotted(n.func.value) in ("printer", "formatter"):
            if first_print is None or n.lineno < first_print.lineno:
                first_print = n
    for a in calls:
        var = a.targets[0].id
        lst, idx = block_of(a)
        guard = None
        for s in lst[idx + 1:]:
            uses = [x for x in ast.walk(s) if isinstance(x, ast.Name) and x.id == var]
            if not uses:
                continue
            if isinstance(s, ast.If) and isinstance(s.test, ast.Call) and call_name(s.test) == "isinstance" \
                    and isinstance(s.test.args[0], ast.Name) and s.test.args[0].id == var \
                    and isinstance(s.test.args[1], ast.Name) and s.test.args[1].id == "str":
                guard = s
            break
        if guard is None:
            ctx.violation("R20c", f.file, "main", a, f"{var} = ...build_tree_handling_errors(...)",
                          f"the result `{var}` is used before (or without) an isinstance({var}, str) test: an error "
                          f"message would be treated as a tree")
            continue
        writes = [n for s in guard.body for n in ast.walk(s) if isinstance(n, ast.Call)
                  and call_name(n) in ("sys.stderr.write",) and any(isinstance(x, ast.Name) and x.id == var
                                                                    for x in ast.walk(n))]
        prints_stdout = [n for s in guard.body for n in ast.walk(s) if isinstance(n, ast.Call)
                         and (call_name(n) in ("print", "sys.stdout.write") or dotted(getattr(n.func, "value", None)) == "printer")]
        rets = [n for s in guard.body for n in ast.walk(s) if isinstance(n, ast.Return)]
        ok = True
        if not writes:
            ctx.violation("R20c", f.file, "main", guard, f"isinstance({var}, str): stderr",
                          f"the error branch for `{var}` does not write the message to sys.stderr")
            ok = False
        if prints_stdout:
            ctx.violation("R20c", f.file, "main", prints_stdout[0], f"isinstance({var}, str): stdout",
                          "the error branch writes to the diff stream / stdout")
            ok = False
        if not terminates(guard.body) or not rets or not all(
                isinstance(r.value, ast.Constant) and isinstance(r.value.value, int) and r.value.value != 0
                or (isinstance(r.value, ast.UnaryOp) and isinstance(r.value.operand, ast.Constant))
                for r in rets):
            ctx.violation("R20c", f.file, "main", guard, f"isinstance({var}, str): status",
                          f"the error branch for `{var}` does not return a non-zero constant status on every path")
            ok = False
        if first_print is not None and first_print.lineno < guard.lineno:
            ctx.violation("R20c", f.file, "main", first_print, f"isinstance({var}, str): print-before",
                          "something is written to the diff stream before the error test")
            ok = False
        if ok:
            ctx.proved("R20c", f.file, "main", guard, f"isinstance({var}, str)",
                       f"`{var}` is tested first; the branch writes it to sys.stderr and returns a non-zero constant; "
                       f"no diff output precedes it")


PREFIX_PARSERS = {"raw_decode": "json.JSONDecoder.raw_decode parses one value and returns the index where it stopped: text after the "
                                "first complete value is not an error unless the caller checks that index",
                  "scan_once": "the json scanner's scan_once parses a prefix of the text"}


def r20e(ctx):
    m = ctx.model
    ctx.rule("R20e", "loaders parse the whole document: an entry point that parses a prefix (json's raw_decode / scan_once) accepts "
                     "`{...}}` or `[1, 2, 3]]` - a duplicated closing bracket - unless the returned end index is compared with the "
                     "length of the text")
    n = 0
    for q, info in sorted(m.filetypes().items()):
        typename = info["name"] or ""
        if typename not in IN_SCOPE:
            continue
        bt = m.method(q, "build_tree")
        seen, todo = set(), [bt]
        while todo:
            f = todo.pop()
            if f is None or f.qual in seen:
                continue
            seen.add(f.qual)
            for c in walk_no_nested(f.node):
                if not isinstance(c, ast.Call):
                    continue
                if isinstance(c.func, ast.Attribute) and c.func.attr in PREFIX_PARSERS:
                    n += 1
                    st = c
                    from ..astx import parent as _parent
                    while st is not None and not isinstance(st, ast.stmt):
                        st = _parent(st)
                    end_checked = False
                    if isinstance(st, ast.Assign) and isinstance(st.targets[0], ast.Tuple) and len(st.targets[0].elts) == 2 \
                            and isinstance(st.targets[0].elts[1], ast.Name):
                        endv = st.targets[0].elts[1].id
                        end_checked = any(isinstance(x, ast.Compare) and any(isinstance(y, ast.Name) and y.id == endv for y in ast.walk(x))
                                          and "len(" in ast.unparse(x) for x in walk_no_nested(f.node))
                    if end_checked:
                        ctx.proved("R20e", f.file, f.short, c, f"{typename}: {c.func.attr} end checked", "the end index is compared with the length of the text")
                    else:
                        ctx.violation("R20e", f.file, f.short, c, f"{typename}: prefix parser {c.func.attr}",
                                      f"`{norm(c, 60)}`: {PREFIX_PARSERS[c.func.attr]}; the {typename} loader discards it, so a malformed file "
                                      f"with junk after a complete value is diffed as if it were valid (no error, exit 0)")
                r = m.resolve_expr(f.module, c.func)
                if r and r[0] and r[0][0] == "func" and r[0][1] in m.functions:
                    todo.append(m.functions[r[0][1]])
    ctx.note(f"R20e: {n} prefix-parser call(s) on loading paths")


def r20d(ctx):
    m = ctx.model
    ctx.rule("R20d", "the JSON loader is strict: Python's json.load accepts the non-JSON tokens NaN, Infinity and -Infinity unless "
                     "it is given a parse_constant hook that rejects them; a strict JSON parser (RFC 8259) refuses such files")
    n = 0
    for q, info in sorted(m.filetypes().items()):
        if info["name"] != "json":
            continue
        bt = m.method(q, "build_tree")
        for nm, call, lf, text in find_loader_calls(m, bt):
            if nm != "json.load":
                continue
            n += 1
            if any(k.arg == "parse_constant" for k in call.keywords):
                ctx.proved("R20d", lf.file, lf.short, call, "json.load parse_constant", "a parse_constant hook is installed")
            else:
                ctx.violation("R20d", lf.file, lf.short, call, "json.load parse_constant",
                              f"`{norm(call, 50)}` uses the default parse_constant: `[Infinity]`, `{{\"a\": NaN}}` and `[-Infinity, 2]` are "
                              f"not valid JSON, yet they are loaded as floats and diffed without any error message (exit 0 when both "
                              f"files are the same malformed text)")
    ctx.floor("R20d", n, 1, "json.load calls of the JSON file type")


def run(ctx):
    r20ab(ctx)
    r20c(ctx)
    r20d(ctx)
    r20e(ctx)
    ctx.assume("which byte strings a third-party parser rejects is not decided; implicit exceptions inside parsers are covered "
               "only as far as the frozen IMPLICIT_RAISES table goes (each line confirmed by a failing input); MemoryError, "
               "and libyaml's C-stack overflow on tens of thousands of nested brackets (a SIGSEGV, not an exception), are not")
    ctx.assume("frozen raise-set table for C-implemented parsers (expat, libyaml, json scanner) - DESIGN.md E8")
