"""C04 - cost bounds only tighten, stay sound, and converge (necessary conditions only).

R04a refinement reaches every summed part (E1); R04b tighten_bounds returns a boolean on every path; R04c interval
ownership (stores to .lower_bound/.upper_bound only on Ranges fresh in the same function); R04d only definitive
intervals are cached; R04e `repeat_until_tightened` terminates only on progress or a definitive interval.
"""
import ast

from .. import e1
from ..astx import code
from ..astx import self_attr, walk_no_nested, dotted, call_name, terminates, dominating_conditions, flatten_conditions, \
    decorator_names, parent, func_params
from ..callgraph import CallGraph, diff_entries
from ..core import norm
from .c03 import roots_and_consts


def r04a(ctx):
    m = ctx.model
    ctx.rule("R04a", "every non-constant sub-edit that bounds() adds up is also refined by tighten_bounds() (a summed "
                     "but never refined part leaves the interval wide while tighten_bounds() answers False)")
    n = 0
    seen = set()
    for q in e1.compound_classes(m):
        fb, ft, fe = m.method(q, "bounds"), m.method(q, "tighten_bounds"), m.method(q, "edits")
        key = (fb.qual, ft.qual)
        if key in seen:
            continue
        seen.add(key)
        short = q.rsplit(".", 1)[-1]
        zero = e1.zero_cost_collections(m, q)
        sb = e1.extract(fb.node, "bounds")
        rb, cb, ub, delegate = roots_and_consts(m, q, sb, zero)
        if delegate:
            rb2, _, _, _ = roots_and_consts(m, q, e1.extract(fe.node, "edits"), zero)
            rb = rb2
        rt, _, ut, tdelegate = roots_and_consts(m, q, e1.extract(ft.node, "tighten"), zero)
        if tdelegate:
            rt2, _, _, _ = roots_and_consts(m, q, e1.extract(fe.node, "edits"), zero)
            rt = dict(rt2, **rt)
        n += 1
        # completeness is not definitiveness: refinement must not be skipped because a part "is complete"
        skips = [c for c in walk_no_nested(ft.node) if isinstance(c, ast.Call) and isinstance(c.func, ast.Attribute)
                 and c.func.attr == "is_complete" and self_attr(c.func.value) != "" and dotted(c.func.value) != "self"]
        for c in skips:
            ctx.violation("R04a", ft.file, f"{short}.tighten_bounds", c, f"{short}: skips complete parts",
                          f"{short}.tighten_bounds consults `{norm(c, 40)}` to decide whether to refine a part: is_complete() "
                          f"only says the *shape* of the part's script is final, not that its cost interval is a single value "
                          f"(e.g. MultiSetEdit is complete once a matching is chosen), so the compound can answer False on a "
                          f"non-definitive interval and never converge")
        if short == "EditDistance":
            # matrix based: tighten_bounds must reach the matrix cells it sums
            if "edit_matrix" in rt:
                ctx.proved("R04a", ft.file, f"{short}.tighten_bounds", ft.node, f"{short}: matrix cells",
                           "tighten_bounds refines the cells of the alignment matrix whose costs bounds() reads")
            else:
                ctx.violation("R04a", ft.file, f"{short}.tighten_bounds", ft.node, f"{short}: matrix cells",
                              "EditDistance.tighten_bounds no longer refines the edits stored in edit_matrix")
            continue
        missing = sorted(set(rb) - set(rt))
        if missing:
            for a in missing:
                ctx.violation("R04a", ft.file, f"{short}.tighten_bounds", ft.node, f"{short}: self.{a} never refined",
                              f"{short}.bounds() adds the cost interval of self.{a} but tighten_bounds() never calls "
                              f"tighten_bounds() on it: the compound can report no progress while its interval is "
                              f"still wide")
        else:
            ctx.proved("R04a", ft.file, f"{short}.tighten_bounds", ft.node, f"{short}: refines {sorted(rb)}",
                       f"every summed part {sorted(rb)} is refined (tighten sources {sorted(rt)})")
    ctx.floor("R04a", n, 7, "compound edit implementations")


def r04b(ctx, reach):
    m = ctx.model
    ctx.rule("R04b", "every tighten_bounds implementation returns a boolean on every path: no fall-off, no bare "
                     "return, no `return None` (`while e.tighten_bounds()` treats None as converged)")
    n = 0
    for f in sorted(m.methods_named("tighten_bounds"), key=lambda f: f.qual):
        short = f.short
        if "Protocol" in [b[1].rsplit(".", 1)[-1] for b in m.bases.get(f.cls, [])] or \
                all(isinstance(s, (ast.Raise, ast.Expr)) for s in f.node.body):
            continue   # protocol stubs that raise NotImplementedError
        n += 1
        decorated = any((d or "").endswith("repeat_until_tightened") for d in decorator_names(f.node))
        problems = []
        if not terminates(f.node.body):
            problems.append((f.node, "control can fall off the end (implicit None)"))
        for r in walk_no_nested(f.node):
            if isinstance(r, ast.Return):
                if r.value is None or (isinstance(r.value, ast.Constant) and r.value.value is None):
                    problems.append((r, "bare `return` / `return None`"))
                elif isinstance(r.value, ast.Constant) and not isinstance(r.value.value, bool):
                    problems.append((r, f"returns the non-boolean constant {r.value.value!r}"))
        if decorated:
            ctx.proved("R04b", f.file, short, f.node, "decorated", "wrapped by repeat_until_tightened, which ignores the "
                                                                    "inner result and returns its own boolean (R04e)",
                       nontrivial=False)
            continue
        if problems:
            if f.qual not in reach:
                ctx.proved("R04b", f.file, short, problems[0][0], "dead implementation",
                           f"{problems[0][1]}, but the class is unreachable from every diff/print/CLI entry point "
                           f"(reviewed exception: dead partial implementation)")
                continue
            for node, why in problems:
                ctx.violation("R04b", f.file, short, node, f"{why.split('(')[0].strip()}",
                              f"{short}: {why}; callers loop `while x.tighten_bounds()` and would stop refining with a "
                              f"non-definitive interval")
        else:
            ctx.proved("R04b", f.file, short, f.node, "boolean on all paths", "every path ends in `return <expr>`")
    ctx.floor("R04b", n, 12, "tighten_bounds implementations")


def r04c(ctx):
    m = ctx.model
    ctx.rule("R04c", "interval ownership: a store to .lower_bound/.upper_bound targets a Range that is fresh in the "
                     "same function (constructed there, or the result of Range arithmetic / sum), never a shared "
                     "interval obtained from bounds(), a cache or a parameter")
    n = 0
    for f in sorted(m.functions.values(), key=lambda f: f.qual):
        if ".<locals>." in f.qual:
            continue
        for node in walk_no_nested(f.node):
            if not (isinstance(node, ast.Attribute) and node.attr in ("lower_bound", "upper_bound")
                    and isinstance(node.ctx, ast.Store)):
                continue
            if f.cls and f.cls.endswith(".Range") and f.node.name == "__init__":
                continue
            n += 1
            base = node.value
            ok, why = False, ""
            if isinstance(base, ast.Name):
                defs = [s for s in walk_no_nested(f.node) if isinstance(s, (ast.Assign, ast.AnnAssign)) and s.value is not None
                        and any(isinstance(t, ast.Name) and t.id == base.id
                                for t in (s.targets if isinstance(s, ast.Assign) else [s.target]))]
                if base.id in [a.arg for a in f.node.args.args]:
                    why = f"`{base.id}` is a parameter"
                elif not defs:
                    why = f"`{base.id}` has no local definition"
                else:
                    bad = [d for d in defs if not _fresh_range(d.value, m, f.cls)]
                    ok = not bad
                    if bad:
                        why = f"`{base.id}` is assigned from `{norm(bad[0].value, 50)}`, which may be a shared interval"
            else:
                why = f"target `{norm(base, 40)}` is not a local"
            if ok:
                ctx.proved("R04c", f.file, f.short, node, norm(node), "the written Range is fresh in this function")
            else:
                ctx.violation("R04c", f.file, f.short, node, norm(node),
                              f"in-place write to an interval that is not owned by this function ({why}): a cached or "
                              f"constant bound handed out earlier would silently change (widen) behind its holder")
    ctx.floor("R04c", n, 2, "stores to .lower_bound/.upper_bound outside Range.__init__")


def _fresh_range(v, m=None, cls=None, depth=0):
    if isinstance(v, ast.Call):
        nm = call_name(v) or ""
        if nm.split(".")[-1] == "Range" or nm == "sum":
            return True
        # a same-class helper every return of which hands out an interval that is fresh in the helper
        if m is not None and cls and depth < 2 and self_attr(v.func) and not v.args:
            h = m.method(cls, self_attr(v.func))
            if h is None or h.node.name == "bounds":
                return False
            rets = [r for r in walk_no_nested(h.node) if isinstance(r, ast.Return)]
            if not rets or any(r.value is None for r in rets):
                return False
            for r in rets:
                rv = r.value
                if isinstance(rv, ast.Name):
                    defs = [s for s in walk_no_nested(h.node) if isinstance(s, (ast.Assign, ast.AnnAssign)) and s.value is not None
                            and any(isinstance(t, ast.Name) and t.id == rv.id for t in (s.targets if isinstance(s, ast.Assign) else [s.target]))]
                    if not defs or rv.id in func_params(h.node) or not all(_fresh_range(d.value, m, cls, depth + 1) for d in defs):
                        return False
                elif not _fresh_range(rv, m, cls, depth + 1):
                    return False
            return True
        return False
    if isinstance(v, ast.BinOp) and isinstance(v.op, (ast.Add, ast.Sub)):
        return True
    return False


def r04k(ctx):
    m = ctx.model
    ctx.rule("R04k", "the search never reports an interval outside the one its caller supplied: IterativeTighteningSearch.bounds() "
                     "starts at initial_bounds, so once candidates arrive both ends must stay inside it - the lower end is raised to "
                     "initial_bounds.lower_bound, the upper end capped at initial_bounds.upper_bound - otherwise the first step widens "
                     "the interval while reporting progress")
    q = m.need_class("IterativeTighteningSearch")
    f = m.method(q, "bounds")
    txt = code(f.node).replace(" ", "")
    rets = [r for r in walk_no_nested(f.node) if isinstance(r, ast.Return) and isinstance(r.value, ast.Call) and call_name(r.value) == "Range" and len(r.value.args) == 2]
    ctx.floor("R04k", len(rets), 1, "computed intervals returned by IterativeTighteningSearch.bounds")
    from ..astx import inline_locals
    for r in rets:
        lo, hi = (ast.unparse(inline_locals(f.node, a)).replace(" ", "") for a in r.value.args)
        low_ok = "<self.initial_bounds.lower_bound" in txt or ("max(" in lo and "self.initial_bounds.lower_bound" in lo)
        high_ok = "min(" in hi and "self.initial_bounds.upper_bound" in hi or ">self.initial_bounds.upper_bound" in txt
        for end, ok in (("lower", low_ok), ("upper", high_ok)):
            if ok:
                ctx.proved("R04k", f.file, "IterativeTighteningSearch.bounds", r, f"{end} end inside initial bounds", f"the {end} end is clamped to initial_bounds")
            else:
                ctx.violation("R04k", f.file, "IterativeTighteningSearch.bounds", r, f"{end} end inside initial bounds",
                              f"`{norm(r, 80)}`: the {end} end of the interval is taken from the candidates without clamping it to "
                              f"initial_bounds.{end}_bound: a search given [0, 12] reports [6, 20] after its first step (which answers "
                              f"True), i.e. the interval a caller sees widens")


WIDE_DTYPES = {"uint64", "int64", "object", "object_", "float64", "longlong", "ulonglong"}


def r04j(ctx):
    m = ctx.model
    ctx.rule("R04j", "cost accumulators are wide: a numpy array field that receives values derived from edit bounds (a stored value "
                     "that mentions .bounds() / .upper_bound / .lower_bound / total_size, or another cost field) is allocated with a "
                     "64-bit or object dtype.  Costs are sums of node sizes - the size of a string is its length - so a 16- or "
                     "32-bit accumulator wraps for ordinary large documents, and the reported interval then leaves the previous one")
    n = 0
    for q in sorted(m.classes):
        init = m.method(q, "__init__")
        if init is None or init.cls != q:
            continue
        allocs = {}
        for a in walk_no_nested(init.node):
            if isinstance(a, (ast.Assign, ast.AnnAssign)) and a.value is not None and isinstance(a.value, ast.Call):
                t = a.targets[0] if isinstance(a, ast.Assign) else a.target
                nm = (call_name(a.value) or "")
                if self_attr(t) and nm.split(".")[0] in ("np", "numpy") and any(k.arg == "dtype" for k in a.value.keywords):
                    allocs[self_attr(t)] = (a, next(k.value for k in a.value.keywords if k.arg == "dtype"))
        if not allocs:
            continue
        cost_fields = set()
        stores = {}
        for name, (kind, fn) in m.attrs[q].items():
            if kind != "def":
                continue
            for s_ in walk_no_nested(fn.node):
                if isinstance(s_, (ast.Assign, ast.AugAssign)):
                    t = s_.targets[0] if isinstance(s_, ast.Assign) else s_.target
                    base = t
                    while isinstance(base, ast.Subscript):
                        base = base.value
                    if isinstance(t, ast.Subscript) and self_attr(base) in allocs:
                        stores.setdefault(self_attr(base), []).append((fn, s_))
        for _ in range(3):
            for fld, lst in stores.items():
                for fn, s_ in lst:
                    txt = ast.unparse(s_.value)
                    if any(k in txt for k in (".bounds()", ".upper_bound", ".lower_bound", "total_size")) or \
                            any(f"self.{cf}[" in txt for cf in cost_fields if cf != fld):
                        cost_fields.add(fld)
        for fld in sorted(cost_fields):
            a, dt = allocs[fld]
            n += 1
            dname = (dotted(dt) or ast.unparse(dt)).rsplit(".", 1)[-1].strip("'\"")
            short = q.rsplit(".", 1)[-1]
            if dname in WIDE_DTYPES:
                ctx.proved("R04j", init.file, f"{short}.__init__", a, f"self.{fld} dtype", f"cost accumulator self.{fld} is {dname}")
            else:
                fn, s_ = stores[fld][0]
                ctx.violation("R04j", init.file, f"{short}.__init__", a, f"self.{fld} dtype",
                              f"self.{fld} accumulates edit costs (`{norm(s_, 70)}` in {fn.short}) but is allocated as {dname}: "
                              f"a cumulative cost above the range of {dname} wraps around (three 30000-character strings removed "
                              f"from a list exceed 65535), so the final interval lies outside the earlier ones and tighten_bounds() "
                              f"reports the jump as progress")
    ctx.floor("R04j", n, 1, "numpy cost accumulators")


def r04d(ctx):
    m = ctx.model
    ctx.rule("R04d", "an interval is stored in a bounds cache (a self attribute that bounds() returns early) only "
                     "when it is definitive, or is the unbounded Range() of an invalidated edit")
    n = 0
    for f in sorted(m.methods_named("bounds"), key=lambda f: f.qual):
        # caches: self.X returned under `self.X is not None`
        cached = set()
        for r in walk_no_nested(f.node):
            if isinstance(r, ast.Return) and r.value is not None and self_attr(r.value):
                cached.add(self_attr(r.value))
        # stores into the cache: in bounds() itself (also as one target of a chained assignment, `total = self._cost = sum(..)`)
        # and in the methods of the class it calls (`return self._remember_cost(total)`)
        from ..astx import class_helpers
        region = class_helpers(m, f.cls, f, depth=1) if f.cls else [f]
        stores = [(g_, s) for g_ in region for s in walk_no_nested(g_.node) if isinstance(s, ast.Assign) and any(self_attr(t_) in cached for t_ in s.targets)
                  and g_.node.name not in ("tighten_bounds", "__init__")]
        for g_, s in stores:
            a = next(self_attr(t_) for t_ in s.targets if self_attr(t_) in cached)
            if isinstance(s.value, ast.Constant) and s.value.value is None:
                continue
            n += 1
            v = s.value
            if isinstance(v, ast.Call) and (call_name(v) or "").endswith("Range") and not v.args and not v.keywords:
                ctx.proved("R04d", f.file, f.short, s, f"self.{a} = Range()", "unbounded interval of an invalidated edit",
                           nontrivial=False)
                continue
            facts = flatten_conditions(dominating_conditions(s))
            vtxt = ast.unparse(v)
            names_ = {vtxt} | {t_.id for t_ in s.targets if isinstance(t_, ast.Name)}

            def established(facts_, texts):
                return any(pol and isinstance(t, ast.Call) and isinstance(t.func, ast.Attribute) and t.func.attr == "definitive"
                           and ast.unparse(t.func.value) in texts for t, pol in facts_)
            ok = established(facts, names_)
            if not ok and g_ is not f and isinstance(v, ast.Name) and v.id in func_params(g_.node):
                # the helper stores its parameter: every call in bounds() hands it a value established definitive there
                k_ = func_params(g_.node).index(v.id) - 1
                sites = [c for c in walk_no_nested(f.node) if isinstance(c, ast.Call) and self_attr(c.func) == g_.node.name]
                ok = bool(sites) and all(0 <= k_ < len(c.args) and established(flatten_conditions(dominating_conditions(c)), {ast.unparse(c.args[k_])})
                                         for c in sites)
            if ok:
                ctx.proved("R04d", f.file, f.short, s, f"self.{a} = {vtxt}", f"cached only under {vtxt}.definitive()")
            else:
                ctx.violation("R04d", f.file, f.short, s, f"self.{a} = {vtxt}",
                              f"bounds() caches `{vtxt}` in self.{a} without first establishing {vtxt}.definitive(): a "
                              f"stale non-final interval is returned after the parts have been refined elsewhere")
    ctx.floor("R04d", n, 2, "bounds-cache stores")


def r04e(ctx):
    m = ctx.model
    ctx.rule("R04e", "repeat_until_tightened returns True only when the interval is definitive or strictly smaller than "
                     "at entry, returns False at entry only for a definitive interval, and loops otherwise")
    f = m.functions.get("graphtage.bounds.repeat_until_tightened.<locals>.wrapper")
    if f is None:
        ctx.inconclusive("R04e", "graphtage/bounds.py", "repeat_until_tightened", None, "wrapper", "wrapper not found")
        return
    rets = [r for r in walk_no_nested(f.node) if isinstance(r, ast.Return)]
    ok_false = ok_true = False
    for r in rets:
        facts = [(ast.unparse(t), pol) for t, pol in flatten_conditions(dominating_conditions(r))]
        if isinstance(r.value, ast.Constant) and r.value.value is False:
            ok_false = any(pol and t.endswith(".definitive()") for t, pol in facts)
            if not ok_false:
                ctx.violation("R04e", f.file, "repeat_until_tightened.wrapper", r, "return False",
                              "the wrapper reports no progress without having established a definitive interval")
        elif isinstance(r.value, ast.Constant) and r.value.value is True:
            # the entry snapshot: `S = self.bounds()` before the loop
            snap = next((a_.targets[0].id for a_ in f.node.body if isinstance(a_, ast.Assign) and isinstance(a_.targets[0], ast.Name)
                         and isinstance(a_.value, ast.Call) and isinstance(a_.value.func, ast.Attribute) and a_.value.func.attr == "bounds"), None)

            def progress(d):
                if isinstance(d, ast.Call) and isinstance(d.func, ast.Attribute) and d.func.attr == "definitive" and not d.args:
                    return True
                if isinstance(d, ast.Compare) and len(d.ops) == 1 and isinstance(d.left, ast.Attribute) and isinstance(d.comparators[0], ast.Attribute):
                    l_, r__ = d.left, d.comparators[0]
                    if l_.attr == r__.attr == "lower_bound" and dotted(r__.value) == snap and isinstance(d.ops[0], ast.Gt):
                        return True
                    if l_.attr == r__.attr == "upper_bound" and dotted(r__.value) == snap and isinstance(d.ops[0], ast.Lt):
                        return True
                    if l_.attr == r__.attr == "lower_bound" and dotted(l_.value) == snap and isinstance(d.ops[0], ast.Lt):
                        return True
                    if l_.attr == r__.attr == "upper_bound" and dotted(l_.value) == snap and isinstance(d.ops[0], ast.Gt):
                        return True
                return False
            pos_tests = [t for t, pol in flatten_conditions(dominating_conditions(r)) if pol
                         and not (isinstance(t, ast.Constant) and t.value is True)]
            bad_parts = [d for t in pos_tests for d in (t.values if isinstance(t, ast.BoolOp) and isinstance(t.op, ast.Or) else [t]) if not progress(d)]
            ok_true = bool(pos_tests) and not bad_parts
            if not ok_true:
                ctx.violation("R04e", f.file, "repeat_until_tightened.wrapper", (bad_parts or [r])[0], "return True",
                              f"the wrapper reports progress on `{norm((bad_parts or [r])[0], 60)}`, which does not say that the interval became "
                              f"definitive or strictly smaller than at entry: a caller that loops `while tighten_bounds()` never stops")
        else:
            ctx.violation("R04e", f.file, "repeat_until_tightened.wrapper", r, "return",
                          "the wrapper returns a non-constant value")
    if ok_false and ok_true and not terminates(f.node.body) is False:
        ctx.proved("R04e", f.file, "repeat_until_tightened.wrapper", f.node, "wrapper",
                   "False only for a definitive entry interval; True only after the interval is definitive or strictly "
                   "smaller; otherwise loops")
    elif not (ok_false and ok_true):
        ctx.inconclusive("R04e", f.file, "repeat_until_tightened.wrapper", f.node, "wrapper",
                         "wrapper does not have the recognised True/False return structure")


def r04f(ctx):
    m = ctx.model
    ctx.rule("R04f", "EditDistance's pre-computed upper bound is the cost of the remove-everything / insert-everything script: "
                     "it sums, over both sequences, the same per-node cost Remove and Insert charge (total_size + penalty)")
    q = m.need_class("EditDistance")
    init = m.method(q, "__init__")
    # the value handed to the base class as cost_upper_bound= (followed through one local)
    kwv = next((k.value for c in walk_no_nested(init.node) if isinstance(c, ast.Call) for k in c.keywords if k.arg == "cost_upper_bound"), None)
    ub = None
    if isinstance(kwv, ast.Name):
        ub = next((s_ for s_ in walk_no_nested(init.node) if isinstance(s_, ast.Assign) and isinstance(s_.targets[0], ast.Name)
                   and s_.targets[0].id == kwv.id), None)
    if ub is None:
        ctx.inconclusive("R04f", init.file, "EditDistance.__init__", init.node, "cost_upper_bound", "cost_upper_bound assignment not found")
        return
    # per-node cost of the constant edits
    costs = {}
    for cname, argname in (("Remove", "to_remove"), ("Insert", "to_insert")):
        f = m.method(m.need_class(cname), "__init__")
        c = next((k.value for x in walk_no_nested(f.node) if isinstance(x, ast.Call) for k in x.keywords if k.arg == "cost"), None)
        costs[cname] = ast.unparse(c).replace(" ", "").replace(argname, "node") if c is not None else None
    sums = [c for c in ast.walk(ub.value) if isinstance(c, ast.Call) and call_name(c) == "sum" and c.args
            and isinstance(c.args[0], ast.GeneratorExp)]
    p = [a.arg for a in init.node.args.args]
    seqs = {p[3], p[4]} if len(p) > 4 else set()
    got = {}
    for c in sums:
        g = c.args[0]
        it = dotted(g.generators[0].iter)
        var = g.generators[0].target.id if isinstance(g.generators[0].target, ast.Name) else None
        got[it] = ast.unparse(g.elt).replace(" ", "").replace(f"{var}.", "node.").replace("self.penalty", "penalty")
    top_ok = isinstance(ub.value, ast.BinOp) and isinstance(ub.value.op, ast.Add) and \
        all(isinstance(x, ast.Call) and call_name(x) == "sum" for x in (ub.value.left, ub.value.right))
    want = costs["Remove"]
    if top_ok and set(got) == seqs and all(v == want for v in got.values()) and costs["Insert"] == want:
        ctx.proved("R04f", init.file, "EditDistance.__init__", ub, "upper bound = worst script",
                   f"sum over both sequences of `{want}` - exactly what Remove/Insert charge per node")
    else:
        ctx.violation("R04f", init.file, "EditDistance.__init__", ub, "upper bound = worst script",
                      f"cost_upper_bound is `{norm(ub.value, 140)}`, but removing every element and inserting every element "
                      f"costs the sum over both sequences of `{want}` per node: when elements cannot be paired the true cost "
                      f"exceeds this 'upper bound', so the interval widens later and does not contain the final cost")


def r04g(ctx):
    m = ctx.model
    ctx.rule("R04g", "EditDistance's lower bound while the matrix is incomplete is the minimum accumulated cost over TWO consecutive "
                     "anti-diagonals (the fringe and the one before it): a diagonal step skips an anti-diagonal, so every path to "
                     "the last cell crosses at least one of the two but not necessarily a given one")
    q = m.need_class("EditDistance")
    b = m.method(q, "bounds")
    rets = [r for r in walk_no_nested(b.node) if isinstance(r, ast.Return) and isinstance(r.value, ast.Call) and call_name(r.value) == "Range"
            and len(r.value.args) == 2 and "self.costs[" in ast.unparse(r.value.args[0])]
    ctx.floor("R04g", len(rets), 1, "incomplete-matrix bounds of EditDistance")
    # what the previous-diagonal field holds: assigned from list(self._fringe_diagonal()) in _next_fringe
    nf = m.method(q, "_next_fringe")
    prev = [self_attr(a.targets[0]) for a in walk_no_nested(nf.node) if isinstance(a, ast.Assign) and self_attr(a.targets[0])
            and "self._fringe_diagonal()" in ast.unparse(a.value)] if nf else []
    for r in rets:
        lower = r.value.args[0]
        srcs = set()
        for g in ast.walk(lower):
            if isinstance(g, ast.GeneratorExp) and "self.costs[" in ast.unparse(g.elt):
                it = g.generators[0].iter
                srcs.add("fringe" if ast.unparse(it).replace(" ", "") == "self._fringe_diagonal()" else
                         ("previous" if self_attr(it) in prev else ast.unparse(it)))
        inside_min = all(any(isinstance(a, ast.Call) and call_name(a) == "min" for a in [parent(g)] if a is not None)
                         for g in ast.walk(lower) if isinstance(g, ast.GeneratorExp))
        if {"fringe", "previous"} <= srcs and inside_min:
            ctx.proved("R04g", b.file, "EditDistance.bounds", r, "two anti-diagonals", "lower bound = min over the fringe diagonal and the previous one")
        else:
            ctx.violation("R04g", b.file, "EditDistance.bounds", r, "two anti-diagonals",
                          f"the incomplete-matrix lower bound takes the minimum over {sorted(srcs) or 'no diagonal'} only: a match/replace "
                          f"step moves diagonally and skips an anti-diagonal, so the cheapest cell of a single diagonal can exceed the "
                          f"final cost - the reported interval then excludes the final cost and its lower bound later drops "
                          f"(e.g. [43, 91] -> [7, 7])")


def _neg_facts(node):
    """Expressions known to be falsy at node (either `not X` holding or X failing)."""
    out = set()
    for t, pol in flatten_conditions(dominating_conditions(node)):
        if not pol:
            out.add(ast.unparse(t).replace(" ", ""))
        elif isinstance(t, ast.UnaryOp) and isinstance(t.op, ast.Not):
            out.add(ast.unparse(t.operand).replace(" ", ""))
    return out


def r04h(ctx):
    m = ctx.model
    ctx.rule("R04h", "EditDistance's progress flag agrees with its interval: (1) the call that completes the matrix (the branch "
                     "taken when _next_fringe() reports the end) answers True when the bounds moved, i.e. its return value is "
                     "or-ed with a comparison against the bounds taken on entry; (2) a guard under which tighten_bounds() answers "
                     "False without doing anything is a guard under which bounds() is a single value")
    q = m.need_class("EditDistance")
    tb, b = m.method(q, "tighten_bounds"), m.method(q, "bounds")
    entry = [a.targets[0].id if isinstance(a, ast.Assign) else a.target.id for a in walk_no_nested(tb.node)
             if isinstance(a, (ast.Assign, ast.AnnAssign)) and a.value is not None and ast.unparse(a.value).replace(" ", "") == "self.bounds()"
             and isinstance(a.targets[0] if isinstance(a, ast.Assign) else a.target, ast.Name)]
    n = 0
    for br in walk_no_nested(tb.node):
        if isinstance(br, ast.If) and ast.unparse(br.test).replace(" ", "") == "notself._next_fringe()":
            for r in [x for s_ in br.body for x in ast.walk(s_) if isinstance(x, ast.Return)]:
                n += 1
                txt = ast.unparse(r.value) if r.value is not None else ""
                from ..astx import resolve_local
                vals = r.value.values if isinstance(r.value, ast.BoolOp) and isinstance(r.value.op, ast.Or) else []
                from ..astx import inline_self_call
                from ..astx import inline_call
                vals = [inline_call(m, q, tb.node, v) for v in vals]
                ok = any(any(isinstance(c_, ast.Compare) and any(e in ast.unparse(c_) for e in entry) for c_ in ast.walk(v)) for v in vals)
                if ok:
                    ctx.proved("R04h", tb.file, "EditDistance.tighten_bounds", r, "completion reports progress",
                               f"`return {norm(r.value, 90)}`: True whenever the bounds moved since entry")
                else:
                    ctx.violation("R04h", tb.file, "EditDistance.tighten_bounds", r, "completion reports progress",
                                  f"`{norm(r, 50)}` in the branch that completes the matrix does not compare the bounds with those taken "
                                  f"on entry ({entry}): completing the matrix replaces the fringe estimate by the exact cost ([3,5] -> "
                                  f"[5,5]) yet the call answers False; IterativeTighteningSearch / PossibleEdits update a candidate only "
                                  f"on True, keep the stale interval and then report 'no progress' forever on a non-definitive range")
    ctx.floor("R04h", n, 1, "returns of the matrix-completing branch")
    # (2) do-nothing guards
    k = 0
    for r in walk_no_nested(tb.node):
        if isinstance(r, ast.Return) and isinstance(r.value, ast.Constant) and r.value.value is False:
            conds = _neg_facts(r)
            if conds == {"self.from_seq", "self.to_seq"}:
                k += 1
                found = None
                for rb in walk_no_nested(b.node):
                    if isinstance(rb, ast.Return) and isinstance(rb.value, ast.Call) and call_name(rb.value) == "Range" and len(rb.value.args) == 2 \
                            and ast.unparse(rb.value.args[0]) == ast.unparse(rb.value.args[1]):
                        if {"self.from_seq", "self.to_seq"} <= _neg_facts(rb):
                            found = rb
                if found is not None:
                    ctx.proved("R04h", b.file, "EditDistance.bounds", found, "nothing to align is definitive",
                               f"bounds() answers `{norm(found.value, 30)}` under the guard that makes tighten_bounds() answer False at once")
                else:
                    ctx.violation("R04h", tb.file, "EditDistance.tighten_bounds", r, "nothing to align is definitive",
                                  "tighten_bounds() answers False at once when both trimmed sequences are empty, but bounds() has no "
                                  "single-valued answer for that case: an EditDistance over equal sequences (string_edit_distance('ab', "
                                  "'ab'), StringEdit(n, n)) reports [0, cost_upper_bound] forever although its script costs 0")
    ctx.floor("R04h", k, 1, "do-nothing guards of EditDistance.tighten_bounds")


def r04m(ctx):
    m = ctx.model
    ctx.rule("R04m", "EditCollection expands its sub-edits lazily: tighten_bounds may answer 'no progress' only once the iterator is "
                     "exhausted (`self._edit_iter is None`) - a sub-edit not expanded yet is not known to be final, so an earlier False "
                     "leaves a wide interval that the caller takes for the result")
    q = m.need_class("EditCollection")
    f = m.method(q, "tighten_bounds")
    n = 0
    for r in walk_no_nested(f.node):
        if not isinstance(r, ast.Return):
            continue
        if isinstance(r.value, ast.Constant) and r.value.value is True:
            continue
        signed = flatten_conditions(dominating_conditions(r))
        facts = {(ast.unparse(t).replace(" ", ""), pol) for t, pol in signed}
        if ("self.valid", False) in facts:
            continue            # an edit that has become invalid has nothing left to refine
        n += 1
        if ("self._edit_iterisNone", True) in facts or ("self._edit_iterisnotNone", False) in facts:
            ctx.proved("R04m", f.file, "EditCollection.tighten_bounds", r, f"`{norm(r, 40)}`", "reached only when every sub-edit has been expanded")
        else:
            ctx.violation("R04m", f.file, "EditCollection.tighten_bounds", r, f"`{norm(r, 40)}`",
                          f"`{norm(r, 50)}` can answer False while `self._edit_iter` still has sub-edits to hand out (facts: "
                          f"{sorted(t for t, p_ in facts if p_)}): with {{\"a\":1,\"b\":2}} vs {{\"a\":1,\"b\":3}} under -k the first entry is an "
                          f"unchanged Match, nothing tightens, and the collection reports 'no progress' at [0, 21]")
    ctx.floor("R04m", n, 1, "possibly-False returns of EditCollection.tighten_bounds")


def r04i(ctx):
    m = ctx.model
    ctx.rule("R04i", "EditCollection's interval while sub-edits are still being expanded: the upper bound starts at the size-derived "
                     "cap U and is lowered by each child's improvement (initial upper - current upper); that is an upper bound on "
                     "the total only if U >= the sum of the children's initial upper bounds, which nothing establishes (U comes from "
                     "node sizes, a MultiSetEdit child starts at a sum of per-row maxima above them) - so either the subtraction is "
                     "absent, or the result is re-based on the children's own current upper bounds")
    q = m.need_class("EditCollection")
    b = m.method(q, "bounds")
    subs = [a for a in walk_no_nested(b.node) if isinstance(a, ast.AugAssign) and isinstance(a.op, ast.Sub)
            and ast.unparse(a.target).endswith(".upper_bound") and "initial_bounds.upper_bound" in ast.unparse(a.value)]
    init = m.method(q, "__init__")
    cap_from_sizes = any("total_size" in ast.unparse(a.value) for a in walk_no_nested(init.node)
                         if isinstance(a, (ast.Assign, ast.AugAssign)) and "cost_upper_bound" in ast.unparse(a.targets[0] if isinstance(a, ast.Assign) else a.target))
    if not subs:
        ctx.proved("R04i", b.file, "EditCollection.bounds", b.node, "improvement subtraction", "no improvement is subtracted from the cap")
        return
    from .. import pat as _pat
    for a in subs:
        exact = _pat.match(_pat.parse_stmts("T.upper_bound -= E.initial_bounds.upper_bound - E.bounds().upper_bound")[0], a, {})
        lower = [x for x in walk_no_nested(b.node) if isinstance(x, ast.AugAssign) and isinstance(x.op, ast.Add)
                 and ast.unparse(x.target).endswith(".lower_bound")]
        lower_ok = any(_pat.match(_pat.parse_stmts("T.lower_bound += E.bounds().lower_bound")[0], x, {}) for x in lower)
        if not exact or not lower_ok:
            ctx.violation("R04i", b.file, "EditCollection.bounds", a, "improvement term",
                          f"`{norm(a, 90)}`" + ("" if lower_ok else " / the lower-bound accumulation") + " is not the pair (lower += child's "
                          f"lower bound; upper -= child's initial upper - child's CURRENT UPPER): the partially expanded interval then "
                          f"treats an inexact child as if it had already converged, drops below the true cost and widens again when "
                          f"the sub-edit iterator is exhausted ([0,69] -> [0,9] -> [1,60])")
        if cap_from_sizes:
            ctx.violation("R04i", b.file, "EditCollection.bounds", a, "improvement subtraction",
                          f"`{norm(a, 90)}` lowers the cap by a child's improvement, but the cap is from_node.total_size + to_node.total_size "
                          f"+ 1 while a child's initial upper bound can be larger (MultiSetEdit: sum of per-row maxima): the reported "
                          f"upper bound drops below the final cost and below the lower bound ([0,141] -> [88,63] -> [88,88] for two "
                          f"plist files), and a parent that adds such ranges raises ValueError")
        else:
            ctx.inconclusive("R04i", b.file, "EditCollection.bounds", a, "improvement subtraction", "cannot tell how the cap relates to the children's initial bounds")


def run(ctx):
    m = ctx.model
    cg = CallGraph(m)
    ent, inst = diff_entries(m)
    reach, _ = cg.reachable(ent, inst)
    r04a(ctx)
    r04b(ctx, reach)
    r04c(ctx)
    r04d(ctx)
    r04e(ctx)
    r04f(ctx)
    r04g(ctx)
    r04h(ctx)
    r04i(ctx)
    r04j(ctx)
    r04k(ctx)
    from .c02 import r02f, r02f2
    r02f(ctx)     # the size-derived cap of compound edits is an upper bound only if no node has size 0
    r02f2(ctx)    # ... containers included
    r04m(ctx)
    from .c03 import r03a
    r03a(ctx)     # an interval that is not computed from the sub-edits the script lists need not contain the script's cost
    from .c05 import r05c
    from .c17 import r17b, r17g
    r05c(ctx)     # a candidate / sub-edit taken from a one-shot iterator and then dropped makes the interval unsound
    r17b(ctx)     # the search (a Bounded object) reports no progress only when exhausted
    r17g(ctx)     # ... and does not mistake a falsy best candidate for none (its interval would never close)
    from .c03 import r03g, r03d
    r03g(ctx)     # size-derived caps of compound edits are sound only if sizes bound the computed leaf costs
    r03d(ctx)     # a list's cost is final only if every accumulated cell was exhausted first
    from .c03 import r03h
    r03h(ctx)     # a matcher that collapses equal elements reports a bound its matching cannot reach (and never terminates)
    ctx.assume("that an interval never widens, always contains the final cost, and that refinement is finite are "
               "statements about runtime numbers and are NOT decided; only the structural necessary conditions are")
