"""Symbolic index arithmetic: slice bounds as integer linear forms over len(<expr>) atoms, with Python's
negative-index and clamping semantics, under a branch constraint len(big) > len(small) >= 0.
This is abstract evaluation of one expression, not path exploration."""
import ast


class Lin:
    def __init__(self, coef=None, c=0):
        self.coef = {k: v for k, v in (coef or {}).items() if v}
        self.c = c

    def __add__(self, o):
        d = dict(self.coef)
        for k, v in o.coef.items():
            d[k] = d.get(k, 0) + v
        return Lin(d, self.c + o.c)

    def __neg__(self):
        return Lin({k: -v for k, v in self.coef.items()}, -self.c)

    def __sub__(self, o):
        return self + (-o)

    def __repr__(self):
        t = [("" if v == 1 else "-" if v == -1 else f"{v}*") + f"len({k})" for k, v in sorted(self.coef.items())]
        if self.c or not t:
            t.append(str(self.c))
        return " + ".join(t).replace("+ -", "- ")

    def __eq__(self, o):
        return isinstance(o, Lin) and self.coef == o.coef and self.c == o.c


class NonLinear(Exception):
    pass


def atom(e):
    """Normalised length atom: len(x), len(x.children()), len(x._children) all denote the same length."""
    while True:
        if isinstance(e, ast.Call) and isinstance(e.func, ast.Attribute) and e.func.attr == "children" and not e.args:
            e = e.func.value
        elif isinstance(e, ast.Attribute) and e.attr == "_children":
            e = e.value
        else:
            break
    return ast.unparse(e)


def lin(e, env=None):
    env = env or {}
    if isinstance(e, ast.Constant) and isinstance(e.value, int) and not isinstance(e.value, bool):
        return Lin(c=e.value)
    if isinstance(e, ast.Call) and isinstance(e.func, ast.Name) and e.func.id == "len" and len(e.args) == 1:
        return Lin({atom(e.args[0]): 1})
    if isinstance(e, ast.Name) and e.id in env:
        return env[e.id]
    if isinstance(e, ast.UnaryOp) and isinstance(e.op, ast.USub):
        return -lin(e.operand, env)
    if isinstance(e, ast.UnaryOp) and isinstance(e.op, ast.UAdd):
        return lin(e.operand, env)
    if isinstance(e, ast.BinOp) and isinstance(e.op, (ast.Add, ast.Sub)):
        a, b = lin(e.left, env), lin(e.right, env)
        return a + b if isinstance(e.op, ast.Add) else a - b
    if isinstance(e, ast.Call) and isinstance(e.func, ast.Name) and e.func.id == "min" and len(e.args) == 2:
        raise NonLinear("min() - handled by the caller")
    raise NonLinear(ast.unparse(e))


def sign_under(form, big, small):
    """Sign of `form` given len(big) = len(small) + 1 + k with len(small) >= 0, k >= 0: '<0' | '>=0' | '?'."""
    a = form.coef.get(big, 0)
    b = form.coef.get(small, 0)
    if any(k not in (big, small) for k in form.coef):
        return "?"
    cs, ck, c0 = a + b, a, a + form.c     # form = cs*small + ck*k + c0
    if cs <= 0 and ck <= 0 and c0 < 0:
        return "<0"
    if cs >= 0 and ck >= 0 and c0 >= 0:
        return ">=0"
    return "?"


def effective_start(form, seq, big, small):
    """Effective start index of seq[form:] (seq has length len(big)), or None if sign-ambiguous."""
    sg = sign_under(form, big, small)
    if sg == "?":
        return None
    if sg == ">=0":
        return form
    shifted = Lin({seq: 1}) + form
    sg2 = sign_under(shifted, big, small)
    if sg2 == ">=0":
        return shifted
    if sg2 == "<0":
        return Lin(c=0)
    a, b = shifted.coef.get(big, 0), shifted.coef.get(small, 0)
    cs, ck, c0 = a + b, a, a + shifted.c
    if cs <= 0 and ck <= 0 and c0 <= 0:
        return Lin(c=0)
    return None


def tail_start(sub, big, small):
    """For `X[lower:]` where len(X) == len(big) > len(small): the effective start as a Lin, or raises NonLinear /
    returns None when ambiguous.  `lower` may also be min(len(a), len(b))."""
    assert isinstance(sub, ast.Subscript) and isinstance(sub.slice, ast.Slice)
    lower = sub.slice.lower
    if lower is None:
        return Lin(c=0)
    if isinstance(lower, ast.Call) and isinstance(lower.func, ast.Name) and lower.func.id == "min" and len(lower.args) == 2:
        forms = [lin(a) for a in lower.args]
        if Lin({big: 1}) in forms and Lin({small: 1}) in forms:
            return Lin({small: 1})
        raise NonLinear(ast.unparse(lower))
    return effective_start(lin(lower), atom(sub.value), big, small)
