"""C02 witness: two CSV files whose quoted cell differs in one character (a carriage return: "x\r\ny" vs "x\ny", or
"x\ry" vs "x\ny") are reported as identical, exit status 0."""
import csv, io, os, subprocess, sys, tempfile

from graphtage import BuildOptions
from graphtage.csv import build_tree

problems = []
cases = [
    ("CRLF vs LF inside a quoted cell", b'a,"x\r\ny"\r\n', b'a,"x\ny"\r\n'),
    ("CR vs LF inside a quoted cell", b'a,"x\ry"\n', b'a,"x\ny"\n'),
]
for label, a, b in cases:
    # independent oracle: the csv module used as its documentation prescribes (newline='')
    ra = list(csv.reader(io.StringIO(a.decode(), newline='')))
    rb = list(csv.reader(io.StringIO(b.decode(), newline='')))
    assert ra != rb, (ra, rb)
    with tempfile.TemporaryDirectory() as d:
        pa, pb = os.path.join(d, 'a.csv'), os.path.join(d, 'b.csv')
        open(pa, 'wb').write(a)
        open(pb, 'wb').write(b)
        for args in ((), ('-e',), ('-l',)):
            p = subprocess.run([sys.executable, '-m', 'graphtage', '--no-status', '--no-color', *args, pa, pb],
                               capture_output=True, text=True)
            print(f"CLI {label} {args}: cells {ra[0][1]!r} vs {rb[0][1]!r}: exit {p.returncode}")
            if p.returncode == 0:
                problems.append(f"CLI {label} {args}: exit 0 although the cells are {ra[0][1]!r} and {rb[0][1]!r}")
        ta, tb = build_tree(pa, BuildOptions()), build_tree(pb, BuildOptions())
        e = ta.edits(tb)
        while e.tighten_bounds():
            pass
        print(f"library {label}: cost {e.bounds().upper_bound}; loaded cell {ta.to_obj()[0][1]!r} vs {tb.to_obj()[0][1]!r}")
        if e.bounds().upper_bound == 0:
            problems.append(f"library {label}: cost 0; graphtage loaded {ta.to_obj()[0][1]!r} for the file containing {ra[0][1]!r}")
if problems:
    print("VIOLATION: CSV cells differing in a carriage return compare equal:")
    for p in problems:
        print("  -", p)
    sys.exit(1)
print("ok")
sys.exit(0)
