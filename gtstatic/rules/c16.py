"""C16 - the priority queue always yields a minimum (thin: structural necessary conditions only).

R16a size accounting; R16b peek/pop skip lazily deleted minima; R16c ReversedComparator mirrors the natural order;
R16e root-list pairing (parent/mark bookkeeping when nodes move to or from the root list); R16f minimum-pointer
maintenance; R16g node order and the decrease-only guard.
Heap order after arbitrary operation histories is a runtime-shape property of a pointer structure and is NOT decided.
"""
import ast

from ..astx import code
from ..astx import walk_no_nested, dotted, call_name, self_attr, func_params, dominating_conditions, flatten_conditions, \
    parent, ancestors, block_of, inline_stmt_calls
from ..core import norm, Inconclusive
from .. import pat


def aug_n(fn):
    out = []
    for s in walk_no_nested(fn):
        if isinstance(s, ast.AugAssign) and self_attr(s.target) == "_n":
            out.append(s)
        elif isinstance(s, ast.Assign) and any(self_attr(t) == "_n" for t in s.targets):
            out.append(s)
    return out


def branches(node):
    return [a for a in ancestors(node) if isinstance(a, (ast.If, ast.While, ast.For, ast.IfExp, ast.ExceptHandler))]


def _selects_smallest_root(co):
    """A loop over the whole degree table that assigns `self._min = E` under `E <= self._min`, E being the loop's element."""
    tabs = {s_.targets[0].id for s_ in walk_no_nested(co) if isinstance(s_, ast.Assign) and isinstance(s_.targets[0], ast.Name)
            and isinstance(s_.value, ast.BinOp) and isinstance(s_.value.left, ast.List)}
    for l in walk_no_nested(co):
        if not (isinstance(l, ast.For) and isinstance(l.target, ast.Name)):
            continue
        it = ast.unparse(l.iter).replace(" ", "")
        elem = None
        for t in tabs:
            if it == t:
                elem = l.target.id
            elif it in (f"range(0,len({t}))", f"range(len({t}))"):
                elem = f"{t}[{l.target.id}]"
        if elem is None:
            continue
        for a in ast.walk(l):
            if isinstance(a, ast.Assign) and len(a.targets) == 1 and self_attr(a.targets[0]) == "_min" and ast.unparse(a.value) == elem:
                facts = {ast.unparse(t_).replace(" ", "") for t_, pol in flatten_conditions(dominating_conditions(a, stop=l)) if pol}
                if f"{elem}<=self._min".replace(" ", "") in facts:
                    return True
    return False


def r16h(ctx):
    m = ctx.model
    ctx.rule("R16h", "the max-heap is a faithful mirror: MaxFibonacciHeap stores every key wrapped in ReversedComparator (its "
                     "constructor wraps the key function), so every inherited method that takes a raw key and compares it with "
                     "stored keys must be overridden to wrap that key the same way")
    base, mx = m.need_class("FibonacciHeap"), m.need_class("MaxFibonacciHeap")
    init = m.method(mx, "__init__")
    wraps = init is not None and init.cls == mx and "ReversedComparator(" in code(init.node)
    if not wraps:
        ctx.inconclusive("R16h", "graphtage/fibonacci.py", "MaxFibonacciHeap.__init__", init.node if init else None, "wrapping",
                         "MaxFibonacciHeap no longer wraps keys in ReversedComparator in its constructor")
        return
    n = 0
    for name, (kind, f) in sorted(m.attrs[base].items()):
        if kind != "def" or name.startswith("__"):
            continue
        keyparams = [a.arg for a in f.node.args.args if a.annotation is not None and ast.unparse(a.annotation) == "Key"]
        if not keyparams:
            continue
        n += 1
        own = m.attrs[mx].get(name)
        ok = bool(own and own[0] == "def" and all(f"ReversedComparator({p})" in ast.unparse(own[1].node) for p in keyparams))
        if ok:
            ctx.proved("R16h", f.file, f"MaxFibonacciHeap.{name}", own[1].node, f"{name} wraps its key", f"{name}({', '.join(keyparams)}) is overridden and wraps the key")
        else:
            ctx.violation("R16h", f.file, f"FibonacciHeap.{name}", f.node, f"{name} wraps its key",
                          f"FibonacciHeap.{name} compares the raw key parameter `{keyparams[0]}` with stored keys; in MaxFibonacciHeap the "
                          f"stored keys are ReversedComparator wrappers and {name} is {'not overridden' if not own else 'overridden without wrapping'}: "
                          f"`MaxFibonacciHeap().{name}(node, 10)` raises AttributeError: 'int' object has no attribute 'key'")
    ctx.floor("R16h", n, 1, "base-heap methods taking a raw key")


def r16i(ctx):
    m = ctx.model
    ctx.rule("R16i", "heap maintenance is iterative: trees of a Fibonacci heap are not height-bounded once nodes are removed, so a "
                     "method that calls itself once per ancestor (cascading cut) runs out of stack on a tall chain of marked nodes - "
                     "and the callers update _min / unlink the node only after it returns, leaving the heap inconsistent")
    q = m.need_class("FibonacciHeap")
    n = 0
    for name, (kind, fn) in sorted(m.attrs[q].items()):
        if kind != "def":
            continue
        n += 1
        rec = [c for c in walk_no_nested(fn.node) if isinstance(c, ast.Call) and self_attr(c.func) == name]
        if rec:
            ctx.violation("R16i", fn.file, f"FibonacciHeap.{name}", rec[0], f"{name} recursion",
                          f"`{norm(rec[0], 50)}`: {name} calls itself along the parent chain; a chain of marked ancestors longer than the "
                          f"interpreter's recursion limit (reachable with a few thousand push/pop/remove operations) makes decrease_key "
                          f"and remove raise RecursionError half-way, after which peek() no longer shows the smallest key and the size is wrong")
    if not any(i.rule == "R16i" and i.verdict == "VIOLATION" for i in ctx.instances):
        ctx.proved("R16i", m.files[m.classes[q][0]], "FibonacciHeap", None, "no self-recursive method", f"{n} methods, none calls itself")
    ctx.floor("R16i", n, 15, "FibonacciHeap methods")


def _norm_heap_helper(fn):
    """ast dump of a module-level helper without annotations, docstring and positions, heap class names unified."""
    import copy
    node = clone_no_parent(fn)
    node.returns = None
    node.name = "F"
    for a in node.args.args + node.args.kwonlyargs + ([node.args.vararg] if node.args.vararg else []):
        a.annotation = None
    body = [s_ for s_ in node.body if not (isinstance(s_, ast.Expr) and isinstance(s_.value, ast.Constant))]
    out = []
    for s_ in body:
        for x in ast.walk(s_):
            if isinstance(x, ast.Name) and x.id in ("MaxFibonacciHeap", "FibonacciHeap"):
                x.id = "HEAP"
            if isinstance(x, ast.AnnAssign):
                x.annotation = ast.Constant(value=None)
        out.append(ast.dump(s_))
    return out


def clone_no_parent(n):
    from ..astx import clone
    return clone(n)


def r16j(ctx):
    m = ctx.model
    ctx.rule("R16j", "sibling agreement: utils.smallest and utils.largest are the same routine over the min- and the max-heap; "
                     "statement by statement they may differ only in the heap class")
    a, b = m.functions.get("graphtage.fibonacci.smallest") or m.functions.get("graphtage.utils.smallest"), \
        m.functions.get("graphtage.fibonacci.largest") or m.functions.get("graphtage.utils.largest")
    if a is None or b is None:
        ctx.inconclusive("R16j", "graphtage/utils.py", "smallest/largest", None, "siblings", "smallest / largest not found")
        return
    da, db = _norm_heap_helper(a.node), _norm_heap_helper(b.node)
    diff = [i for i, (x, y) in enumerate(zip(da, db)) if x != y]
    if len(da) == len(db) and not diff:
        ctx.proved("R16j", a.file, "smallest", a.node, "smallest ~ largest", f"{len(da)} statements agree up to the heap class")
    else:
        body = [s_ for s_ in a.node.body if not (isinstance(s_, ast.Expr) and isinstance(s_.value, ast.Constant))]
        k = diff[0] if diff else min(len(da), len(db)) - 1
        ctx.violation("R16j", a.file, "smallest", body[k] if k < len(body) else a.node, "smallest ~ largest",
                      f"statement {k + 1} of smallest (`{norm(body[k], 70) if k < len(body) else '?'}`) differs from its counterpart in largest "
                      f"beyond the heap class: one of the two mishandles an argument shape the other accepts (`smallest(5)` raises "
                      f"TypeError where `largest(5)` yields 5)")


def run(ctx):
    r16i(ctx)
    r16j(ctx)
    m = ctx.model
    q = m.need_class("FibonacciHeap")
    f_of = lambda n: m.method(q, n)
    fl = m.files[m.classes[q][0]]
    ctx.rule("R16a", "size accounting: _n is incremented exactly once, unconditionally, where push links a new node; "
                     "decremented exactly once on the path of _extract_min that unlinks a node; reset by clear; summed by "
                     "__add__; no other method writes it; __len__/__bool__ read it")
    push, ext = f_of("push"), f_of("_extract_min")
    pa = aug_n(push.node)
    ok = len(pa) == 1 and isinstance(pa[0], ast.AugAssign) and isinstance(pa[0].op, ast.Add) and \
        isinstance(pa[0].value, ast.Constant) and pa[0].value.value == 1 and not branches(pa[0])
    links = [c for c in walk_no_nested(push.node) if isinstance(c, ast.Call) and self_attr(c.func) == "_append_root" and not branches(c)]
    if ok and links:
        ctx.proved("R16a", fl, "FibonacciHeap.push", pa[0], "push increments", "_n += 1 unconditionally, alongside the unconditional _append_root")
    else:
        ctx.violation("R16a", fl, "FibonacciHeap.push", (pa or [push.node])[0], "push increments",
                      "push does not increment _n exactly once on the (unconditional) path that links the new node: len() "
                      "drifts from the number of live items")
    ea = aug_n(ext.node)
    unlink = [c for c in walk_no_nested(ext.node) if isinstance(c, ast.Call) and self_attr(c.func) == "_remove_root"]
    ok = len(ea) == 1 and isinstance(ea[0], ast.AugAssign) and isinstance(ea[0].op, ast.Sub) and \
        isinstance(ea[0].value, ast.Constant) and ea[0].value.value == 1 and len(unlink) == 1 and \
        [id(b) for b in branches(ea[0])] == [id(b) for b in branches(unlink[0])]
    if ok:
        ctx.proved("R16a", fl, "FibonacciHeap._extract_min", ea[0], "extract decrements",
                   "_n -= 1 exactly once, under the same condition as the unlink of the extracted node")
    else:
        ctx.violation("R16a", fl, "FibonacciHeap._extract_min", (ea or [ext.node])[0], "extract decrements",
                      "_extract_min does not decrement _n exactly once on exactly the path that unlinks a node")
    for name, (kind, v) in sorted(m.attrs[q].items()):
        if kind != "def" or name in ("push", "_extract_min", "__init__"):
            continue
        w = aug_n(v.node)
        if not w:
            continue
        if name == "clear" and all(isinstance(s, ast.Assign) and isinstance(s.value, ast.Constant) and s.value.value == 0 for s in w):
            ctx.proved("R16a", fl, "FibonacciHeap.clear", w[0], "clear resets", "_n = 0")
        else:
            ctx.violation("R16a", fl, f"FibonacciHeap.{name}", w[0], f"{name} writes _n",
                          f"{name} modifies self._n (`{norm(w[0])}`): only push, _extract_min and clear may")
    add = f_of("__add__")
    if add is not None:
        if pat.has("M._n = self._n + O._n", add.node, stmts=True):
            ctx.proved("R16a", fl, "FibonacciHeap.__add__", add.node, "merge sums sizes", "merged._n = self._n + other._n")
        else:
            ctx.violation("R16a", fl, "FibonacciHeap.__add__", add.node, "merge sums sizes", "the merged heap's size is not the sum of both sizes")
    ln, bl = f_of("__len__"), f_of("__bool__")
    if ln and "returnself._n" in code(ln.node).replace(" ", "") and bl and "self._n>0" in code(bl.node).replace(" ", ""):
        ctx.proved("R16a", fl, "FibonacciHeap.__len__", ln.node, "len/bool read _n", "len() is _n and truthiness is _n > 0")
    else:
        ctx.violation("R16a", fl, "FibonacciHeap.__len__", (ln or bl).node if (ln or bl) else None, "len/bool read _n",
                      "__len__/__bool__ no longer report _n")

    ctx.rule("R16b", "peek and pop first drop lazily deleted minima: `while self._min is not None and self._min.deleted: "
                     "self._extract_min()` precedes the read")
    for name in ("peek", "pop"):
        f = f_of(name)
        flat = inline_stmt_calls(m, q, f.node, keep=("_extract_min",))       # the loop may sit in a helper both methods call
        body = [s_ for s_ in flat.body if not (isinstance(s_, ast.Expr) and isinstance(s_.value, ast.Constant))]
        first = body[0]
        conj = {ast.unparse(v).replace(" ", "") for v in (first.test.values if isinstance(first, ast.While) and isinstance(first.test, ast.BoolOp)
                                                          and isinstance(first.test.op, ast.And) else [])}
        ok = isinstance(first, ast.While) and conj == {"self._minisnotNone", "self._min.deleted"} \
            and ast.unparse(first.test.values[0]).replace(" ", "") == "self._minisnotNone" \
            and any(isinstance(c, ast.Call) and self_attr(c.func) == "_extract_min" for c in ast.walk(first))
        if ok:
            ctx.proved("R16b", fl, f"FibonacciHeap.{name}", first, f"{name} skips deleted", "deleted minima are extracted before the answer is read")
        else:
            ctx.violation("R16b", fl, f"FibonacciHeap.{name}", first, f"{name} skips deleted",
                          f"{name} reads the minimum without first discarding nodes marked deleted: a removed item can be "
                          f"returned as the smallest live key")

    ctx.rule("R16c", "ReversedComparator's operators are the mirror images of the natural ones (< uses >, <= uses >=, == uses ==)")
    rq = m.need_class("ReversedComparator")
    want = {"__lt__": ast.Gt, "__le__": ast.GtE, "__eq__": ast.Eq}
    for name, op in want.items():
        f = m.method(rq, name)
        r = next((x for x in walk_no_nested(f.node) if isinstance(x, ast.Return)), None) if f else None
        ok = r is not None and isinstance(r.value, ast.Compare) and isinstance(r.value.ops[0], op) and \
            dotted(r.value.left) == "self.key" and dotted(r.value.comparators[0]) == f"{func_params(f.node)[1]}.key"
        if ok:
            ctx.proved("R16c", fl, f"ReversedComparator.{name}", r, f"{name} mirrored", norm(r))
        else:
            ctx.violation("R16c", fl, f"ReversedComparator.{name}", r or (f.node if f else None), f"{name} mirrored",
                          f"ReversedComparator.{name} is `{norm(r) if r else 'missing'}`; the max-heap needs self.key "
                          f"{ {'__lt__': '>', '__le__': '>=', '__eq__': '=='}[name]} other.key")

    ctx.rule("R16e", "root-list pairing: a node moved into the root list (_append_root of an existing node) gets parent = "
                     "None in the same block; _link(y, x) unlinks y from the roots, makes it a child of x, sets y.parent = x "
                     "and clears y.mark")
    n_move = 0
    for name in ("_extract_min", "_cut"):
        f = f_of(name)
        for c in walk_no_nested(f.node):
            if isinstance(c, ast.Call) and self_attr(c.func) == "_append_root" and c.args and isinstance(c.args[0], ast.Name):
                n_move += 1
                x = c.args[0].id
                st = c
                while not isinstance(st, ast.stmt):
                    st = parent(st)
                lst, idx = block_of(st)
                ok = any(isinstance(s, ast.Assign) and dotted(s.targets[0]) == f"{x}.parent" and isinstance(s.value, ast.Constant)
                         and s.value.value is None for s in lst)
                if ok:
                    ctx.proved("R16e", fl, f"FibonacciHeap.{name}", c, f"{name}: {x} to roots", f"{x}.parent = None accompanies the move")
                else:
                    ctx.violation("R16e", fl, f"FibonacciHeap.{name}", c, f"{name}: {x} to roots",
                                  f"`{x}` is moved into the root list but its parent pointer is not cleared in the same block: "
                                  f"a later decrease_key/remove cuts it from a node that is no longer its parent")
    ctx.floor("R16e", n_move, 1, "moves into the root list")
    # every child of the extracted node becomes a root, however it is moved there (one _append_root per child, or a
    # splice of the whole ring): each must lose its parent pointer, or a later decrease_key/remove cuts it "from" the
    # extracted node - out of the root list - and the other roots are lost
    ext_ = f_of("_extract_min")
    flat_ = inline_stmt_calls(m, q, ext_.node, keep=("_cut",))
    loopvars = set()
    for l_ in ast.walk(flat_):
        if isinstance(l_, (ast.For, ast.comprehension)):
            loopvars |= {n_.id for n_ in ast.walk(l_.target) if isinstance(n_, ast.Name)}
        elif isinstance(l_, ast.While):
            loopvars |= {t_.id for s_ in ast.walk(l_) if isinstance(s_, ast.Assign) for t_ in s_.targets if isinstance(t_, ast.Name)}
    touches_children = [n_ for n_ in ast.walk(flat_) if isinstance(n_, ast.Attribute) and n_.attr in ("child", "children")]
    clears = [s_ for s_ in ast.walk(flat_) if isinstance(s_, ast.Assign) and isinstance(s_.value, ast.Constant) and s_.value.value is None
              and any(isinstance(t_, ast.Attribute) and t_.attr == "parent" and isinstance(t_.value, ast.Name) and t_.value.id in loopvars
                      for t_ in s_.targets)]
    if not touches_children:
        ctx.inconclusive("R16e", fl, "FibonacciHeap._extract_min", ext_.node, "extract: children to roots",
                         "_extract_min does not mention the extracted node's children: how they reach the root list is not recognised")
    elif clears:
        ctx.proved("R16e", fl, "FibonacciHeap._extract_min", ext_.node, "extract: children to roots",
                   "each child of the extracted node has its parent pointer cleared in a loop over the children")
    else:
        ctx.violation("R16e", fl, "FibonacciHeap._extract_min", touches_children[0], "extract: children to roots",
                      "the children of the extracted node become roots but no loop over them clears `.parent`: they keep pointing at "
                      "the extracted node, and a later decrease_key below that node's key cuts a root out of the root list "
                      "(push 0,1,2; pop; pop; push 2; decrease_key(older 2, 0) loses every other root)")
    lk = f_of("_link")
    y, x = func_params(lk.node)[1:3]
    t = code(lk.node).replace(" ", "")
    need = [f"self._remove_root({y})", f"{x}.add_child({y})", f"{y}.parent={x}", f"{y}.mark=False"]
    miss = [z for z in need if z not in t]
    if miss:
        ctx.violation("R16e", fl, "FibonacciHeap._link", lk.node, "_link bookkeeping", f"_link no longer performs {miss}")
    else:
        ctx.proved("R16e", fl, "FibonacciHeap._link", lk.node, "_link bookkeeping", "; ".join(need))
    ct = f_of("_cut")
    xx, yy = func_params(ct.node)[1:3]
    t = code(ct.node).replace(" ", "")
    need = [f"{yy}.remove_child({xx})", f"self._append_root({xx})", f"{xx}.mark=False"]
    miss = [z for z in need if z not in t]
    if miss:
        ctx.violation("R16e", fl, "FibonacciHeap._cut", ct.node, "_cut bookkeeping", f"_cut no longer performs {miss}")
    else:
        ctx.proved("R16e", fl, "FibonacciHeap._cut", ct.node, "_cut bookkeeping", "; ".join(need))

    ctx.rule("R16f", "minimum pointer: push replaces _min when the new node is smaller (or the heap was empty); "
                     "decrease_key replaces it when the decreased node is smaller; _extract_min restarts from a remaining "
                     "root and consolidates; _consolidate picks the smallest root")
    if pat.has("if self._min is None or N < self._min:\n    self._min = N", push.node, stmts=True):
        ctx.proved("R16f", fl, "FibonacciHeap.push", push.node, "push updates min", "if _min is None or node < _min: _min = node")
    else:
        ctx.violation("R16f", fl, "FibonacciHeap.push", push.node, "push updates min",
                      "push does not replace _min when the new node is smaller than the current minimum (or the heap was empty)")
    dk = f_of("decrease_key")
    xk, kk = func_params(dk.node)[1:3]
    t = code(dk.node).replace(" ", "").replace("    ", "")
    if f"if{xk}<self._min:\nself._min={xk}" in t:
        ctx.proved("R16f", fl, "FibonacciHeap.decrease_key", dk.node, "decrease_key updates min", f"if {xk} < _min: _min = {xk}")
    else:
        ctx.violation("R16f", fl, "FibonacciHeap.decrease_key", dk.node, "decrease_key updates min",
                      "decrease_key does not move _min to the node whose key became the smallest")
    if f"if{xk}.key<{kk}:\nraise" in t:
        ctx.proved("R16g", fl, "FibonacciHeap.decrease_key", dk.node, "decrease only", "a key increase is rejected")
    else:
        ctx.violation("R16g", fl, "FibonacciHeap.decrease_key", dk.node, "decrease only",
                      "decrease_key no longer rejects a larger key: heap order below the node can be violated silently")
    if pat.has(f"if Y is not None and {xk} < Y:\n    self._cut({xk}, Y)\n    self._cascading_cut(Y)", inline_stmt_calls(m, q, dk.node, keep=("_cut", "_cascading_cut")), stmts=True):
        ctx.proved("R16f", fl, "FibonacciHeap.decrease_key", dk.node, "cut when below parent", "a node smaller than its parent is cut to the root list")
    else:
        ctx.violation("R16f", fl, "FibonacciHeap.decrease_key", dk.node, "cut when below parent",
                      "decrease_key does not cut a node that became smaller than its parent")
    if pat.has("self._min = Z.right\nself._consolidate()", ext.node, stmts=True) and pat.has("self._min = self._root = None", ext.node, stmts=True):
        ctx.proved("R16f", fl, "FibonacciHeap._extract_min", ext.node, "extract re-establishes min", "restart at a remaining root, then consolidate")
    else:
        ctx.violation("R16f", fl, "FibonacciHeap._extract_min", ext.node, "extract re-establishes min",
                      "_extract_min does not restart _min from a remaining root and consolidate")
    co = f_of("_consolidate")
    swap = pat.first("if Y < X:\n    X, Y = Y, X", co.node)[1]
    if swap is not None and bool(pat.find_expr(f"self._link({swap['Y']}, {swap['X']})", co.node)) \
            and _selects_smallest_root(co.node):
        ctx.proved("R16f", fl, "FibonacciHeap._consolidate", co.node, "consolidate keeps order", "the larger root is linked under the smaller; _min = smallest root")
    else:
        ctx.violation("R16f", fl, "FibonacciHeap._consolidate", co.node, "consolidate keeps order",
                      "_consolidate no longer (links the larger of two equal-degree roots under the smaller and selects the smallest root as _min)")
    # who may write the minimum pointer
    allowed = {"__init__", "clear", "push", "decrease_key", "_extract_min", "_consolidate", "remove", "__add__"}
    for name, (kind, v) in sorted(m.attrs[q].items()):
        if kind != "def":
            continue
        stores = [s_ for s_ in walk_no_nested(v.node) if isinstance(s_, ast.Assign) and any(self_attr(t) == "_min" for t in s_.targets)]
        if not stores:
            continue
        if name not in allowed:
            ctx.violation("R16f", fl, f"FibonacciHeap.{name}", stores[0], f"{name} writes _min",
                          f"{name} assigns self._min (`{norm(stores[0])}`); only push, decrease_key, _extract_min, _consolidate, "
                          f"clear and remove (to target the node it extracts) maintain the minimum pointer")
        if name == "remove":
            ext_calls = [c for c in walk_no_nested(v.node) if isinstance(c, ast.Call) and self_attr(c.func) == "_extract_min"]
            late = [s_ for s_ in stores if ext_calls and s_.lineno > ext_calls[0].lineno]
            node_p = func_params(v.node)[1]
            wrong = [s_ for s_ in stores if dotted(s_.value) != node_p]
            if late or wrong or len(stores) != 1:
                bad_ = (late or wrong or stores)[0]
                ctx.violation("R16f", fl, "FibonacciHeap.remove", bad_, "remove leaves min to extract",
                              f"remove() assigns self._min (`{norm(bad_)}`) other than pointing it at the node to extract: after "
                              f"_extract_min() consolidation decides the minimum; restoring an older pointer can leave _min on a "
                              f"node that is no longer a root (ties on the minimum key)")
            else:
                ctx.proved("R16f", fl, "FibonacciHeap.remove", stores[0], "remove leaves min to extract",
                           "remove points _min at the node and lets _extract_min/_consolidate re-establish the minimum")
    # degree table of _consolidate
    tabs = [s_ for s_ in walk_no_nested(co.node) if isinstance(s_, ast.Assign) and isinstance(s_.value, ast.BinOp)
            and isinstance(s_.value.op, ast.Mult) and isinstance(s_.value.left, ast.List)]
    if tabs:
        size = tabs[0].value.right
        stxt = ast.unparse(size).replace(" ", "")
        linear = stxt == "self._n" or (isinstance(size, ast.BinOp) and isinstance(size.op, ast.Add) and "self._n" in stxt
                                       and "bit_length" not in stxt and "log" not in stxt)
        if linear:
            ctx.proved("R16f", fl, "FibonacciHeap._consolidate", tabs[0], "degree table size", f"degree table has {stxt} slots (a degree never exceeds the node count)")
        elif "bit_length" in stxt or "log2" in stxt:
            ctx.violation("R16f", fl, "FibonacciHeap._consolidate", tabs[0], "degree table size",
                          f"the degree table has only `{stxt}` slots - the binomial-tree bound. After cuts a Fibonacci tree of "
                          f"degree d can have as few as F(d+2) < 2**d nodes, so a root's degree can exceed log2(n): IndexError "
                          f"in the middle of an extraction, leaving the size counter off by one")
        else:
            ctx.inconclusive("R16f", fl, "FibonacciHeap._consolidate", tabs[0], "degree table size", f"cannot judge the degree-table bound `{stxt}`")
    ctx.rule("R16g", "HeapNode order: a deleted node sorts before every live node, otherwise by key; decrease_key rejects increases")
    hq = m.need_class("HeapNode")
    lt = m.method(hq, "__lt__")
    o = func_params(lt.node)[1]
    t = code(lt.node).replace(" ", "").replace("(", "").replace(")", "")
    if f"returnself.deletedandnot{o}.deletedorself.key<{o}.key" in t:
        ctx.proved("R16g", fl, "HeapNode.__lt__", lt.node, "node order", "(deleted and not other.deleted) or key < other.key")
    else:
        ctx.violation("R16g", fl, "HeapNode.__lt__", lt.node, "node order", f"HeapNode.__lt__ is `{norm(lt.node.body[-1])}`")
    # the heap may assume of its keys what sorted() and heapq assume: a strict `<`.  `==` on keys is a different relation for the
    # package's own items (edits order by bounds and are equal by identity), so every other comparison of nodes must be derived
    # from `<`: with `self < other or self.key == other.key`, two distinct items of equal rank are neither <= nor >, the final
    # scan of _consolidate leaves _min on a node that was just linked below its peer, and the next extraction drops the other roots
    for name in ("__le__", "__gt__", "__ge__"):
        g = m.method(hq, name)
        if g is None or g.cls != hq:
            continue
        eqs = [c for c in walk_no_nested(g.node) if isinstance(c, ast.Compare) and any(isinstance(o_, (ast.Eq, ast.NotEq)) for o_ in c.ops)
               and any(isinstance(x, ast.Attribute) and x.attr == "key" for x in ast.walk(c))]
        if eqs:
            ctx.violation("R16g", fl, f"HeapNode.{name}", eqs[0], f"{name} derived from <",
                          f"HeapNode.{name} compares keys with `{norm(eqs[0], 40)}`: items that are ordered by `<` but equal only by identity "
                          f"(every Edit; smallest()/largest() are called with edits) make two equal-rank nodes neither <= nor >, so "
                          f"_consolidate can leave _min on a non-root and the next pop loses the remaining trees (push three equal-rank "
                          f"items, pop twice: len 1, _root None)")
        else:
            ctx.proved("R16g", fl, f"HeapNode.{name}", g.node, f"{name} derived from <", "no equality test on keys")
    r16h(ctx)
    ctx.assume("heap order after arbitrary operation histories (the heart of the property) is a runtime-shape property of "
               "a pointer structure; no shape analysis in reach proves it - only the necessary conditions above are decided")
