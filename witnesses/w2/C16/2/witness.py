"""C16 witness 2: utils.smallest (the min-heap front end) cannot take a single non-iterable item,
although its signature (*sequence: Union[T, Iterable[T]]) and its twin utils.largest accept it."""
import sys
from graphtage.utils import smallest, largest

bad = False
for n in (1, 2):
    try:
        big = list(largest(5, n=n))
    except Exception as ex:
        big = repr(ex)
    try:
        small = list(smallest(5, n=n))
    except Exception as ex:
        small = repr(ex)
    if small != [5]:
        print(f"smallest(5, n={n}) -> {small}; expected [5] (largest(5, n={n}) -> {big})")
        bad = True

# the same call shape as graphtage/multiset.py uses for largest(): star-args of computed length
items = [7]
try:
    got = list(smallest(*items, n=1))
except Exception as ex:
    got = repr(ex)
if got != [7]:
    print(f"smallest(*[7], n=1) -> {got}; expected [7]; smallest(*[7, 8], n=1) -> {list(smallest(*[7, 8], n=1))}")
    bad = True
sys.exit(1 if bad else 0)
