"""C15: WeightedBipartiteMatcher loses pairs / reads the wrong weights when two of its nodes are equal (== and same hash)."""
import sys

from graphtage.bounds import ConstantBound
from graphtage.matching import WeightedBipartiteMatcher

failed = False

# (a) complete 2x2 table of definitive weights, all 1; the from-nodes are the same value twice
m = WeightedBipartiteMatcher(['a', 'a'], ['x', 'y'], lambda f, t: ConstantBound(1))
promised = m.bounds()
pairs = m.matching
if len(pairs) != 2:
    failed = True
    print(f"(a) 2 from-nodes x 2 to-nodes, every pair present: matching has {len(pairs)} pair(s): "
          f"{ {k: v[0] for k, v in pairs.items()} }; bounds() before matching promised {promised}")


# (b) equal-but-distinct node objects: the weights are looked up through a value-keyed index, so the wrong row is read
class N:
    def __init__(self, v, tag):
        self.v, self.tag = v, tag

    def __eq__(self, other):
        return self.v == other.v

    def __hash__(self):
        return hash(self.v)

    def __repr__(self):
        return f"N({self.v},{self.tag})"


W = {('p', 'r'): 0, ('p', 's'): 9, ('q', 'r'): 9, ('q', 's'): 0}
m = WeightedBipartiteMatcher([N(1, 'p'), N(1, 'q')], [N(2, 'r'), N(3, 's')],
                             lambda a, b: ConstantBound(W[(a.tag, b.tag)]))
pairs = m.matching
total = sum(e.bounds().upper_bound for _, e in pairs.values())
if len(pairs) != 2 or total != 0:
    failed = True
    print(f"(b) table [[0, 9], [9, 0]]: expected 2 pairs of total weight 0, got {len(pairs)} pair(s), "
          f"total {total}: { {k: (v[0], v[1].bounds()) for k, v in pairs.items()} }")

# (c) the same through the public tree API: a multiset that holds the value 1 twice
from graphtage import IntegerNode, MultiSetNode

a = MultiSetNode([IntegerNode(1), IntegerNode(1), IntegerNode(2)])
b = MultiSetNode([IntegerNode(3), IntegerNode(4), IntegerNode(5)])
d = a.edits(b)
while d.tighten_bounds():
    pass
matcher = d._matcher
if len(matcher.matching) != 3:
    failed = True
    print(f"(c) multiset [1,1,2] -> [3,4,5]: matcher pairs {len(matcher.matching)} of 3 items "
          f"although its bounds() are {matcher.bounds()} (3 replacements of cost 1)")

sys.exit(1 if failed else 0)
