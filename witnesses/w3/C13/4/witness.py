"""C13 witness: a pickle of a self-referential container (l = []; l.append(l)) - a perfectly loadable pickle - makes the
pickle input type crash with a traceback in every format and mode.

Exits 1 when a run of the command line ends in a traceback, 0 otherwise."""
import os
import pickle
import subprocess
import sys
import tempfile


def graphtage(*argv):
    p = subprocess.run([sys.executable, '-m', 'graphtage', '--no-status', *argv], capture_output=True, text=True,
                       errors='replace')
    return p.returncode, p.stdout, p.stderr


def main():
    failures = []
    with tempfile.TemporaryDirectory() as d:
        def w(name, obj, protocol=4):
            path = os.path.join(d, name)
            with open(path, 'wb') as f:
                f.write(pickle.dumps(obj, protocol=protocol))
            assert pickle.loads(pickle.dumps(obj, protocol=protocol)) is not None
            return path
        lst = [1, 2]
        lst.append(lst)
        dct = {'a': 1}
        dct['self'] = dct
        inner = []
        tup = (inner, 1)
        inner.append(tup)
        other = [1, 3]
        other.append(other)
        pl, pd, pt, po = w('l.pkl', lst), w('d.pkl', dct), w('t.pkl', tup), w('o.pkl', other)
        runs = [
            ('list containing itself, identical files', [pl, pl]),
            ('list containing itself, different files, -f json', [pl, po, '-f', 'json']),
            ('list containing itself, edit list', [pl, po, '-e']),
            ('list containing itself, edit digest, -f yaml', [pl, po, '-d', '-f', 'yaml']),
            ('dict containing itself', [pd, pd]),
            ('tuple <-> list cycle', [pt, pt]),
        ]
        for label, argv in runs:
            rc, out, err = graphtage(*argv)
            if 'Traceback (most recent call last)' in err or rc not in (0, 1):
                last = [line for line in err.strip().splitlines() if line.strip()][-1] if err.strip() else ''
                failures.append(f'{label}: exit status {rc}; {last[:170]}')
    if failures:
        print('VIOLATION: pickles of self-referential containers cannot be compared/rendered:')
        for f in failures:
            print('  -', f)
        return 1
    print('ok: all runs completed without an internal error')
    return 0


if __name__ == '__main__':
    sys.exit(main())
