"""Leaves of different kinds whose str() coincide (true / "True", 1 / "1", 2.5 / "2.5") are matched at cost zero:
the change is not reported anywhere although the nodes compare unequal."""
import io
import sys

from graphtage import json as gjson, BuildOptions
from graphtage.printer import DEFAULT_PRINTER, Printer

DEFAULT_PRINTER.quiet = True

CASES = [
    ([True, 1, 2.5], ["True", "1", "2.5"]),
    ({"k": False}, {"k": "False"}),
    ({1: "x"}, {"1": "x"}),          # a YAML mapping with an integer key against one with a string key
    (7, "7"),
]

failures = []
for ke, am in ((True, True), (True, False), (False, False)):
    for a_obj, b_obj in CASES:
        opts = BuildOptions(allow_key_edits=ke, auto_match_keys=am)
        a, b = gjson.build_tree(a_obj, opts), gjson.build_tree(b_obj, opts)
        if a == b:
            continue  # the trees are (rightly) different
        edit = a.edits(b)
        while edit.valid and not edit.is_complete() and edit.tighten_bounds():
            pass
        while edit.tighten_bounds():
            pass
        reported = list(a.get_all_edits(b))
        diff = a.diff(b)
        had_edits = any(any(e.has_non_zero_cost() for e in n.edit_list) for n in diff.dfs())  # what main() returns
        out = io.StringIO()
        with Printer(out_stream=out, ansi_color=False, quiet=True) as p:
            gjson.JSONFormatter.DEFAULT_INSTANCE.print(p, diff)
        if edit.bounds().upper_bound == 0 or not reported or not had_edits:
            failures.append(f"{a_obj!r} -> {b_obj!r} (allow_key_edits={ke}, auto_match_keys={am}): trees are unequal "
                            f"but cost={edit.bounds()}, reported edits={reported!r}, had_edits={had_edits}, "
                            f"report={' '.join(out.getvalue().split())!r}")

if failures:
    print("C01 violated (a leaf replaced by a leaf of another kind with the same str() is reported as kept):")
    for f in failures:
        print("  -", f)
    sys.exit(1)
print("ok")
sys.exit(0)
