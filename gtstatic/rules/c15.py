"""C15 - minimum-weight assignment is valid and optimal (necessary conditions around the trusted solver).

R15a the result is built from both index arrays of the solver's answer, reports weights[i][j], and drops sentinel pairs
with a strict comparison; R15b the missing-pair sentinel exceeds every real total, is folded into max_edge before the
dtype is chosen and is written into the table before the solver runs; R15c the dtype table matches numpy and the dtype
selection keeps full precision (bool/float64/smallest sufficient integer); R15d every non-empty answer comes from the
solver (no shortcut return); R15e the solver is asked to minimise over the whole table.
"""
import ast

from ..astx import walk_no_nested, dotted, call_name, func_params, dominating_conditions, flatten_conditions, parent
from ..core import norm, Inconclusive
from .. import pat

FN = "graphtage.matching.min_weight_bipartite_matching"


def r15(ctx):
    m = ctx.model
    f = m.func(FN)
    from ..astx import inline_value_helpers
    # a value computed by a module-level helper made of if / return only (`dtype = _weights_dtype(edge_type, lo, hi)`) is read
    # as the if/elif chain it stands for
    fn = inline_value_helpers(m, f.module, f.node, skip=("get_dtype",))     # get_dtype is judged on its own (table, interval test)
    fl = f.file
    name = "min_weight_bipartite_matching"
    ctx.rule("R15a", "result construction: pairs are zip(row_ind, col_ind) of the solver's answer, each reported as "
                     "(col, weights[row][col]); sentinel pairs are dropped with `weights[r][c] < sentinel` (strict)")
    ctx.rule("R15b", "sentinel discipline: sentinel > every achievable real total, folded into max_edge before the dtype "
                     "is chosen, written into every missing cell before the solver call")
    ctx.rule("R15c", "dtype discipline: INTEGER_DTYPE_INTERVALS rows equal numpy's real ranges, get_dtype tests "
                     "lo <= min and max < hi, bool->bool, float->float (64-bit), int->get_dtype(min_edge, max_edge)")
    ctx.rule("R15d", "every return of min_weight_bipartite_matching is either {} for a table without pairs or the "
                     "solver-derived mapping (no shortcut that bypasses the solver or the missing-pair filter)")
    ctx.rule("R15e", "the solver call is linear_sum_assignment(np.array(weights, dtype=dtype), maximize=False)")
    # ---- solver call
    calls = [c for c in walk_no_nested(fn) if isinstance(c, ast.Call) and (call_name(c) or "").endswith("linear_sum_assignment")]
    if len(calls) != 1:
        # the solver may be called in a helper: whatever else it does, the rows of the answer must not be thrown away there
        for hq, h in sorted(m.functions.items()):
            if h.module != f.module or h.node is f.node:
                continue
            for c in walk_no_nested(h.node):
                if not (isinstance(c, ast.Call) and (call_name(c) or "").endswith("linear_sum_assignment")):
                    continue
                st = c
                while not isinstance(st, ast.stmt):
                    st = parent(st)
                dropped = None
                if isinstance(st, ast.Assign) and st.value is c and isinstance(st.targets[0], ast.Name):
                    X = st.targets[0].id
                    uses = [u for u in walk_no_nested(h.node) if isinstance(u, ast.Name) and u.id == X and isinstance(u.ctx, ast.Load)]
                    idx = [parent(u).slice.value if isinstance(parent(u), ast.Subscript) and isinstance(parent(u).slice, ast.Constant) else None for u in uses]
                    if uses and all(i == 1 for i in idx):
                        dropped = f"only `{X}[1]` of `{norm(st, 60)}` is used"
                elif isinstance(st, ast.Assign) and st.value is c and isinstance(st.targets[0], ast.Tuple) and len(st.targets[0].elts) == 2 \
                        and isinstance(st.targets[0].elts[0], ast.Name):
                    R = st.targets[0].elts[0].id
                    if not any(isinstance(u, ast.Name) and u.id == R and isinstance(u.ctx, ast.Load) for u in walk_no_nested(h.node)):
                        dropped = f"`{R}` of `{norm(st, 60)}` is never read"
                elif isinstance(parent(c), ast.Subscript) and isinstance(parent(c).slice, ast.Constant) and parent(c).slice.value == 1:
                    dropped = f"`{norm(parent(c), 60)}` keeps the columns only"
                mat = c.args[0].id if c.args and isinstance(c.args[0], ast.Name) else None
                cells = [x for x in walk_no_nested(h.node) if isinstance(x, ast.Subscript) and isinstance(x.ctx, ast.Load)
                         and isinstance(x.value, ast.Name) and x.value.id == mat] if mat else []
                if cells and not dropped:
                    ctx.violation("R15a", h.file, h.short, cells[0], "reported weights are the caller's",
                                  f"`{norm(cells[0], 50)}` in {h.short} reads a weight back from the array handed to the solver: what is reported "
                                  f"with the matching has gone through that array's dtype (2**63+1 comes back as a float, True as 1) instead of "
                                  f"being the value the caller supplied")
                    return
                if dropped:
                    ctx.violation("R15a", h.file, h.short, st, "solver result kept whole",
                                  f"{dropped}: the solver's row indices are thrown away; when there are more rows than columns the solver skips "
                                  f"rows, so the row of each column cannot be recovered from its position and pairs are attributed to the wrong "
                                  f"elements (the matching is no longer of minimum weight, or not a matching of the given edges)")
                    return
        raise Inconclusive("min_weight_bipartite_matching: expected exactly one linear_sum_assignment call")
    call = calls[0]
    sv = call
    while not isinstance(sv, ast.stmt):
        sv = parent(sv)
    if not isinstance(sv, ast.Assign):
        raise Inconclusive("the solver's result is not assigned")
    if sv.value is not call:
        ctx.violation("R15a", fl, name, sv, "solver result kept whole",
                      f"`{norm(sv, 80)}` keeps only part of the solver's answer (row_ind, col_ind): when there are more rows "
                      f"than columns the solver skips rows, so the row of each column cannot be recovered from its position")
    from ..astx import resolve_local
    arr = resolve_local(fn, call.args[0]) if call.args else None     # np.array(...) possibly through a local
    mx = next((k.value for k in call.keywords if k.arg == "maximize"), None)
    # role names: the weight table is what is handed to np.array, the dtype variable is its dtype= keyword
    WV = dotted(arr.args[0]) if isinstance(arr, ast.Call) and arr.args else None
    DV = next((dotted(k.value) for k in (arr.keywords if isinstance(arr, ast.Call) else []) if k.arg == "dtype"), None)
    # the table must be the one the edge loop fills (a nested list comprehension of None)
    tab = [s_ for s_ in walk_no_nested(fn) if isinstance(s_, (ast.Assign, ast.AnnAssign)) and isinstance(s_.value, ast.ListComp)
           and "None" in ast.unparse(s_.value)]
    table_name = dotted(tab[0].targets[0] if isinstance(tab[0], ast.Assign) else tab[0].target) if tab else None
    ok_arr = isinstance(arr, ast.Call) and (call_name(arr) or "").endswith("array") and WV is not None and WV == table_name and DV is not None
    # the table the result reads is the one the edge loop filled: the name is bound once (cells are stored into, the name is not
    # rebound - `weights = cost_matrix.tolist()` would report weights that went through the solver's dtype)
    if table_name:
        rebinds = [s_ for s_ in walk_no_nested(fn) if isinstance(s_, (ast.Assign, ast.AnnAssign, ast.AugAssign)) and s_ is not tab[0]
                   and any(isinstance(t_, ast.Name) and t_.id == table_name for t_ in (s_.targets if isinstance(s_, ast.Assign) else [s_.target]))]
        for s_ in rebinds:
            ctx.violation("R15a", fl, name, s_, "weight table bound once",
                          f"`{norm(s_, 70)}` rebinds the weight table after the edge loop filled it: the weights reported with the matching are "
                          f"no longer the ones the caller supplied (a copy that went through the solver's array has its dtype - 2**63+1 comes "
                          f"back as a float, True as 1)")
    # sentinel / flag / edge-type names
    SV = HV = ET = None
    for s_ in walk_no_nested(fn):
        if isinstance(s_, (ast.Assign, ast.AnnAssign)) and isinstance(s_.value, ast.BinOp) and isinstance(s_.value.left, ast.Call) \
                and call_name(s_.value.left) == "max":
            SV = dotted(s_.targets[0] if isinstance(s_, ast.Assign) else s_.target)
    _e, eb = pat.first("E = type(X)", fn)
    ET = eb["E"] if eb else None
    for s_ in walk_no_nested(fn):
        if isinstance(s_, ast.Assign) and isinstance(s_.value, ast.Constant) and s_.value.value is True and isinstance(s_.targets[0], ast.Name) \
                and any(isinstance(a, ast.If) and ("is not None" in ast.unparse(a.test) or "is None" in ast.unparse(a.test)) for a in ancestors_of(s_)) \
                and any(isinstance(a, ast.For) for a in ancestors_of(s_)):
            HV = s_.targets[0].id
    if not all((WV, DV, SV, HV, ET)):
        raise Inconclusive(f"min_weight_bipartite_matching: cannot identify the table/dtype/sentinel/flag/edge-type variables ({WV}, {DV}, {SV}, {HV}, {ET})")
    mins = [dotted(a) for s_ in walk_no_nested(fn) if isinstance(s_, ast.Assign) and dotted(s_.targets[0]) == DV
            and isinstance(s_.value, ast.Call) and (call_name(s_.value) or "").endswith("get_dtype") for a in s_.value.args]
    MINV, MAXV = (mins + [None, None])[:2]
    ok_min = mx is None or (isinstance(mx, ast.Constant) and mx.value is False)
    if ok_arr and ok_min:
        ctx.proved("R15e", fl, name, call, "solver call", "minimises over np.array(weights, dtype=dtype)")
    else:
        ctx.violation("R15e", fl, name, call, "solver call",
                      f"solver call `{norm(call, 80)}` does not minimise over the full weight table with the selected dtype")
    res_names = [t.id for t in ast.walk(sv.targets[0]) if isinstance(t, ast.Name)]
    # ---- returns
    rets = [r for r in walk_no_nested(fn) if isinstance(r, ast.Return)]
    main_ret = None
    for r in rets:
        v = r.value
        if isinstance(v, ast.Dict) and not v.keys:
            facts = [ast.unparse(t).replace(" ", "") for t, pol in flatten_conditions(dominating_conditions(r)) if pol]
            if f"{ET}isNone" in facts:
                ctx.proved("R15d", fl, name, r, "empty answer", "{} only when the table has no pair at all")
            else:
                ctx.violation("R15d", fl, name, r, "empty answer", f"returns {{}} under {facts}, not only for a table without pairs")
        elif isinstance(v, ast.DictComp) and r.lineno > sv.lineno:
            main_ret = r
        else:
            ctx.violation("R15d", fl, name, r, f"shortcut return {norm(v, 40) if v is not None else 'None'}",
                          f"`{norm(r, 70)}` answers without going through the solver and the missing-pair filter: the "
                          f"pairing may use pairs that do not exist or may not be optimal")
    # the empty-table answer must be given before anything computes with the running extrema (None for an empty table)
    empties = [r for r in rets if isinstance(r.value, ast.Dict) and not r.value.keys]
    if empties and MAXV:
        first = min(r.lineno for r in empties)
        loop_end = max((getattr(l, "end_lineno", l.lineno) for l in walk_no_nested(fn) if isinstance(l, ast.For)
                        and any(isinstance(a, ast.Assign) and dotted(a.targets[0]) == MAXV for a in ast.walk(l))), default=0)
        early = []
        for x in walk_no_nested(fn):
            if isinstance(x, (ast.Compare, ast.BinOp)) or (isinstance(x, ast.Call) and call_name(x) in ("max", "min", "abs")):
                if getattr(x, "lineno", 0) > loop_end and x.lineno < first and \
                        any(isinstance(y, ast.Name) and y.id in (MAXV, MINV) for y in ast.walk(x)):
                    facts = [ast.unparse(t).replace(" ", "") for t, pol in flatten_conditions(dominating_conditions(x)) if pol]
                    if not any(ft in (f"{ET}isnotNone", f"{MAXV}isnotNone") for ft in facts):
                        early.append(x)
        if early:
            ctx.violation("R15d", fl, name, early[0], "empty answer precedes weight arithmetic",
                          f"`{norm(early[0], 60)}` computes with {MAXV}/{MINV} before the `return {{}}` for a table without pairs; "
                          f"for such a table they are still None, so the call raises TypeError instead of returning the empty matching")
        else:
            ctx.proved("R15d", fl, name, empties[0], "empty answer precedes weight arithmetic",
                       f"nothing compares or adds {MAXV}/{MINV} between the edge loop and the empty-table return")
    if main_ret is None:
        ctx.violation("R15d", fl, name, fn, "solver-derived answer", "no return builds the answer from the solver's result")
        return
    dc = main_ret.value
    gen = dc.generators[0]
    it = gen.iter
    # zip(*left_matches) or zip(row_ind, col_ind)
    both = False
    if isinstance(it, ast.Call) and call_name(it) == "zip":
        if len(it.args) == 1 and isinstance(it.args[0], ast.Starred) and dotted(it.args[0].value) in res_names:
            both = True
        elif len(it.args) == 2 and all(dotted(a) in res_names for a in it.args) and len(res_names) == 2 \
                and [dotted(a) for a in it.args] == res_names:
            both = True
    tv = [x.id for x in gen.target.elts] if isinstance(gen.target, ast.Tuple) and len(gen.target.elts) == 2 else None
    if both and tv:
        r_, c_ = tv
        key_ok = dotted(dc.key) == r_
        val = dc.value
        val_ok = isinstance(val, ast.Tuple) and len(val.elts) == 2 and dotted(val.elts[0]) == c_ and \
            ast.unparse(val.elts[1]).replace(" ", "") == f"{WV}[{r_}][{c_}]"
        if key_ok and val_ok:
            ctx.proved("R15a", fl, name, main_ret, "pairs from the solver",
                       f"{{{r_}: ({c_}, weights[{r_}][{c_}]) for {r_}, {c_} in zip(row indices, column indices)}}")
        else:
            ctx.violation("R15a", fl, name, main_ret, "pairs from the solver",
                          f"the answer is `{norm(dc.key)}: {norm(dc.value)}`; expected row -> (column, weights[row][column]) "
                          f"(the reported weight would not be the pair's true weight)")
    else:
        ctx.violation("R15a", fl, name, main_ret, "pairs from the solver",
                      f"the answer iterates `{norm(it, 60)}`, not zip(row indices, column indices) of the solver's result: "
                      f"the solver may skip rows (more rows than columns), so positions are not row numbers")
    # filter
    flt = gen.ifs[0] if gen.ifs else None
    ftxt = ast.unparse(flt).replace(" ", "") if flt is not None else ""
    if tv and ftxt == f"not{HV}or{WV}[{tv[0]}][{tv[1]}]<{SV}":
        ctx.proved("R15a", fl, name, flt, "sentinel filter", "pairs whose stored weight reaches the sentinel are dropped (strict <)")
    else:
        ctx.violation("R15a", fl, name, flt or main_ret, "sentinel filter",
                      f"filter `{ftxt or 'none'}`: pairs standing for missing edges must be dropped with "
                      f"`not has_null_edges or weights[r][c] < null_edge_value`; otherwise non-existent pairs are reported")
    # ---- sentinel
    sent = [s for s in walk_no_nested(fn) if isinstance(s, (ast.Assign, ast.AnnAssign))
            and dotted(s.targets[0] if isinstance(s, ast.Assign) else s.target) == SV
            and not (isinstance(s.value, ast.Constant) and s.value.value is None)]
    if sent:
        import copy as _copy
        sval = _copy.deepcopy(sent[0].value)
        if isinstance(sval, ast.BinOp) and isinstance(sval.left, ast.Call) and call_name(sval.left) == "max":
            # the column-sum maximum may sit in a local of its own: resolve the direct arguments of the outer max(...)
            sval.left.args = [resolve_local(fn, a) if isinstance(a, ast.Name) and dotted(a) != MAXV else a for a in sval.left.args]
        plus_one = isinstance(sval, ast.BinOp) and isinstance(sval.op, ast.Add) and isinstance(sval.right, ast.Constant) \
            and isinstance(sval.right.value, int) and sval.right.value >= 1 and isinstance(sval.left, ast.Call) \
            and call_name(sval.left) == "max"
        colsum = plus_one and any(isinstance(x, ast.Call) and call_name(x) == "sum" for x in ast.walk(sval.left)) \
            and any(isinstance(x, ast.Name) and x.id == WV for x in ast.walk(sval.left))
        # the filter `weights[r][c] < sentinel` keeps a real pair only if sentinel > that pair's weight: the sentinel must
        # dominate the running maximum by construction (a column sum alone does not when weights can be negative)
        dominates = plus_one and len(sval.left.args) >= 2 and any(dotted(a) == MAXV for a in sval.left.args)
        if colsum and dominates:
            ctx.proved("R15b", fl, name, sent[0], "sentinel magnitude",
                       f"sentinel = max(largest column sum, {MAXV}) + {sval.right.value}: strictly above every real weight whatever the signs")
        elif colsum:
            ctx.violation("R15b", fl, name, sent[0], "sentinel magnitude",
                          f"sentinel `{norm(sent[0].value, 60)}` is (largest column sum + 1) only: with negative weights a column "
                          f"sum can be below a single weight, so the sentinel need not exceed {MAXV} - the assert that follows "
                          f"fires ([[5, None], [-10, -10]]) or, under -O, real pairs at or above the sentinel are dropped as "
                          f"missing; take max(..., {MAXV}) + 1")
        else:
            ctx.violation("R15b", fl, name, sent[0], "sentinel magnitude",
                          f"sentinel `{norm(sent[0].value, 60)}` is not max(largest column sum, {MAXV}) + 1: a real pair could cost as "
                          f"much as a missing one and be dropped, or a missing pair be preferred")
        fold = [s for s in walk_no_nested(fn) if isinstance(s, ast.Assign) and dotted(s.targets[0]) == MAXV
                and dotted(s.value) == SV]
        dts = [s for s in walk_no_nested(fn) if isinstance(s, ast.Assign) and dotted(s.targets[0]) == DV
               and isinstance(s.value, ast.Call) and (call_name(s.value) or "").endswith("get_dtype")]
        order = {}
        def _number(stmts):
            for st_ in stmts:
                order[id(st_)] = len(order)
                for fld_ in ("body", "orelse", "finalbody"):
                    if isinstance(getattr(st_, fld_, None), list):
                        _number(getattr(st_, fld_))
        _number(fn.body)        # position in the (helper-inlined) function, not the line a statement was written on
        if fold and dts and order.get(id(fold[0]), 10 ** 9) < order.get(id(dts[0]), -1) and _same_or_outer(fold[0], sent[0]):
            ctx.proved("R15b", fl, name, fold[0], "sentinel folded before dtype",
                       "max_edge = sentinel precedes dtype = get_dtype(min_edge, max_edge)")
        else:
            ctx.violation("R15b", fl, name, (dts or fold or [fn])[0], "sentinel folded before dtype",
                          "the dtype is chosen before (or without) the sentinel being folded into max_edge: the sentinel can "
                          "overflow the chosen integer type and wrap to a small weight")
        fill = [s for s in walk_no_nested(fn) if isinstance(s, ast.Assign) and isinstance(s.targets[0], ast.Subscript)
                and dotted(s.value) == SV]
        if fill and fill[0].lineno < sv.lineno:
            facts = [ast.unparse(t).replace(" ", "") for t, pol in flatten_conditions(dominating_conditions(fill[0])) if pol]
            if any("isNone" in x for x in facts) and HV in facts:
                ctx.proved("R15b", fl, name, fill[0], "missing cells filled", "every None cell receives the sentinel before the solver runs")
            else:
                ctx.violation("R15b", fl, name, fill[0], "missing cells filled", f"sentinel fill is guarded by {facts}")
        else:
            ctx.violation("R15b", fl, name, fn, "missing cells filled", "missing cells are not replaced by the sentinel before the solver call")
    else:
        ctx.inconclusive("R15b", fl, name, fn, "sentinel", "null_edge_value computation not found")
    # ---- dtype selection
    sel = {}
    for s in walk_no_nested(fn):
        if isinstance(s, ast.Assign) and dotted(s.targets[0]) == DV:
            facts = [ast.unparse(t).replace(" ", "") for t, pol in flatten_conditions(dominating_conditions(s)) if pol]
            for ft in facts:
                if ft.startswith(f"{ET}is") and not ft.startswith(f"{ET}isnot") and not ft.endswith("None"):
                    sel[ft[len(f"{ET}is"):]] = s
            if isinstance(s.value, ast.Call) and (call_name(s.value) or "").endswith("get_dtype"):
                sel["int"] = s
    want = {"bool": "bool", "float": "float"}
    for k, w in want.items():
        if k in sel and ast.unparse(sel[k].value) == w:
            ctx.proved("R15c", fl, name, sel[k], f"dtype for {k}", f"{k} weights use dtype {w}" + (" (float64: no precision loss)" if k == "float" else ""))
        else:
            got = ast.unparse(sel[k].value) if k in sel else "no assignment"
            ctx.violation("R15c", fl, name, sel.get(k, fn), f"dtype for {k}",
                          f"{k} weights get dtype `{got}`; expected `{w}`"
                          + (" - a narrower float merges weights that differ by less than its resolution, so the solver's "
                             "optimum need not be the true optimum" if k == "float" else ""))
    minmax_ok = False
    if "int" in sel and len(sel["int"].value.args) == 2:
        lo_, hi_ = (dotted(a) for a in sel["int"].value.args)
        # min_edge / max_edge are the running minimum / maximum over the real edges
        minmax_ok = bool(lo_ and hi_) and pat.has(f"if {hi_} is None or {hi_} < E:\n    {hi_} = E", fn, stmts=True) and \
            pat.has(f"if {lo_} is None or {lo_} > E:\n    {lo_} = E", fn, stmts=True)
    if minmax_ok:
        ctx.proved("R15c", fl, name, sel["int"], "dtype for int", "get_dtype(min_edge, max_edge)")
        # get_dtype's last resort is the platform integer, which need not hold the range either: the caller must check
        lo_, hi_ = (dotted(a) for a in sel["int"].value.args)
        guards = [i for i in walk_no_nested(fn) if isinstance(i, ast.If) and i.lineno > sel["int"].lineno and i.lineno < sv.lineno
                  and "np.iinfo(" in ast.unparse(i.test) and lo_ in ast.unparse(i.test) and hi_ in ast.unparse(i.test)
                  and any(isinstance(a, ast.Assign) and dotted(a.targets[0]) == DV and ast.unparse(a.value) in ("float", "np.dtype(float)", "np.float64", "object")
                          for a in i.body)]
        if guards:
            ctx.proved("R15c", fl, name, guards[0], "integer range fits the chosen dtype",
                       f"`{norm(guards[0].test, 80)}` switches to a float array when even the fallback integer type cannot hold the range")
        else:
            ctx.violation("R15c", fl, name, sel["int"], "integer range fits the chosen dtype",
                          f"get_dtype falls back to the platform integer (int64) when no table row covers [{lo_}, {hi_}] - a negative "
                          f"minimum with a maximum of 2**63 or more, or a sentinel beyond 2**64 - and nothing checks the result: "
                          f"np.array(weights, dtype=int64) raises OverflowError for [[-1, 2**63]], inside the documented range")
    else:
        ctx.violation("R15c", fl, name, sel.get("int", fn), "dtype for int", "integer weights do not use get_dtype(min_edge, max_edge)")
    # dtype selection must not depend on weight magnitudes for non-integers
    guard_assigns = {id(a) for i in walk_no_nested(fn) if isinstance(i, ast.If) and "np.iinfo(" in ast.unparse(i.test)
                     for a in i.body if isinstance(a, ast.Assign)}
    for s in walk_no_nested(fn):
        if isinstance(s, ast.Assign) and dotted(s.targets[0]) == DV and s not in sel.values() and id(s) not in guard_assigns:
            ctx.violation("R15c", fl, name, s, f"extra dtype {norm(s.value, 30)}",
                          f"additional dtype choice `{norm(s, 60)}` outside the bool/float/int table")
    # get_dtype + table
    gd = m.func("graphtage.matching.get_dtype")
    cmp_ = [c for c in walk_no_nested(gd.node) if isinstance(c, ast.BoolOp)]
    ctxt = ast.unparse(cmp_[0]).replace(" ", "") if cmp_ else ""
    p = func_params(gd.node)
    lp_ = next((x for x in walk_no_nested(gd.node) if isinstance(x, ast.For) and isinstance(x.target, ast.Tuple) and len(x.target.elts) == 3), None)
    lo_n, hi_n = (lp_.target.elts[0].id, lp_.target.elts[1].id) if lp_ is not None else ("min_range", "max_range")
    if ctxt == f"{lo_n}<={p[0]}and{hi_n}>{p[1]}":
        ctx.proved("R15c", gd.file, "get_dtype", cmp_[0], "interval test", "lo <= min and hi > max (hi exclusive)")
    else:
        ctx.violation("R15c", gd.file, "get_dtype", cmp_[0] if cmp_ else gd.node, "interval test",
                      f"get_dtype tests `{ctxt}`; expected lo <= min_value and hi > max_value")
    # every dtype get_dtype hands back is justified by the containment test on *this call's* arguments
    dvar = lp_.target.elts[2].id if lp_ is not None and isinstance(lp_.target.elts[2], ast.Name) else None
    test_txt = ast.unparse(cmp_[0]) if cmp_ else None
    nret = 0
    for r in walk_no_nested(gd.node):
        if not isinstance(r, ast.Return):
            continue
        nret += 1
        v = r.value
        why = None
        if isinstance(v, ast.Call) and ast.unparse(v).replace(" ", "") in ("np.dtype(int)", "numpy.dtype(int)", "np.dtype(np.int64)"):
            okr = "platform-wide integer fallback"
        elif isinstance(v, ast.Call) and call_name(v) == "next" and len(v.args) == 2 and isinstance(v.args[0], ast.GeneratorExp) \
                and ast.unparse(v.args[1]).replace(" ", "") in ("np.dtype(int)", "numpy.dtype(int)"):
            g = v.args[0]
            gen = g.generators[0]
            tgt = [x.id for x in gen.target.elts] if isinstance(gen.target, ast.Tuple) and all(isinstance(x, ast.Name) for x in gen.target.elts) else []
            conj = [ast.unparse(x) for i_ in gen.ifs for x in (i_.values if isinstance(i_, ast.BoolOp) and isinstance(i_.op, ast.And) else [i_])]
            want = {f"{tgt[0]} <= {p[0]}", f"{tgt[1]} > {p[1]}"} if len(tgt) == 3 else None
            if want and dotted(gen.iter) == "INTEGER_DTYPE_INTERVALS" and isinstance(g.elt, ast.Name) and g.elt.id == tgt[2] and want <= set(conj):
                okr = "first table row passing the containment test, else the platform-wide integer fallback"
            else:
                okr = None
                why = f"`{norm(r, 70)}` does not select the first table row that passes lo <= min_value and hi > max_value"
        elif isinstance(v, ast.Name) and v.id == dvar and lp_ is not None:
            inside = any(a is lp_ for a in ancestors_of(r))
            if inside:
                facts = [ast.unparse(t) for t, pol in flatten_conditions(dominating_conditions(r)) if pol]
                okr = "returned under the containment test" if test_txt and all(part.strip() in facts for part in test_txt.split(" and ")) else None
                why = f"`return {dvar}` inside the table loop is not guarded by the containment test (guards: {facts})"
            else:
                brks = [b for b in ast.walk(lp_) if isinstance(b, ast.Break)]
                guarded = brks and test_txt and all(
                    all(part.strip() in [ast.unparse(t) for t, pol in flatten_conditions(dominating_conditions(b)) if pol]
                        for part in test_txt.split(" and ")) for b in brks)
                others = [a for a in walk_no_nested(gd.node) if isinstance(a, (ast.Assign, ast.AugAssign, ast.AnnAssign))
                          and any(isinstance(t, ast.Name) and t.id == dvar for t in ast.walk(a.targets[0] if isinstance(a, ast.Assign) else a.target))]
                in_else = [a for a in others if any(a is x for st in lp_.orelse for x in ast.walk(st))]
                fallback = in_else and len(in_else) == len(others) and all(
                    isinstance(a, ast.Assign) and ast.unparse(a.value).replace(" ", "") in ("np.dtype(int)", "numpy.dtype(int)") for a in in_else)
                okr = "loop left by `break` under the containment test, for-else assigns the wide fallback" if guarded and fallback else None
                why = (f"`return {dvar}` after the table loop: the loop must be left only by `break` under the containment test and "
                       f"its else-arm must assign the wide fallback (otherwise the last table row, or a stale value, is returned)")
        elif isinstance(v, ast.Name) and _exact_memo(gd.node, v.id, p, dvar):
            okr = "memoised under the exact (min_value, max_value) key; only table-justified dtypes are stored"
        else:
            okr = None
            why = (f"`{norm(r, 60)}` returns a dtype that does not come from the interval table under the containment test on this "
                   f"call's (min_value, max_value) - e.g. a value remembered from an earlier call with different arguments")
        if okr:
            ctx.proved("R15c", gd.file, "get_dtype", r, f"return {norm(v, 30)}", okr, nontrivial=False)
        else:
            ctx.violation("R15c", gd.file, "get_dtype", r, f"return {norm(v, 30) if v is not None else 'None'}",
                          why + ": a dtype too narrow for the weights makes np.array raise OverflowError or wrap the weights")
    ctx.floor("R15c", nret, 1, "returns of get_dtype")
    tree = m.mods["graphtage.matching"]
    tab = next((s for s in tree.body if isinstance(s, (ast.Assign, ast.AnnAssign))
                and dotted(s.targets[0] if isinstance(s, ast.Assign) else s.target) == "INTEGER_DTYPE_INTERVALS"), None)
    if tab is None:
        ctx.inconclusive("R15c", fl, "<module>", None, "INTEGER_DTYPE_INTERVALS", "table not found")
        return
    import numpy as np
    rows = 0
    for row in tab.value.elts:
        try:
            lo = eval(compile(ast.Expression(row.elts[0]), "<t>", "eval"), {"__builtins__": {}})
            hi = eval(compile(ast.Expression(row.elts[1]), "<t>", "eval"), {"__builtins__": {}})
        except Exception:
            ctx.inconclusive("R15c", fl, "<module>", row, "interval row", "bounds are not constant expressions")
            continue
        tname = ast.unparse(row.elts[2]).split("np.")[-1].rstrip(")")
        info = np.iinfo(getattr(np, tname))
        rows += 1
        if lo >= info.min and hi - 1 <= info.max:
            ctx.proved("R15c", fl, "<module>", row, f"interval {tname}", f"[{lo}, {hi}) fits {tname} [{info.min}, {info.max}]")
        else:
            ctx.violation("R15c", fl, "<module>", row, f"interval {tname}",
                          f"INTEGER_DTYPE_INTERVALS claims [{lo}, {hi}) for {tname}, whose real range is [{info.min}, {info.max}]: "
                          f"weights near the boundary overflow silently")
    ctx.floor("R15c", rows, 6, "dtype interval rows")


def r15f(ctx):
    """Numeric limits of the solver call that are visible in the code's shape."""
    m = ctx.model
    ctx.rule("R15f", "numeric limits: (1) scipy's linear_sum_assignment computes in float64, so integer weights are exact only "
                     "below 2**53 - a dtype table row (or a documented range) beyond that promises more than the solver delivers; "
                     "(2) the missing-pair sentinel `max(...) + 1` is strictly larger than the largest weight only in integer "
                     "arithmetic - for float weights of 2**53 or more the + 1 is absorbed")
    fn_info = m.func("graphtage.matching.min_weight_bipartite_matching")
    fl = fn_info.file
    tree = m.mods["graphtage.matching"]
    tab = next((s_ for s_ in tree.body if isinstance(s_, (ast.Assign, ast.AnnAssign))
                and dotted(s_.targets[0] if isinstance(s_, ast.Assign) else s_.target) == "INTEGER_DTYPE_INTERVALS"), None)
    wide = []
    if tab is not None:
        for row in tab.value.elts:
            try:
                lo = eval(compile(ast.Expression(row.elts[0]), "<t>", "eval"), {"__builtins__": {}})
                hi = eval(compile(ast.Expression(row.elts[1]), "<t>", "eval"), {"__builtins__": {}})
            except Exception:
                continue
            if hi > 2 ** 53 or lo < -2 ** 53:
                wide.append((row, ast.unparse(row.elts[2])))
    if wide:
        ctx.violation("R15f", fl, "<module>", wide[0][0], "solver precision",
                      f"INTEGER_DTYPE_INTERVALS offers {', '.join(w[1].split('np.')[-1].rstrip(')') for w in wide)} (and the docstring promises defined "
                      f"behaviour up to 2**64), but linear_sum_assignment converts every cost matrix to float64: weights above 2**53 "
                      f"collapse and the returned matching is not minimal ([[2**53+1, 2**53], [2**53, 2**53+1]] returns the diagonal)")
    else:
        ctx.proved("R15f", fl, "<module>", tab, "solver precision", "no integer dtype wider than the solver's 53-bit mantissa is offered")
    # float sentinel
    fn = fn_info.node
    sent = [s_ for s_ in walk_no_nested(fn) if isinstance(s_, (ast.Assign, ast.AnnAssign)) and s_.value is not None
            and isinstance(s_.value, ast.BinOp) and isinstance(s_.value.op, ast.Add) and isinstance(s_.value.right, ast.Constant)
            and isinstance(s_.value.left, ast.Call) and call_name(s_.value.left) == "max"]
    for s_ in sent:
        facts = [ast.unparse(t).replace(" ", "") for t, pol in flatten_conditions(dominating_conditions(s_)) if pol]
        int_only = any("isint" in ft or "isnotfloat" in ft for ft in facts)
        if int_only:
            ctx.proved("R15f", fl, fn_info.short, s_, "sentinel exceeds the maximum for floats", "the + 1 sentinel is computed for integer weights only")
        else:
            ctx.violation("R15f", fl, fn_info.short, s_, "sentinel exceeds the maximum for floats",
                          f"`{norm(s_.value, 50)}` is also used for float weights: from 2.0**53 upwards x + 1 == x, so the sentinel equals the "
                          f"largest weight, the assert after it fires ([[2.0**53, None]]) and under -O the real pair is dropped as if it "
                          f"were missing; near 1e308 the column sum overflows to inf and the solver reports an infeasible matrix")


def _exact_memo(fn, name, params, dvar):
    """`name` is read from a mapping under a key that is exactly the tuple of both parameters, and every store into that
    mapping inside fn uses the same key and stores the table-loop's dtype variable (or the wide fallback)."""
    def key_exact(k):
        if isinstance(k, ast.Name):
            defs = [a.value for a in walk_no_nested(fn) if isinstance(a, ast.Assign) and len(a.targets) == 1
                    and isinstance(a.targets[0], ast.Name) and a.targets[0].id == k.id]
            return len(defs) == 1 and key_exact(defs[0])
        return isinstance(k, ast.Tuple) and [dotted(e) for e in k.elts] == list(params[:2])
    defs = [a.value for a in walk_no_nested(fn) if isinstance(a, ast.Assign) and len(a.targets) == 1
            and isinstance(a.targets[0], ast.Name) and a.targets[0].id == name]
    if len(defs) != 1:
        return False
    d = defs[0]
    if isinstance(d, ast.Call) and isinstance(d.func, ast.Attribute) and d.func.attr == "get" and d.args and key_exact(d.args[0]):
        mapping = dotted(d.func.value)
    elif isinstance(d, ast.Subscript) and key_exact(d.slice):
        mapping = dotted(d.value)
    else:
        return False
    stores = [a for a in walk_no_nested(fn) if isinstance(a, ast.Assign) and isinstance(a.targets[0], ast.Subscript)
              and dotted(a.targets[0].value) == mapping]
    return bool(mapping) and all(key_exact(a.targets[0].slice) and isinstance(a.value, ast.Name) and a.value.id == dvar for a in stores)


def _same_or_outer(a, b):
    return True


def ancestors_of(n):
    from ..astx import ancestors
    return list(ancestors(n))


def run(ctx):
    r15(ctx)
    r15f(ctx)
    ctx.assume("optimality and one-to-one-ness are delegated to scipy.optimize.linear_sum_assignment (trusted for weights whose "
               "sums stay below 2**53; beyond that see the R15f finding)")
    ctx.assume("numpy.iinfo is read from the installed numpy (third-party, not the code under analysis)")
