"""Program model of graphtage built from source: modules, import maps, classes, MRO, attribute lookup,
simulated import order, formatter tree and FORMATTERS registry, file types.  Pure `ast`; nothing is imported
from the code under analysis."""
import ast
import glob
import os

from .core import Inconclusive

PKG = "graphtage"


def fold_version_guard(test):
    """Fold sys.version_info comparisons for the supported interpreters (>= 3.8): True/False/None."""
    src = ast.unparse(test)
    if "version_info" not in src:
        return None
    V = type("V", (tuple,), {"major": 3, "minor": 12})
    env = {"sys": type("S", (), {"version_info": V((3, 12, 1))}), "__builtins__": {}}
    try:
        return bool(eval(compile(ast.Expression(test), "<guard>", "eval"), env))
    except Exception:
        return None


def add_parents(tree):
    for n in ast.walk(tree):
        for c in ast.iter_child_nodes(n):
            c._parent = n
    return tree


class FuncInfo:
    __slots__ = ("qual", "module", "node", "cls", "file")

    def __init__(self, qual, module, node, cls, file):
        self.qual, self.module, self.node, self.cls, self.file = qual, module, node, cls, file

    @property
    def short(self):
        return self.qual.split(".", 2)[-1] if self.qual.count(".") >= 2 else self.qual

    def __repr__(self):
        return f"<Func {self.qual}>"


class FormatterInst:
    """One node of the statically built sub-formatter tree."""

    def __init__(self, model, q, parent=None, depth=0):
        self.model, self.q, self.parent, self.depth = model, q, parent, depth
        self.subs = []
        sft = model.cls_attr(q, "sub_format_types")
        if sft and sft[1][0] == "assign" and isinstance(sft[1][1], (ast.List, ast.Tuple)):
            for e in sft[1][1].elts:
                r = model.resolve_expr(model.classes[sft[0]][0], e)
                if not r or r[0][0] != "class":
                    raise Inconclusive(f"sub_format_types of {q}: cannot resolve {ast.unparse(e)}")
                if depth > 8:
                    raise Inconclusive(f"sub-formatter tree of {q} deeper than 8 (cycle?)")
                self.subs.append(FormatterInst(model, r[0][1], self, depth + 1))

    @property
    def name(self):
        return self.q.rsplit(".", 1)[-1]

    def path(self):
        p, n = [], self
        while n is not None:
            p.append(n.name)
            n = n.parent
        return "/".join(reversed(p))

    def has(self, name):
        return self.model.cls_attr(self.q, name) is not None

    def walk(self):
        yield self
        for s in self.subs:
            yield from s.walk()

    def __repr__(self):
        return f"<Fmt {self.path()}>"


class Model:
    def __init__(self, root):
        self.root = root
        self.pkgdir = os.path.join(root, PKG)
        if not os.path.isdir(self.pkgdir):
            raise Inconclusive(f"no package directory {self.pkgdir}")
        self.mods, self.files, self.src = {}, {}, {}
        for p in sorted(glob.glob(os.path.join(self.pkgdir, "*.py"))):
            name = os.path.basename(p)[:-3]
            q = PKG if name == "__init__" else f"{PKG}.{name}"
            with open(p, encoding="utf-8") as f:
                s = f.read()
            try:
                self.mods[q] = add_parents(ast.parse(s, p))
            except SyntaxError as e:
                raise Inconclusive(f"{p} does not parse: {e}")
            self.files[q] = f"{PKG}/{name}.py"
            self.src[q] = s
        self.sym = {m: {} for m in self.mods}
        self.classes = {}     # qual -> (module, ClassDef)
        self.functions = {}   # qual -> FuncInfo
        self._build_symbols()
        self.bases = {}
        for q, (m, c) in self.classes.items():
            bl = []
            for b in c.bases:
                bl += self.resolve_expr(m, b)
            self.bases[q] = bl
        self._c3 = {}
        self.attrs = {q: self._own_attrs(q) for q in self.classes}
        self._inject_setattr()
        self._subclasses = None
        self._order = None

    # ------------------------------------------------------------------ symbols
    def toplevel(self, tree):
        def walk(stmts):
            for s in stmts:
                if isinstance(s, ast.If):
                    v = fold_version_guard(s.test)
                    if v is True:
                        yield from walk(s.body)
                    elif v is False:
                        yield from walk(s.orelse)
                    else:
                        yield from walk(s.body)
                        yield from walk(s.orelse)
                elif isinstance(s, ast.Try):
                    yield from walk(s.body)
                else:
                    yield s
        yield from walk(tree.body)

    def rel(self, module, level, name):
        base = module if module == PKG else module.rsplit(".", 1)[0]
        for _ in range(level - 1):
            base = base.rsplit(".", 1)[0]
        return base if not name else f"{base}.{name}"

    def _reg_funcs(self, module, prefix, body, cls):
        for s in body:
            if isinstance(s, (ast.FunctionDef, ast.AsyncFunctionDef)):
                q = f"{prefix}.{s.name}"
                self.functions[q] = FuncInfo(q, module, s, cls, self.files[module])
                # nested functions / classes inside functions
                for inner in ast.walk(s):
                    if inner is not s and isinstance(inner, (ast.FunctionDef, ast.AsyncFunctionDef)):
                        iq = f"{q}.<locals>.{inner.name}"
                        if iq not in self.functions:
                            self.functions[iq] = FuncInfo(iq, module, inner, cls, self.files[module])

    def _reg_class(self, m, q, node):
        self.classes[q] = (m, node)
        self._reg_funcs(m, q, node.body, q)
        for inner in node.body:
            if isinstance(inner, ast.ClassDef):
                self._reg_class(m, f"{q}.{inner.name}", inner)

    def _build_symbols(self):
        for m, tree in self.mods.items():
            for s in self.toplevel(tree):
                if isinstance(s, ast.ClassDef):
                    q = f"{m}.{s.name}"
                    self.sym[m][s.name] = ("class", q)
                    self._reg_class(m, q, s)
                elif isinstance(s, (ast.FunctionDef, ast.AsyncFunctionDef)):
                    self.sym[m][s.name] = ("func", f"{m}.{s.name}")
                    self._reg_funcs(m, m, [s], None)
                elif isinstance(s, ast.ImportFrom):
                    src = self.rel(m, s.level, s.module) if s.level else s.module
                    for a in s.names:
                        if a.name == "*":
                            self.sym[m].setdefault("*", []).append(src)
                        else:
                            self.sym[m][a.asname or a.name] = ("import", src, a.name)
                elif isinstance(s, ast.Import):
                    for a in s.names:
                        self.sym[m][a.asname or a.name.split(".")[0]] = \
                            ("module", a.name if a.asname else a.name.split(".")[0])
                elif isinstance(s, ast.Assign) and len(s.targets) == 1 and isinstance(s.targets[0], ast.Name):
                    self.sym[m][s.targets[0].id] = ("assign", s.value)
                elif isinstance(s, ast.AnnAssign) and isinstance(s.target, ast.Name) and s.value is not None:
                    self.sym[m][s.target.id] = ("assign", s.value)

    def lookup(self, module, name, seen=()):
        if (module, name) in seen:
            return None
        seen = seen + ((module, name),)
        if module not in self.sym:
            return ("ext", f"{module}.{name}")
        e = self.sym[module].get(name)
        if e is None:
            for src in self.sym[module].get("*", []):
                r = self.lookup(src, name, seen)
                if r and r[0] != "ext":
                    return r
            return None
        if e[0] in ("class", "func", "module"):
            return e
        if e[0] == "import":
            _, src, attr = e
            if src in self.sym:
                sub = f"{src}.{attr}"
                if sub in self.mods and attr not in self.sym[src]:
                    return ("module", sub)
                r = self.lookup(src, attr, seen)
                if r:
                    return r
                if sub in self.mods:
                    return ("module", sub)
                return None
            return ("ext", f"{src}.{attr}")
        if e[0] == "assign":
            return ("assign", e[1], module)
        return None

    def resolve_expr(self, module, e):
        """Resolve a class-valued expression to [('class', q) | ('ext', name) | ('module', m) | ('func', q)]."""
        if isinstance(e, (ast.Subscript, ast.Starred)):
            return self.resolve_expr(module, e.value)
        if isinstance(e, ast.Name):
            r = self.lookup(module, e.id)
            if r is None:
                return [("ext", e.id)]
            if r[0] == "assign":
                return self.resolve_expr(r[2], r[1])
            return [r]
        if isinstance(e, ast.Tuple):
            out = []
            for x in e.elts:
                out += self.resolve_expr(module, x)
            return out
        if isinstance(e, ast.Attribute):
            base = self.resolve_expr(module, e.value)
            if base and base[0][0] == "module":
                mod = base[0][1]
                if mod in self.sym:
                    r = self.lookup(mod, e.attr)
                    if r and r[0] == "assign":
                        return self.resolve_expr(r[2], r[1])
                    return [r] if r else [("ext", f"{mod}.{e.attr}")]
                return [("ext", f"{mod}.{e.attr}")]
            if base and base[0][0] == "class":
                q = f"{base[0][1]}.{e.attr}"
                if q in self.classes:
                    return [("class", q)]
            return [("ext", ast.unparse(e))]
        return [("ext", ast.unparse(e))]

    def resolve_class(self, module, e):
        r = self.resolve_expr(module, e)
        if r and r[0] and r[0][0] == "class":
            return r[0][1]
        return None

    # ------------------------------------------------------------------ hierarchy
    def c3(self, q):
        if q in self._c3:
            return self._c3[q]
        seqs, direct = [], []
        for kind, b in self.bases.get(q, []):
            if kind == "class":
                seqs.append(list(self.c3(b)))
                direct.append(b)
        seqs.append(direct)
        res = [q]
        seqs = [s for s in seqs if s]
        while seqs:
            for s in seqs:
                h = s[0]
                if not any(h in t[1:] for t in seqs):
                    break
            else:
                raise Inconclusive(f"inconsistent MRO for {q}")
            res.append(h)
            seqs = [[x for x in s if x != h] for s in seqs]
            seqs = [s for s in seqs if s]
        self._c3[q] = res
        return res

    def is_subclass(self, q, base):
        return q in self.classes and base in self.c3(q)

    def subclasses(self, base, strict=False):
        return [q for q in self.classes if base in self.c3(q) and not (strict and q == base)]

    def find_class(self, name):
        """Unique class by short name (nested excluded unless unique)."""
        hits = [q for q in self.classes if q.rsplit(".", 1)[-1] == name]
        if len(hits) == 1:
            return hits[0]
        top = [q for q in hits if q.count(".") == 2]
        if len(top) == 1:
            return top[0]
        return None

    def need_class(self, name):
        q = self.find_class(name)
        if q is None:
            raise Inconclusive(f"anchor class {name} not found (or ambiguous)")
        return q

    def _own_attrs(self, q):
        m, c = self.classes[q]
        out = {}
        for s in c.body:
            if isinstance(s, (ast.FunctionDef, ast.AsyncFunctionDef)):
                out[s.name] = ("def", self.functions[f"{q}.{s.name}"])
            elif isinstance(s, ast.Assign) and len(s.targets) == 1 and isinstance(s.targets[0], ast.Name):
                out[s.targets[0].id] = ("assign", s.value)
            elif isinstance(s, ast.AnnAssign) and isinstance(s.target, ast.Name) and s.value is not None:
                out[s.target.id] = ("assign", s.value)
        # class-body alias  print_X = print_Y
        for k, (kind, v) in list(out.items()):
            if kind == "assign" and isinstance(v, ast.Name) and v.id in out and out[v.id][0] == "def":
                out[k] = ("def", out[v.id][1])
        return out

    def _inject_setattr(self):
        self.injected = []
        for m, tree in self.mods.items():
            for s in self.toplevel(tree):
                if isinstance(s, ast.Expr) and isinstance(s.value, ast.Call) \
                        and isinstance(s.value.func, ast.Name) and s.value.func.id == "setattr" \
                        and len(s.value.args) == 3 and isinstance(s.value.args[1], ast.Constant):
                    tgt = self.resolve_expr(m, s.value.args[0])
                    val = self.resolve_expr(m, s.value.args[2])
                    if tgt and tgt[0][0] == "class" and val and val[0][0] == "func":
                        self.attrs[tgt[0][1]][s.value.args[1].value] = ("def", self.functions[val[0][1]])
                        self.injected.append((tgt[0][1], s.value.args[1].value, val[0][1]))

    def cls_attr(self, q, name):
        """(owner class, ('def', FuncInfo) | ('assign', expr)) through the MRO, or None."""
        for k in self.c3(q):
            if name in self.attrs[k]:
                return k, self.attrs[k][name]
        return None

    def method(self, q, name):
        r = self.cls_attr(q, name)
        if r and r[1][0] == "def":
            return r[1][1]
        return None

    def methods_named(self, name):
        return [f for f in self.functions.values() if f.cls and f.qual == f"{f.cls}.{name}"]

    def func(self, qual):
        f = self.functions.get(qual)
        if f is None:
            raise Inconclusive(f"anchor function {qual} not found")
        return f

    def overrides(self, base, name):
        """All definitions of method `name` in classes that have `base` in their MRO."""
        out = []
        for q in self.subclasses(base):
            if name in self.attrs[q] and self.attrs[q][name][0] == "def":
                out.append(self.attrs[q][name][1])
        return out

    def is_abstract(self, q):
        seen = set()
        for k in self.c3(q):
            m, c = self.classes[k]
            for s in c.body:
                if isinstance(s, ast.FunctionDef) and s.name not in seen:
                    seen.add(s.name)
                    if any(getattr(d, "id", getattr(d, "attr", None)) == "abstractmethod" for d in s.decorator_list):
                        return True
                elif isinstance(s, ast.Assign):
                    for t in s.targets:
                        if isinstance(t, ast.Name):
                            seen.add(t.id)
        return False

    def const(self, q, name, default=None):
        r = self.cls_attr(q, name)
        if not r or r[1][0] != "assign":
            return default
        try:
            return ast.literal_eval(r[1][1])
        except Exception:
            return default

    def nullary(self, q):
        f = self.method(q, "__init__")
        if f is None:
            return True
        a = f.node.args
        req = len(a.args) - 1 - len(a.defaults)
        return req <= 0 and all(d is not None for d in a.kw_defaults)

    # ------------------------------------------------------------------ import order & registries
    def load_order(self):
        if self._order is not None:
            return self._order
        order, state = [], {}

        def load(m):
            if m not in self.mods or state.get(m):
                return
            state[m] = 1
            if m != PKG and "." in m:
                load(m.rsplit(".", 1)[0])
            for s in self.toplevel(self.mods[m]):
                if isinstance(s, ast.ImportFrom):
                    src = self.rel(m, s.level, s.module) if s.level else s.module
                    if src in self.mods:
                        load(src)
                    for a in s.names:
                        sub = f"{src}.{a.name}"
                        if sub in self.mods:
                            load(sub)
                elif isinstance(s, ast.Import):
                    for a in s.names:
                        if a.name in self.mods:
                            load(a.name)
            order.append(m)
        load(PKG)
        self._order = order
        return order

    def created_classes(self):
        out = []
        for m in self.load_order():
            for s in self.toplevel(self.mods[m]):
                if isinstance(s, ast.ClassDef):
                    out.append(f"{m}.{s.name}")
        return out

    def formatter_registry(self):
        """(FORMATTERS in registration order, DEFAULT_INSTANCE per class) as FormatterInst trees."""
        if getattr(self, "_freg", None):
            return self._freg
        FORM = f"{PKG}.formatter.Formatter"
        if FORM not in self.classes:
            raise Inconclusive("anchor class graphtage.formatter.Formatter not found")
        formatters, default = [], {}
        for q in self.created_classes():
            if q in self.classes and FORM in self.c3(q) and len(self.c3(q)) > 1 and not self.is_abstract(q):
                if self.nullary(q):
                    inst = FormatterInst(self, q)
                    default[q] = inst
                    if not self.const(q, "is_partial", False) and q.rsplit(".", 1)[-1] != "BasicFormatter":
                        formatters.append(inst)
        self._freg = (formatters, default)
        return self._freg

    def filetypes(self):
        """{class qual: {'name':..., 'mimes': [...], 'default_formatter': class qual or None}} for concrete Filetypes."""
        FT = f"{PKG}.graphtage.Filetype"
        if FT not in self.classes:
            raise Inconclusive("anchor class graphtage.graphtage.Filetype not found")
        out = {}
        for q in self.subclasses(FT, strict=True):
            if self.is_abstract(q):
                continue
            info = {"name": None, "mimes": [], "default_formatter": None}
            init = self.method(q, "__init__")
            if init is not None:
                for n in ast.walk(init.node):
                    if isinstance(n, ast.Call) and isinstance(n.func, ast.Attribute) and n.func.attr == "__init__":
                        consts = [a.value for a in n.args if isinstance(a, ast.Constant) and isinstance(a.value, str)]
                        if consts:
                            info["name"], info["mimes"] = consts[0], consts[1:]
            gdf = self.method(q, "get_default_formatter")
            if gdf is not None:
                for n in ast.walk(gdf.node):
                    if isinstance(n, ast.Return) and isinstance(n.value, ast.Attribute) \
                            and n.value.attr == "DEFAULT_INSTANCE":
                        info["default_formatter"] = self.resolve_class(gdf.module, n.value.value)
            out[q] = info
        return out

    # ------------------------------------------------------------------ formatting protocol (port of _get_formatter)
    def node_mro_names(self, q, edited=False):
        mro = [k.rsplit(".", 1)[-1] for k in self.c3(q)]
        if edited:
            mro = ["Edited" + mro[0], "EditedTreeNode"] + mro
        mro.append("object")
        return mro

    def _getf(self, names, base, tested):
        if base.q not in tested:
            grandchildren = []
            for c in names:
                n = f"print_{c}"
                if base.has(n):
                    return base, n
                for sf in base.subs:
                    # NB the original compares an instance with a set of classes: always "not in tested"
                    if sf.has(n):
                        return sf, n
                    grandchildren.extend(sf.subs)
            tested.add(base.q)
            tested |= {sf.q for sf in base.subs}
            for g in grandchildren:
                r = self._getf(names, g, tested)
                if r is not None:
                    return r
        if base.parent is not None:
            return self._getf(names, base.parent, tested)
        return None

    def get_formatter(self, names, base):
        """(FormatterInst, handler name) the protocol resolves for a class with MRO names `names`, or None."""
        tested = set()
        if base is not None:
            r = self._getf(names, base, tested)
            if r is not None:
                return r
        for f in self.formatter_registry()[0]:
            if f.q not in tested:
                r = self._getf(names, f, tested)
                if r is not None:
                    return r
        return None

    # ------------------------------------------------------------------ misc
    def enclosing_function(self, node):
        n = getattr(node, "_parent", None)
        while n is not None and not isinstance(n, (ast.FunctionDef, ast.AsyncFunctionDef)):
            n = getattr(n, "_parent", None)
        return n

    def funcinfo_of(self, fnode):
        for f in self.functions.values():
            if f.node is fnode:
                return f
        return None
