#!/venv/bin/python
"""Seeds x refactorings: apply a behaviour-preserving agent refactoring, then a kept seeded change on top of it (fuzzy
patch), and run the seed's own property check.  The check must still report a violation: a rule generalised to stay
silent on the refactoring must not have gone blind on the refactored shape.
usage: cross_matrix.py [jobs]      prints one line per combination that applies, and a summary."""
import concurrent.futures as cf, json, os, re, shutil, subprocess, sys, tempfile
V = os.path.dirname(os.path.dirname(os.path.abspath(__file__)))
sys.path.insert(0, V)


def files_of(patch):
    return set(re.findall(r"^\+\+\+ b/(\S+)", open(patch).read(), re.M))


def one(job):
    rpatch, sid, prop = job
    from gtstatic import core
    from gtstatic.__main__ import run_rules
    d = tempfile.mkdtemp(prefix="cx_")
    try:
        shutil.copytree("/repo/graphtage", os.path.join(d, "graphtage"), ignore=shutil.ignore_patterns("__pycache__"))
        r = subprocess.run(["git", "apply", "--whitespace=nowarn", "-p1", rpatch], cwd=d, capture_output=True, text=True)
        if r.returncode:
            return (rpatch, sid, "refactor-does-not-apply", "")
        sp = os.path.join(V, "seeded", sid, "patch.diff") if not sid.startswith("mutant:") else None
        if sid.startswith("mutant:"):
            from gtstatic.mutants import MUTANTS
            mp_, mr_, mf_, old, new, desc = MUTANTS[int(sid.split(":")[1])]
            fp = os.path.join(d, "graphtage", mf_)
            txt = open(fp).read()
            if txt.count(old) != 1:
                return (rpatch, sid, "conflict", "")
            open(fp, "w").write(txt.replace(old, new))
            try:
                compile(open(fp).read(), fp, "exec")
            except SyntaxError:
                return (rpatch, sid, "conflict", "syntax")
            sp = None
        else:
            r = subprocess.run(["patch", "-p1", "-F2", "-s", "--no-backup-if-mismatch", "-i", sp], cwd=d, capture_output=True, text=True)
            if r.returncode:
                return (rpatch, sid, "conflict", "")
        for f in (files_of(sp) if sp else set()) | files_of(rpatch):
            try:
                compile(open(os.path.join(d, f)).read(), f, "exec")
            except SyntaxError:
                return (rpatch, sid, "conflict", "syntax")
        try:
            ctx = run_rules(prop, d, "quick", quiet=True)
        except Exception as e:
            return (rpatch, sid, "exit2", f"{type(e).__name__}: {e}"[:200])
        core.apply_known(ctx, core.load_known())
        viol = [i for i in ctx.instances if i.verdict == core.VIOLATION and not i.detail.startswith("[the construct of a recorded finding")]
        inc = [i for i in ctx.instances if i.verdict == core.INCONCLUSIVE] + [f for f in ctx.floors if f[1] < f[2]]
        if viol:
            return (rpatch, sid, "caught", viol[0].rule)
        return (rpatch, sid, "exit2" if inc else "MISSED", str(inc[0])[:200] if inc else "")
    finally:
        shutil.rmtree(d, ignore_errors=True)


def main():
    jobs_n = int(sys.argv[1]) if len(sys.argv) > 1 else 8
    seeds = []
    for sid in sorted(os.listdir(os.path.join(V, "seeded"))):
        mp = os.path.join(V, "seeded", sid, "meta.json")
        if not os.path.isfile(mp):
            continue
        meta = json.load(open(mp))
        if not meta.get("confirmed", True):
            continue
        seeds.append((sid, meta.get("property", sid[:3]), files_of(os.path.join(V, "seeded", sid, "patch.diff"))))
    jobs = []
    for fn in sorted(os.listdir(os.path.join(V, "refactor_patches"))):
        rp = os.path.join(V, "refactor_patches", fn)
        rf = files_of(rp)
        for sid, prop, sf in seeds:
            if rf & sf:
                jobs.append((rp, sid, prop))
    from gtstatic.mutants import MUTANTS
    for fn in sorted(os.listdir(os.path.join(V, "refactor_patches"))):
        rp = os.path.join(V, "refactor_patches", fn)
        rf = files_of(rp)
        for k, mu in enumerate(MUTANTS):
            if "graphtage/" + mu[2] in rf:
                jobs.append((rp, f"mutant:{k}", mu[0]))
    with cf.ProcessPoolExecutor(max_workers=jobs_n) as ex:
        res = list(ex.map(one, jobs, chunksize=4))
    from collections import Counter
    c = Counter(r[2] for r in res)
    for rp, sid, st, det in res:
        if st in ("MISSED", "exit2"):
            if sid.startswith("mutant:"):
                from gtstatic.mutants import MUTANTS as _M
                sid = sid + " " + "/".join(_M[int(sid.split(":")[1])][:2]) + " " + _M[int(sid.split(":")[1])][5][:30]
            print(f"{st:7} {sid:10} after {os.path.basename(rp)[:70]}  {det}")
    print(dict(c), "of", len(res))


main()
