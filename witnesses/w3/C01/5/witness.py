"""An (empty) set and an (empty) dictionary are different documents, but MultiSetNode() == DictNode() and
MultiSetNode.edits() accepts a DictNode: set() -> {} is reported as kept (cost 0, no edits), while {} -> set() is a
replacement; a non-empty set against a dict becomes a MultiSetEdit that keeps the container."""
import sys

from graphtage import pydiff, BuildOptions
from graphtage.multiset import MultiSetEdit
from graphtage.printer import DEFAULT_PRINTER

DEFAULT_PRINTER.quiet = True


def cost_and_edits(a_obj, b_obj, **opts):
    a, b = pydiff.build_tree(a_obj, BuildOptions(**opts)), pydiff.build_tree(b_obj, BuildOptions(**opts))
    edit = a.edits(b)
    while edit.valid and not edit.is_complete() and edit.tighten_bounds():
        pass
    while edit.tighten_bounds():
        pass
    return a, b, edit, list(a.get_all_edits(b))


failures = []
for opts in ({}, {'allow_key_edits': False}):
    for a_obj, b_obj in ((set(), {}), ([set()], [{}]), ([{}], [set()]), ({'a': set()}, {'a': {}}),
                         ([1, frozenset()], [1, {}])):
        a, b, edit, reported = cost_and_edits(a_obj, b_obj, **opts)
        if edit.bounds().upper_bound == 0 or not reported:
            failures.append(f"{a_obj!r} -> {b_obj!r} {opts}: cost {edit.bounds()}, reported edits {reported!r} "
                            f"(trees compare equal: {a == b})")
    # the same change in the other direction at the root is (correctly) a replacement of cost 1
    a, b, edit, reported = cost_and_edits({1}, {1: 2}, **opts)
    if isinstance(edit, MultiSetEdit):
        failures.append(f"{{1}} -> {{1: 2}} {opts}: the set is edited in place as a multiset ({reported!r}) instead "
                        f"of being replaced by the dictionary")

if failures:
    print("C01 violated (set vs. dictionary):")
    for f in failures:
        print("  -", f)
    sys.exit(1)
print("ok")
sys.exit(0)
