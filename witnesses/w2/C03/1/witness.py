"""C03 witness: an EditCollection (FixedKeyDictNodeEdit, i.e. dictionaries built with allow_key_edits=False)
throws its own cost away when the sum of its sub-edits exceeds from.total_size + to.total_size + 1.

Exit 1 if the fully refined top-level cost differs from the sum of the costs of the sub-edits it lists."""
import ast
import sys

from graphtage import pydiff
from graphtage.graphtage import BuildOptions
from graphtage.printer import DEFAULT_PRINTER

DEFAULT_PRINTER.quiet = True


def refine(edit, limit=100000):
    while limit > 0 and edit.tighten_bounds():
        limit -= 1
    return edit.bounds()


def check(name, from_tree, to_tree) -> bool:
    """returns True if the violation shows"""
    edit = from_tree.edits(to_tree)
    total = refine(edit)
    parts = [refine(sub) for sub in edit.edits()]
    parts_lb = sum(p.lower_bound for p in parts)
    parts_ub = sum(p.upper_bound for p in parts)
    print(f"{name}: {type(edit).__name__} valid={edit.valid} reported cost {total!s}; its {len(parts)} listed "
          f"sub-edits cost [{parts_lb}, {parts_ub}] in total "
          f"(a-priori bound: {from_tree.total_size} + {to_tree.total_size} + 1)")
    if not total.definitive() or total.lower_bound != parts_lb or total.upper_bound != parts_ub:
        print(f"  VIOLATION: the reported cost of the comparison is not the sum of the edits it lists")
        return True
    return False


def main() -> int:
    options = BuildOptions(allow_key_edits=False)
    failed = False

    # (a) a bytes value: StringNode(b'xxxxxxxxxx').total_size == len("b'xxxxxxxxxx'") == 13, but removing its ten
    #     elements (each StringNode(120), total_size 3) costs 30
    t1 = pydiff.build_tree({'k': b'xxxxxxxxxx'}, options)
    t2 = pydiff.build_tree({'k': b''}, options)
    failed |= check("bytes value", t1, t2)

    # (b) no bytes involved: nested subscripts in a Python AST; every level replaces a leaf slice by a list (cost 2 per
    #     level) while DataClassNode.total_size adds no overhead per level
    levels = 13
    m1 = pydiff.ast_to_tree(ast.parse("{'k': x" + "[1]" * levels + "}"), options)
    m2 = pydiff.ast_to_tree(ast.parse("{'k': x" + "[[]]" * levels + "}"), options)
    # compare the dictionaries themselves (the enclosing Module's FixedLengthSequenceEdit spins forever on the
    # invalidated child edit)
    d1, d2 = m1.children()[0], m2.children()[0]
    failed |= check("nested subscripts", d1, d2)

    return 1 if failed else 0


if __name__ == "__main__":
    sys.exit(main())
