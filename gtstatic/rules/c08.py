"""C08 - mappings are unordered, lists are ordered.

R08a canonical construction of DictNode (from_dict sorts the pairs; direct constructions are reviewed exceptions);
R08b order-insensitive identity for multiset/mapping nodes and order-sensitive identity for lists; R08c no positional
pairing of the two sides in multiset / keyed edits; R08d lists are compared by tuple equality before any zero-cost match.
"""
import ast

from ..astx import decorator_names, code
from ..astx import walk_no_nested, dotted, call_name, self_attr, func_params, parent, dominating_conditions, flatten_conditions
from ..core import norm, Inconclusive
from .. import pat

DICT = "graphtage.graphtage.DictNode"
REVIEWED_DIRECT = {
    ("graphtage.xml._json_print_XMLElement", "DictNode"): "print-time view of one XML element; built from a fixed list of four pairs in a fixed order",
    ("graphtage.pydiff.ASTBuilder.build_call", "CallKeywords"): "always the empty mapping `CallKeywords(())`",
}


def r08a(ctx):
    m = ctx.model
    ctx.rule("R08a", "canonical construction: DictNode.from_dict hands `sorted(...)` pairs to the constructor, so the "
                     "multiset's internal order does not depend on the order keys appear in the document; every other "
                     "construction of a DictNode-family node goes through from_dict (direct constructions are reviewed)")
    fd = m.method(DICT, "from_dict")
    calls = [c for c in walk_no_nested(fd.node) if isinstance(c, ast.Call) and dotted(c.func) == "cls"]
    if calls and calls[0].args and isinstance(calls[0].args[0], ast.Call) and call_name(calls[0].args[0]) == "sorted":
        ctx.proved("R08a", fd.file, "DictNode.from_dict", calls[0], "pairs sorted", "cls(sorted(pairs))")
    else:
        ctx.violation("R08a", fd.file, "DictNode.from_dict", (calls or [fd.node])[0], "pairs sorted",
                      "DictNode.from_dict no longer sorts the key/value pairs before building the multiset: the internal "
                      "order follows the document's key order, so which of several equally good pairs are matched (and the "
                      "order of reported items) changes when keys are permuted")
    n = 0
    for f in sorted(m.functions.values(), key=lambda f: f.qual):
        if ".<locals>." in f.qual:
            continue
        for c in walk_no_nested(f.node):
            if not isinstance(c, ast.Call):
                continue
            r = m.resolve_expr(f.module, c.func)
            k = r[0][1] if r and r[0] and r[0][0] == "class" else None
            if k and k in m.classes and m.is_subclass(k, DICT):
                n += 1
                ks = k.rsplit(".", 1)[-1]
                why = REVIEWED_DIRECT.get((f.qual, ks))
                if why:
                    ctx.proved("R08a", f.file, f.short, c, f"direct {ks}(...)", f"reviewed exception: {why}", nontrivial=False)
                elif c.args and isinstance(c.args[0], ast.Call) and call_name(c.args[0]) == "sorted":
                    ctx.proved("R08a", f.file, f.short, c, f"direct {ks}(sorted ...)", "pairs are sorted at the call site")
                else:
                    ctx.violation("R08a", f.file, f.short, c, f"direct {ks}(...)",
                                  f"`{norm(c, 60)}` constructs a {ks} directly from unsorted pairs instead of through "
                                  f"from_dict: its internal order depends on the input's key order")
            if isinstance(c.func, ast.Attribute) and c.func.attr == "from_dict":
                n += 1
            # `cls(pairs)` in a classmethod of the family other than from_dict is a construction like any other
            if isinstance(c.func, ast.Name) and c.func.id == "cls" and f.cls and m.is_subclass(f.cls, DICT) and f.node is not fd.node \
                    and "classmethod" in decorator_names(f.node):
                n += 1
                if not (c.args and isinstance(c.args[0], ast.Call) and call_name(c.args[0]) == "sorted"):
                    ctx.violation("R08a", f.file, f.short, c, f"direct cls(...) in {f.short}",
                                  f"`{norm(c, 60)}` in {f.short} constructs a {f.cls.rsplit('.', 1)[-1]} from unsorted pairs - a second from_dict "
                                  f"without its sort: the internal order of nodes built this way depends on the input's key order")
            # `template.copy_from(pairs)`: the copying protocol rebuilds a node from the children it is given, in the order given
            if isinstance(c.func, ast.Attribute) and c.func.attr == "copy_from" and isinstance(c.func.value, ast.Name) and f.node.name not in ("copy", "copy_from"):
                srcs = [a_.value for a_ in walk_no_nested(f.node) if isinstance(a_, ast.Assign) and len(a_.targets) == 1
                        and isinstance(a_.targets[0], ast.Name) and a_.targets[0].id == c.func.value.id]
                fam = False
                for v_ in srcs:
                    head = v_.func.value if isinstance(v_, ast.Call) and isinstance(v_.func, ast.Attribute) and v_.func.attr == "from_dict" else \
                        (v_.func if isinstance(v_, ast.Call) else None)
                    r_ = m.resolve_expr(f.module, head) if head is not None else None
                    k_ = r_[0][1] if r_ and r_[0] and r_[0][0] == "class" else None
                    fam = fam or bool(k_ and k_ in m.classes and m.is_subclass(k_, DICT))
                if fam:
                    n += 1
                    ctx.violation("R08a", f.file, f.short, c, f"copy_from in {f.short}",
                                  f"`{norm(c, 60)}` fills a DictNode through the copying protocol, which hands the pairs to the constructor in the "
                                  f"order given instead of through from_dict: the node's internal order depends on the input's key order")
    ctx.floor("R08a", n, 5, "DictNode-family constructions / from_dict calls")


def r08b(ctx):
    m = ctx.model
    ctx.rule("R08b", "identity: multiset and mapping nodes store children in an order-insensitive container with "
                     "order-insensitive equality and a commutative hash; lists store a tuple")
    sq = m.need_class("SequenceNode")
    eq = m.method(sq, "__eq__")
    o = func_params(eq.node)[1]
    if f"self._children=={o}._children" in code(eq.node).replace(" ", ""):
        ctx.proved("R08b", eq.file, "SequenceNode.__eq__", eq.node, "container equality", "equality is equality of the containers")
    else:
        ctx.violation("R08b", eq.file, "SequenceNode.__eq__", eq.node, "container equality", "SequenceNode.__eq__ no longer compares the containers")
    for cname, want in (("ListNode", "tuple"), ("MultiSetNode", "HashableCounter"), ("FixedKeyDictNode", "dict")):
        q = m.need_class(cname)
        ct = m.method(q, "container_type")
        r = next((x for x in walk_no_nested(ct.node) if isinstance(x, ast.Return)), None)
        got = dotted(r.value) if r is not None else None
        init = m.method(q, "__init__")
        # what is handed to SequenceNode.__init__
        sup = [c for c in walk_no_nested(init.node) if isinstance(c, ast.Call) and isinstance(c.func, ast.Attribute)
               and c.func.attr == "__init__" and isinstance(c.func.value, ast.Call) and call_name(c.func.value) == "super"]
        ok_ctor = True
        if cname == "ListNode":
            ok_ctor = bool(sup) and sup[0].args and isinstance(sup[0].args[0], ast.Call) and call_name(sup[0].args[0]) == "tuple"
        if cname == "MultiSetNode":
            t = code(init.node).replace(" ", "")
            ok_ctor = "ifnotisinstance(items,HashableCounter):\n" in t.replace("    ", "") and "items=HashableCounter(items)" in t
        if got == want and ok_ctor:
            ctx.proved("R08b", ct.file, f"{cname}.container_type", r, f"{cname} container", f"children are stored in a {want}")
        else:
            ctx.violation("R08b", ct.file, f"{cname}.container_type", r or ct.node, f"{cname} container",
                          f"{cname} stores its children in `{got}` (constructor conversion ok={ok_ctor}); expected {want}: "
                          + ("a list must keep order" if cname == "ListNode" else "a mapping/multiset must not depend on order"))
    hq = m.need_class("HashableCounter")
    hh = m.method(hq, "__hash__")
    fold = None
    for lp in walk_no_nested(hh.node):
        if isinstance(lp, ast.For) and ast.unparse(lp.iter).replace(" ", "") == "self.items()" and isinstance(lp.target, ast.Tuple):
            k_, v_ = (x.id for x in lp.target.elts)
            fold = pat.first(f"H ^= hash(({k_}, {v_}))", lp)[1]
    if fold is not None and isinstance(hh.node.body[-1], ast.Return) and dotted(hh.node.body[-1].value) == fold["H"]:
        ctx.proved("R08b", hh.file, "HashableCounter.__hash__", hh.node, "commutative hash", "XOR fold over (key, count) pairs")
    else:
        ctx.violation("R08b", hh.file, "HashableCounter.__hash__", hh.node, "commutative hash",
                      "HashableCounter.__hash__ is not a commutative fold over its items: two equal multisets built in "
                      "different orders hash differently and are not found equal inside other multisets")
    fq = m.need_class("FixedKeyDictNode")
    fh = m.method(fq, "__hash__")
    if "hash(frozenset(self._children.values()))" in code(fh.node).replace(" ", ""):
        ctx.proved("R08b", fh.file, "FixedKeyDictNode.__hash__", fh.node, "order-free hash", "hash of a frozenset of the pairs")
    else:
        ctx.violation("R08b", fh.file, "FixedKeyDictNode.__hash__", fh.node, "order-free hash", "FixedKeyDictNode.__hash__ depends on insertion order")
    fe = m.method(fq, "edits")
    o = func_params(fe.node)[1]
    if f"frozenset(self)==frozenset({o})" in code(fe.node).replace(" ", ""):
        ctx.proved("R08b", fe.file, "FixedKeyDictNode.edits", fe.node, "order-free equality test", "zero-cost match under frozenset equality")
    else:
        ctx.violation("R08b", fe.file, "FixedKeyDictNode.edits", fe.node, "order-free equality test",
                      "FixedKeyDictNode.edits no longer compares the two mappings as sets of pairs")
    kv = m.need_class("KeyValuePairNode")
    lt = m.method(kv, "__lt__")
    o = func_params(lt.node)[1]
    t = code(lt.node).replace(" ", "").replace("(", "").replace(")", "")
    if f"returnself.key<{o}.keyorself.key=={o}.keyandself.value<{o}.value" in t:
        ctx.proved("R08b", lt.file, "KeyValuePairNode.__lt__", lt.node, "pair order", "pairs sort by key, then value")
    else:
        ctx.violation("R08b", lt.file, "KeyValuePairNode.__lt__", lt.node, "pair order",
                      "KeyValuePairNode.__lt__ is not (key, then value): sorted() in from_dict no longer yields a canonical order")


def r08c(ctx):
    m = ctx.model
    ctx.rule("R08c", "no positional pairing of the two sides in multiset / keyed edits (no zip / enumerate-index pairing of "
                     "from- and to-collections); lists get a zero-cost match only under tuple equality")
    n = 0
    for cname, meths in (("MultiSetEdit", ("__init__", "edits")), ("FixedKeyDictNode", ("_child_edits", "edits")),
                         ("MultiSetNode", ("edits",)), ("DictNode", ("edits",))):
        q = m.need_class(cname)
        for mn in meths:
            f = m.method(q, mn)
            if f is None:
                continue
            n += 1
            # the method and the methods of its class it calls: a pairing moved into `_paired_edits(node)` is the same pairing
            helpers_ = []
            for c_ in walk_no_nested(f.node):
                if isinstance(c_, ast.Call) and self_attr(c_.func):
                    h_ = m.method(q, self_attr(c_.func))
                    if h_ is not None and h_.node is not f.node and h_.node.name not in meths and h_ not in helpers_ \
                            and h_.cls and m.is_subclass(h_.cls, m.need_class("TreeNode")) and h_.node.name.startswith("_"):
                        helpers_.append(h_)
            zips = [c for g_ in [f] + helpers_ for c in walk_no_nested(g_.node)
                    if isinstance(c, ast.Call) and (call_name(c) or "").split(".")[-1] in ("zip", "zip_longest")]
            # `theirs[i]` with i counted by range() / enumerate() - in a loop or in a comprehension - is the same positional pairing
            idx = []
            for g_ in [f] + helpers_:
                counters = set()
                for a in walk_no_nested(g_.node):
                    gens = [(a.target, a.iter)] if isinstance(a, ast.For) else \
                        [(c_.target, c_.iter) for c_ in a.generators] if isinstance(a, (ast.GeneratorExp, ast.ListComp, ast.SetComp, ast.DictComp)) else []
                    for tg_, it_ in gens:
                        if isinstance(it_, ast.Call) and call_name(it_) == "range" and isinstance(tg_, ast.Name):
                            counters.add(tg_.id)
                        elif isinstance(it_, ast.Call) and call_name(it_) == "enumerate" and isinstance(tg_, ast.Tuple) and tg_.elts \
                                and isinstance(tg_.elts[0], ast.Name):
                            counters.add(tg_.elts[0].id)
                idx += [s for s in walk_no_nested(g_.node) if isinstance(s, ast.Subscript) and isinstance(s.slice, ast.Name)
                        and s.slice.id in counters and isinstance(s.ctx, ast.Load)]
            positional = [c for c in walk_no_nested(f.node) if isinstance(c, ast.Call)
                          and (call_name(c) or "").split(".")[-1] in ("FixedLengthSequenceEdit", "EditDistance")]
            if positional:
                ctx.violation("R08c", f.file, f.short, positional[0], f"{f.short} positional edit",
                              f"`{norm(positional[0], 60)}`: an unordered node (mapping / multiset) is diffed with an "
                              f"order-aligned edit, so cost and pairing depend on the order keys happen to be stored in")
            elif zips:
                ctx.violation("R08c", f.file, f.short, zips[0], f"{f.short} positional pairing",
                              f"`{norm(zips[0], 60)}` pairs the two mappings' items by position: reordering keys changes which "
                              f"items are paired")
            elif idx:
                ctx.violation("R08c", f.file, f.short, idx[0], f"{f.short} positional pairing",
                              f"`{norm(idx[0], 60)}` picks the other side's item by a running index: reordering keys changes which "
                              f"items are paired")
            else:
                ctx.proved("R08c", f.file, f.short, f.node, f"{f.short} no positional pairing", "items are paired by equality / key / assignment only")
    ctx.floor("R08c", n, 4, "multiset / keyed edit methods")
    lq = m.need_class("ListNode")
    e = m.method(lq, "edits")
    o = func_params(e.node)[1]
    from ..astx import subst_paths
    zero = [c for c in walk_no_nested(subst_paths(e.node)) if isinstance(c, ast.Call) and call_name(c) == "Match"]
    for c in zero:
        facts = [ast.unparse(t).replace(" ", "") for t, pol in flatten_conditions(dominating_conditions(c)) if pol]
        if f"self._children=={o}._children" in facts:
            ctx.proved("R08c", e.file, "ListNode.edits", c, "list zero-cost only if equal tuples", "Match(self, node, 0) only under tuple equality")
        else:
            ctx.violation("R08c", e.file, "ListNode.edits", c, "list zero-cost only if equal tuples",
                          f"ListNode reports a zero-cost match under {facts}, not under tuple equality: swapped elements could cost 0")


def r08d(ctx):
    m = ctx.model
    ctx.rule("R08d", "the pairing of unordered collections is decided by equality only: in the multiset / keyed edit "
                     "constructors no ordering comparison (<, <=, >, >=) between elements or keys of the collections steers a "
                     "loop (break / continue / skipped lookup) - an early exit that relies on the items being sorted makes "
                     "the result depend on the order keys were written in (mixed-type keys have no consistent order)")
    n = 0
    for cname, meths in (("MultiSetEdit", ("__init__",)), ("FixedKeyDictNode", ("_child_edits", "edits")),
                         ("MultiSetNode", ("edits",)), ("DictNode", ("edits",))):
        q = m.need_class(cname)
        for mn in meths:
            f = m.method(q, mn)
            if f is None:
                continue
            n += 1
            loopvars = set()
            for lp in walk_no_nested(f.node):
                if isinstance(lp, ast.For):
                    loopvars |= {x.id for x in ast.walk(lp.target) if isinstance(x, ast.Name)}
            bad = []
            for c in walk_no_nested(f.node):
                if isinstance(c, ast.Compare) and any(isinstance(o, (ast.Lt, ast.LtE, ast.Gt, ast.GtE)) for o in c.ops):
                    roots = set()
                    for side in [c.left] + c.comparators:
                        if isinstance(side, ast.Call) and call_name(side) == "len":
                            continue
                        roots |= {x.id for x in ast.walk(side) if isinstance(x, ast.Name)}
                    if roots & loopvars:
                        bad.append(c)
            if bad:
                for c in bad:
                    ctx.violation("R08d", f.file, f.short, c, f"{f.short} ordering comparison `{norm(c, 30)}`",
                                  f"`{norm(c, 50)}` compares items of an unordered collection by order inside {f.short}: "
                                  f"whether a pair is found then depends on the iteration order of the collection (and on a "
                                  f"total order that mixed-type keys do not have), so reordering keys changes pairing and cost")
            else:
                ctx.proved("R08d", f.file, f.short, f.node, f"{f.short} equality-only lookup",
                           "no ordering comparison on collection items", nontrivial=False)
    ctx.floor("R08d", n, 4, "multiset / keyed edit methods")


def r08e(ctx):
    m = ctx.model
    ctx.rule("R08e", "the order behind the canonical sort is total: DictNode.from_dict sorts pairs through "
                     "KeyValuePairNode.__lt__ -> LeafNode.__lt__; when the native `<` raises TypeError the fallback must "
                     "order by a kind-tagged key (a tuple whose first component depends only on the type), not by another "
                     "projection of the values such as str(): native order and string order disagree (9 < 100, '100' < '50', "
                     "'50' < '9'), so sorted() would depend on the order of its input")
    q = m.need_class("LeafNode")
    f = m.method(q, "__lt__")
    hs = [h for t in walk_no_nested(f.node) if isinstance(t, ast.Try) for h in t.handlers
          if h.type is not None and "TypeError" in ast.unparse(h.type)]
    n = 0
    for h in hs:
        for r in ast.walk(h):
            if not (isinstance(r, ast.Return) and isinstance(r.value, ast.Compare)):
                continue
            n += 1
            sides = [r.value.left] + r.value.comparators
            names = [call_name(x) if isinstance(x, ast.Call) else None for x in sides]
            if all(nm in ("str", "repr", "format") for nm in names):
                ctx.violation("R08e", f.file, "LeafNode.__lt__", r, "TypeError fallback order",
                              f"`{norm(r, 60)}`: values that cannot be compared natively are ordered by their text, while values "
                              f"that can are ordered natively; the two orders disagree (9 < 100 but '100' < '50' < '9'), so the "
                              f"relation is not transitive and sorted() in DictNode.from_dict returns an input-dependent order: "
                              f"a YAML mapping with int and str keys gets a different cost and pairing after its keys are permuted")
                continue
            if len(set(names)) == 1 and names[0]:
                helper = m.method(q, names[0].rsplit(".", 1)[-1])
                if helper is not None:
                    rets = [x for x in walk_no_nested(helper.node) if isinstance(x, ast.Return)]
                    hp = func_params(helper.node)[-1]
                    split = [i for i in walk_no_nested(helper.node) if isinstance(i, ast.If) and isinstance(i.test, ast.BoolOp)]
                    numeric = [i for i in walk_no_nested(helper.node) if isinstance(i, ast.If) and isinstance(i.test, ast.Call)
                               and call_name(i.test) == "isinstance" and {"int", "float"} <= {dotted(e) for e in (
                                   i.test.args[1].elts if isinstance(i.test.args[1], ast.Tuple) else [i.test.args[1]])}]
                    if split or not numeric:
                        bad_ = (split or [helper.node])[0]
                        ctx.violation("R08e", f.file, helper.short, bad_, "rank classes follow native comparability",
                                      f"{helper.short} ranks by `{norm(bad_.test, 60) if split else 'separate int / float tests'}`: values that "
                                      f"compare natively (int, float and bool do: True < 2) must share one rank, because __lt__ tries the "
                                      f"native comparison first - otherwise True < 2 natively, 2 < 'a' and 'a' < True by rank, a cycle, and "
                                      f"sorted() in DictNode.from_dict depends on the written key order again")
                        continue
                    # bool is an int: a branch that singles booleans out before the numeric branch and ranks them elsewhere
                    # splits a natively comparable class just as separate int / float tests would
                    num_tag = next((x.value.elts[0].value for x in ast.walk(numeric[0]) if isinstance(x, ast.Return)
                                    and isinstance(x.value, ast.Tuple) and x.value.elts and isinstance(x.value.elts[0], ast.Constant)), None)
                    bool_br = [i for i in walk_no_nested(helper.node) if isinstance(i, ast.If) and isinstance(i.test, ast.Call)
                               and call_name(i.test) == "isinstance" and "bool" in {dotted(e) for e in (
                                   i.test.args[1].elts if isinstance(i.test.args[1], ast.Tuple) else [i.test.args[1]])}
                               and i.lineno < numeric[0].lineno]
                    bool_split = [i for i in bool_br if any(isinstance(x, ast.Return) and isinstance(x.value, ast.Tuple) and x.value.elts
                                                            and isinstance(x.value.elts[0], ast.Constant) and x.value.elts[0].value != num_tag
                                                            for b_ in i.body for x in ast.walk(b_))]
                    if bool_split:
                        ctx.violation("R08e", f.file, helper.short, bool_split[0], "rank classes follow native comparability",
                                      f"{helper.short} ranks booleans apart from numbers (`{norm(bool_split[0].test, 40)}` comes first): True < 2 "
                                      f"natively (LeafNode.__lt__ tries that first), 2 < 'a' and 'a' < True by rank - a cycle, so sorted() in "
                                      f"DictNode.from_dict orders a mapping with a boolean, a numeric and a string key by the order they "
                                      f"were written in")
                        continue
                    tagged = rets and all(isinstance(x.value, ast.Tuple) and x.value.elts and isinstance(x.value.elts[0], ast.Constant)
                                          and isinstance(x.value.elts[0].value, int) for x in rets)
                    tags = [x.value.elts[0].value for x in rets] if tagged else []
                    if tagged and len(set(tags)) == len(tags):
                        ctx.proved("R08e", f.file, "LeafNode.__lt__", r, "TypeError fallback order",
                                   f"falls back to {names[0]}(...), which returns kind-tagged tuples (tags {tags}): a total order")
                        continue
            ctx.inconclusive("R08e", f.file, "LeafNode.__lt__", r, "TypeError fallback order",
                             f"cannot tell whether `{norm(r, 60)}` is a total order")
    ctx.floor("R08e", n, 1, "TypeError fallbacks in LeafNode.__lt__")


def run(ctx):
    r08a(ctx)
    r08b(ctx)
    r08c(ctx)
    r08d(ctx)
    r08e(ctx)
    from ..oneshot import e11
    e11(ctx)          # candidate scans start afresh on every round (no one-shot iterator re-walked)
    from . import c02
    c02.r02b(ctx)     # swapping two unequal list elements costs something only if unequal leaves cost something
    from .c01 import r01c
    r01c(ctx)         # a comparison does not consume the members it matched: a tree compared twice equals its permuted copy both times
    from .c18 import r18a
    r18a(ctx)         # distinct keys stay distinct nodes (a bytes key stored as text collides with that text: last in source order wins)
    c02.r02f(ctx)
    c02.r02g(ctx)
    ctx.assume("tie-breaking among equal-cost assignments inside the third-party solver is not decided")
