"""C16 witness: keys that are ordered by `<` only (no value-based `==`), e.g. graphtage's own Edit objects.

Python's ordering protocol (sorted, heapq, min) needs `<` only.  HeapNode.__le__ however falls back on
`self.key == other.key`; for keys whose `==` is identity, two distinct keys of equal rank are neither `<` nor `==`,
the final loop of FibonacciHeap._consolidate then leaves `_min` on a node that has just been linked *below* another
root, and the next extraction throws the rest of the heap away.
"""
import signal
import sys

signal.alarm(60)  # some corrupted states loop forever

from graphtage.fibonacci import FibonacciHeap, MaxFibonacciHeap

problems = []


class Rank:
    """A key in the style of heapq / sorted(): only `<` (and `>` for the max-heap wrapper) is defined."""
    def __init__(self, v):
        self.v = v

    def __lt__(self, other):
        return self.v < other.v

    def __gt__(self, other):
        return self.v > other.v


def scenario(heap_cls, name, first, later, better):
    """push `first` three times, extract twice, push `later` (which is worse than `first`), extract once more"""
    heap = heap_cls(key=lambda item: Rank(item[0]))
    live = []
    for i in range(3):
        item = (first, i)
        heap.push(item)
        live.append(item)
    for _ in range(2):
        try:
            got = heap.pop()
        except Exception as e:
            problems.append(f"{name}: pop raised {type(e).__name__}: {e} with live items {live}")
            return
        if got not in live or got[0] != better(x[0] for x in live):
            problems.append(f"{name}: pop returned {got}, live items {live}")
            return
        live.remove(got)
    # one item with key `first` is still live
    if len(heap) != len(live):
        problems.append(f"{name}: len(heap) == {len(heap)}, live items {live}")
    try:
        top = heap.peek()
        if top not in live:
            problems.append(f"{name}: peek returned {top}, live items {live}")
    except Exception as e:
        problems.append(f"{name}: peek raised {type(e).__name__} ({e}) although {len(live)} item(s) are live: {live}")
    item = (later, 3)
    heap.push(item)
    live.append(item)
    if len(heap) != len(live):
        problems.append(f"{name}: after another push len(heap) == {len(heap)}, live items {live}")
    try:
        got = heap.pop()
        want = better(x[0] for x in live)
        if got[0] != want:
            problems.append(f"{name}: pop returned {got} although an item with key {want} is live: {live}")
    except Exception as e:
        problems.append(f"{name}: pop raised {type(e).__name__}: {e}")


scenario(FibonacciHeap, "min-heap, keys defining only <", 1, 5, min)
scenario(MaxFibonacciHeap, "max-heap, keys defining only <", 5, 1, max)

# The same with objects of the package itself: edits order by their bounds (AbstractEdit.__lt__) and are equal by
# identity only, so sorted(edits) works and a heap of edits does not.
try:
    from graphtage import IntegerNode
    from graphtage.edits import Match
    from graphtage.utils import smallest

    edits = [Match(IntegerNode(i), IntegerNode(i), 1) for i in range(4)]  # four edits of cost 1
    assert sorted(edits) == edits
    try:
        got = list(smallest(edits, n=3))
        if len(got) != 3:
            problems.append(f"smallest(<4 edits of equal cost>, n=3) yielded {len(got)} items")
    except Exception as e:
        problems.append(f"smallest(<4 edits of equal cost>, n=3) raised {type(e).__name__}: {e}")
    heap = FibonacciHeap()
    for e in edits:
        heap.push(e)
    n = 0
    try:
        while heap:
            heap.pop()
            n += 1
    except Exception as e:
        problems.append(f"heap of 4 equal-cost edits: pop number {n + 1} raised {type(e).__name__} while "
                        f"len(heap) == {len(heap)}")
except ImportError as e:
    print(f"(skipping the Edit scenario: {e})")

if problems:
    print("C16 VIOLATED")
    for p in problems:
        print("  " + p)
    sys.exit(1)
print("ok")
sys.exit(0)
