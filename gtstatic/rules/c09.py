"""C09 - the same data compares as equal regardless of input file format.

R09a single constructor: the JSON, JSON5, YAML and plist loaders all build through json.build_tree and hand it the
caller's options on every path; R09b format-neutral root: what each loader returns is a node json.build_tree can
return (or treats those symmetrically on both sides); R09c presentation flags that loaders set after construction
(quoted) are read by no equality, hash, size or cost code; R09d the CLI selects each file's loader from that file's
own options (R14a).
"""
import ast

from ..astx import walk_no_nested, dotted, call_name, self_attr, func_params, parent, dominating_conditions
from ..core import norm, Inconclusive

SHARED = "graphtage.json.build_tree"
FORMATS = {"json": "JSON", "json5": "JSON5", "yaml": "YAML", "plist": "PLIST"}
TREE = "graphtage.tree.TreeNode"


def loader_chain(m, f, depth=0, seen=None):
    """Functions a Filetype.build_tree delegates to (project functions only), in call order."""
    seen = seen if seen is not None else []
    if f.qual in [x.qual for x in seen] or depth > 3:
        return seen
    seen.append(f)
    for c in walk_no_nested(f.node):
        if isinstance(c, ast.Call):
            r = m.resolve_expr(f.module, c.func)
            if r and r[0] and r[0][0] == "func" and r[0][1] in m.functions and r[0][1] != SHARED:
                loader_chain(m, m.functions[r[0][1]], depth + 1, seen)
    return seen


def json_return_classes(m):
    f = m.func(SHARED)
    out = set()
    for r in walk_no_nested(f.node):
        if isinstance(r, ast.Return) and isinstance(r.value, ast.Call):
            nm = (call_name(r.value) or "").split(".")[0]
            q = m.find_class(nm)
            if q:
                out.add(q)
        elif isinstance(r, ast.Return) and isinstance(r.value, ast.Name):
            out.add(m.find_class("DictNode"))
    return {q for q in out if q}


def r09a(ctx):
    m = ctx.model
    ctx.rule("R09a", "single constructor: every one of the JSON/JSON5/YAML/plist loaders reaches json.build_tree, and every "
                     "call of json.build_tree on a loader path passes the caller's options")
    fts = m.filetypes()
    n = 0
    for q, info in sorted(fts.items()):
        if info["name"] not in FORMATS:
            continue
        bt = m.method(q, "build_tree")
        chain = loader_chain(m, bt)
        calls = []
        for f in chain:
            for c in walk_no_nested(f.node):
                if isinstance(c, ast.Call):
                    r = m.resolve_expr(f.module, c.func)
                    if r and r[0] and r[0][0] == "func" and r[0][1] == SHARED:
                        calls.append((f, c))
        short = q.rsplit(".", 1)[-1]
        if not calls:
            ctx.violation("R09a", bt.file, f"{short}.build_tree", bt.node, f"{info['name']} uses json.build_tree",
                          f"the {info['name']} loader does not build its tree through json.build_tree: the same data loaded "
                          f"from this format gets different node classes and compares unequal")
            continue
        for f, c in calls:
            n += 1
            opt = [k.value for k in c.keywords if k.arg == "options"] + ([c.args[1]] if len(c.args) > 1 else [])
            ok = bool(opt) and dotted(opt[0]) in ("options", "self.options")
            if ok:
                ctx.proved("R09a", f.file, f.short, c, f"{info['name']}: options passed", f"`{norm(c, 60)}` hands on the caller's options")
            else:
                ctx.violation("R09a", f.file, f.short, c, f"{info['name']}: options passed",
                              f"`{norm(c, 70)}` on the {info['name']} loading path builds the tree without the caller's "
                              f"options: under -k/-l/--dict-strategy this format yields different node classes than the others, "
                              f"so equal data compares unequal (or at a different cost)")
    ctx.floor("R09a", n, 4, "json.build_tree calls on loader paths")
    # the options object is the caller's: no loader substitutes defaults of its own (json.build_tree supplies the one
    # shared default, BuildOptions() without arguments)
    seen = set()
    for q, info in sorted(fts.items()):
        if info["name"] not in FORMATS:
            continue
        for f in loader_chain(m, m.method(q, "build_tree")) + [m.func(SHARED)]:
            if f.qual in seen or "options" not in func_params(f.node):
                continue
            seen.add(f.qual)
            for a in walk_no_nested(f.node):
                tgts = a.targets if isinstance(a, ast.Assign) else ([a.target] if isinstance(a, (ast.AnnAssign, ast.AugAssign)) else [])
                if any(isinstance(t, ast.Name) and t.id == "options" for t in tgts):
                    v = a.value
                    plain = f.qual == SHARED and isinstance(v, ast.Call) and (call_name(v) or "").endswith("BuildOptions") and not v.args and not v.keywords
                    if plain:
                        ctx.proved("R09a", f.file, f.short, a, "shared default options", "json.build_tree supplies BuildOptions() when none are given")
                    else:
                        ctx.violation("R09a", f.file, f.short, a, "loader substitutes its own options",
                                      f"`{norm(a, 70)}` in {f.short} replaces the caller's options (or None) by a loader-specific value: this "
                                      f"format then builds different node classes than the others for the same call, so the same data "
                                      f"costs differently depending on its source format (a renamed key: 118 from plist, 4 from json)")


def r09b(ctx):
    m = ctx.model
    ctx.rule("R09b", "format-neutral root: each loader returns a node class that json.build_tree itself can return; a wrapper "
                     "class must define equality and must diff against plain nodes symmetrically from both sides")
    neutral = json_return_classes(m)
    fts = m.filetypes()
    for q, info in sorted(fts.items()):
        if info["name"] not in FORMATS:
            continue
        bt = m.method(q, "build_tree")
        short = q.rsplit(".", 1)[-1]
        chain = loader_chain(m, bt)
        wrappers = []
        for f in chain:
            for r in walk_no_nested(f.node):
                if isinstance(r, ast.Return) and isinstance(r.value, ast.Call):
                    k = m.resolve_class(f.module, r.value.func)
                    if k and m.is_subclass(k, TREE) and k not in neutral:
                        wrappers.append((f, r, k))
        if not wrappers:
            ctx.proved("R09b", bt.file, f"{short}.build_tree", bt.node, f"{info['name']} root",
                       "the loader returns what json.build_tree built")
            continue
        for f, r, k in wrappers:
            ks = k.rsplit(".", 1)[-1]
            has_eq = "__eq__" in m.attrs[k]
            ed = m.method(k, "edits")
            sym = False
            if ed is not None:
                # symmetric: when the other side is a plain node, the wrapper unwraps itself (ok) - but a plain node on the
                # FROM side must also unwrap a wrapper on the TO side; that logic can only live in the wrapper's __eq__ /
                # in the plain classes, so require both __eq__ and an unwrapping branch in every neutral class (absent today)
                sym = False
            if has_eq and sym:
                ctx.proved("R09b", f.file, f.short, r, f"{info['name']} root {ks}", f"{ks} is compared symmetrically")
            else:
                why = []
                if not has_eq:
                    why.append(f"{ks} defines no __eq__ (two loads of the same data are unequal, and it never equals the plain tree another format yields)")
                why.append(f"{ks}.edits unwraps itself only as the FROM side; a plain tree diffed against a {ks} sees a foreign class and is replaced wholesale")
                ctx.violation("R09b", f.file, f.short, r, f"{info['name']} root {ks}",
                              f"the {info['name']} loader wraps the tree in {ks}, which json.build_tree never returns: " + "; ".join(why))


def r09c(ctx):
    m = ctx.model
    ctx.rule("R09c", "presentation flags a loader sets on nodes after construction (e.g. quoted) are read by no equality, "
                     "hash, size or cost computation: otherwise the same data costs differently depending on its source format")
    fts = m.filetypes()
    flags = {}
    for q, info in fts.items():
        bt = m.method(q, "build_tree")
        for f in loader_chain(m, bt):
            for s in walk_no_nested(f.node):
                if isinstance(s, ast.Assign) and isinstance(s.targets[0], ast.Attribute) and not self_attr(s.targets[0]) \
                        and isinstance(s.value, ast.Constant):
                    flags.setdefault(s.targets[0].attr, []).append((f, s))
    flags.pop("auto_match_keys", None)    # a build option, set identically by every loader (R10a)
    if not flags:
        ctx.proved("R09c", "-", "-", None, "no post-construction flags", "loaders set no per-format flags", nontrivial=False)
        return
    comparison = ("edits", "__eq__", "__hash__", "__lt__", "calculate_total_size", "total_size")
    readers = []
    comparison_reads = {}          # attribute name -> first read in equality / size / cost code
    for q in sorted(m.subclasses(TREE)):
        own = {k: v[1] for k, v in m.attrs[q].items() if v[0] == "def"}
        work = [own[n] for n in comparison if n in own]
        seen = set()
        while work:
            f = work.pop()
            if f.qual in seen:
                continue
            seen.add(f.qual)
            for x in walk_no_nested(f.node):
                if isinstance(x, ast.Attribute) and isinstance(x.ctx, ast.Load) and x.attr in flags:
                    readers.append((f, x))
                # `getattr(self, 'quoted', False)`, `vars(self).get('quoted')`, `self.__dict__['quoted']`: the flag read by name
                if isinstance(x, ast.Constant) and isinstance(x.value, str) and x.value in flags:
                    par_ = getattr(x, "_parent", None)
                    if isinstance(par_, (ast.Call, ast.Subscript)):
                        fake = ast.Attribute(value=ast.Name(id="self", ctx=ast.Load()), attr=x.value, ctx=ast.Load())
                        ast.copy_location(fake, x)
                        fake.value.lineno, fake.value.col_offset = x.lineno, x.col_offset
                        readers.append((f, fake))
                for a_ in ([x] if isinstance(x, ast.Attribute) and isinstance(x.ctx, ast.Load) else []):
                    comparison_reads.setdefault(a_.attr, (f, a_))
                if isinstance(x, ast.Call) and isinstance(x.func, ast.Attribute) and x.func.attr not in comparison:
                    # helper methods of node classes reached from comparison code (self.helper(), node.helper())
                    for k in m.subclasses(TREE):
                        if x.func.attr in m.attrs[k] and m.attrs[k][x.func.attr][0] == "def":
                            work.append(m.attrs[k][x.func.attr][1])
    # a flag implemented as a property: what its setter stores besides the backing field is set by the loaders too
    for flag in sorted(flags):
        for q in sorted(m.subclasses(TREE)):
            cnode = m.classes[q][1]
            defs = [d for d in cnode.body if isinstance(d, ast.FunctionDef) and d.name == flag]
            setter = next((d for d in defs if any(isinstance(x, ast.Attribute) and x.attr == "setter" for x in d.decorator_list)), None)
            getter = next((d for d in defs if d is not setter), None)
            if setter is None:
                continue
            backing = {self_attr(r.value) for r in walk_no_nested(getter) if isinstance(r, ast.Return) and r.value is not None} if getter else set()
            for st in walk_no_nested(setter):
                if isinstance(st, ast.Attribute) and isinstance(st.ctx, ast.Store) and self_attr(st) and self_attr(st) not in backing \
                        and self_attr(st) in comparison_reads:
                    fr, xr = comparison_reads[self_attr(st)]
                    fake = ast.Attribute(value=ast.Name(id="self", ctx=ast.Load()), attr=flag, ctx=ast.Load())
                    ast.copy_location(fake, st)
                    readers.append((m.functions.get(f"{q}.{flag}") or fr, fake))
                    ctx.note(f"R09c: the setter of `{flag}` in {q.rsplit('.', 1)[-1]} stores self.{self_attr(st)}, which {fr.short} reads")
            for b_ in backing - {None}:
                if b_ in comparison_reads:
                    fr, xr = comparison_reads[b_]
                    fake = ast.Attribute(value=ast.Name(id="self", ctx=ast.Load()), attr=flag, ctx=ast.Load())
                    ast.copy_location(fake, xr)
                    readers.append((fr, fake))
    n = 0
    for flag, sites in sorted(flags.items()):
        n += 1
        rs = [(f, x) for f, x in readers if x.attr == flag]
        setters = sorted({f.short for f, _ in sites})
        if rs:
            f, x = rs[0]
            ctx.violation("R09c", f.file, f.short, x, f"flag {flag} read by comparison code",
                          f"`{norm(x)}` is read in {f.short}, which equality / size / cost computation reaches, but `{flag}` is "
                          f"a presentation flag that only some loaders change after building ({', '.join(setters)}): the same "
                          f"data costs differently (or compares unequal) depending on the format it was loaded from")
        else:
            ctx.proved("R09c", sites[0][0].file, sites[0][0].short, sites[0][1], f"flag {flag} presentation only",
                       f"`{flag}` (set by {', '.join(setters)}) is read by no equality, hash, size or edits code")
    ctx.floor("R09c", n, 1, "per-format flags")


PARSE_NAMES = {"load", "loads", "load_all", "safe_load", "safe_load_all", "full_load"}


def _truth_tested(fn):
    """Expressions whose truth value (rather than whose value) decides something in fn."""
    out = []

    def visit(e, tested):
        if isinstance(e, ast.BoolOp):
            for i, v in enumerate(e.values):
                visit(v, tested or i < len(e.values) - 1)
        elif isinstance(e, ast.UnaryOp) and isinstance(e.op, ast.Not):
            visit(e.operand, True)
        elif isinstance(e, ast.IfExp):
            visit(e.test, True)
            visit(e.body, tested)
            visit(e.orelse, tested)
        elif tested:
            out.append(e)
    for n in walk_no_nested(fn):
        if isinstance(n, (ast.If, ast.While)):
            visit(n.test, True)
        elif isinstance(n, ast.comprehension):
            for c in n.ifs:
                visit(c, True)
        elif isinstance(n, (ast.BoolOp, ast.IfExp)) and not isinstance(parent(n), (ast.BoolOp, ast.IfExp, ast.If, ast.While)) \
                and not (isinstance(parent(n), ast.UnaryOp)):
            visit(n, False)
    return out


def r09e(ctx):
    m = ctx.model
    ctx.rule("R09e", "loaders do not branch on the truth value of document content: what a third-party parser returned for a "
                     "document (the value of load(...), an element of load_all(...)) reaches json.build_tree unchanged; only "
                     "counts (len), identity (is None) and types may be tested - `doc or None`, `docs and docs[0] or X`, "
                     "`if not doc` turn [], {}, 0, false and '' into something else for one format only")
    fts = m.filetypes()
    n = 0
    done = set()
    for q, info in sorted(fts.items()):
        if info["name"] not in FORMATS:
            continue
        queue = [(f_, {}) for f_ in loader_chain(m, m.method(q, "build_tree"))]
        while queue:
            f, seed_binds = queue.pop(0)
            if (f.qual, tuple(sorted(seed_binds))) in done:
                continue
            done.add((f.qual, tuple(sorted(seed_binds))))
            # name -> [(line of the binding, kind)]; a name may be re-bound (`docs = docs[0]`), so what it holds at a use is
            # the union over the bindings above that use, and "may be a document" is what matters for a truth test
            binds = {k_: [(0, v_)] for k_, v_ in seed_binds.items()}

            def kind_of_name(name, line):
                ks = {k for ln, k in binds.get(name, ()) if ln < line}
                return "DOC" if "DOC" in ks else ("DOCS" if "DOCS" in ks else None)

            def classify(e, line=None):
                line = line if line is not None else getattr(e, "lineno", 10 ** 9)
                if isinstance(e, ast.Call):
                    nm = (call_name(e) or "").rsplit(".", 1)[-1]
                    r = m.resolve_expr(f.module, e.func)
                    ext = bool(r and r[0] and r[0][0] == "ext")
                    if ext and nm in PARSE_NAMES:
                        return "DOCS" if nm.endswith("_all") else "DOC"
                    if nm in ("list", "tuple", "iter") and len(e.args) == 1 and classify(e.args[0], line) == "DOCS":
                        return "DOCS"
                    if nm == "next" and e.args and classify(e.args[0], line) == "DOCS":
                        return "DOC"
                    return None
                if isinstance(e, ast.Name):
                    return kind_of_name(e.id, line)
                if isinstance(e, (ast.ListComp, ast.GeneratorExp)) and len(e.generators) == 1 and classify(e.generators[0].iter, line) == "DOCS" \
                        and isinstance(e.generators[0].target, ast.Name) and dotted(e.elt) == e.generators[0].target.id:
                    return "DOCS"       # a (possibly filtered) copy of the documents
                if isinstance(e, ast.Subscript) and classify(e.value, line) == "DOCS":
                    return "DOCS" if isinstance(e.slice, ast.Slice) else "DOC"
                if isinstance(e, ast.IfExp):
                    ks = {classify(e.body, line), classify(e.orelse, line)}
                    return "DOC" if "DOC" in ks else ("DOCS" if "DOCS" in ks else None)     # may be a document
                if isinstance(e, ast.BoolOp):
                    ks = {classify(v, line) for v in e.values}
                    return "DOC" if "DOC" in ks else ("DOCS" if "DOCS" in ks else None)
                return None
            stmts = sorted([a for a in walk_no_nested(f.node) if isinstance(a, (ast.Assign, ast.AnnAssign, ast.For, ast.comprehension))],
                           key=lambda a: (getattr(a, "lineno", None) or getattr(a.target, "lineno", 0)))
            for _ in range(2):
                for a in stmts:
                    if isinstance(a, (ast.Assign, ast.AnnAssign)) and a.value is not None:
                        t = a.targets[0] if isinstance(a, ast.Assign) else a.target
                        k = classify(a.value, a.lineno)
                        if isinstance(t, ast.Name) and k and (a.lineno, k) not in binds.setdefault(t.id, []):
                            binds[t.id].append((a.lineno, k))
                    elif isinstance(a, (ast.For, ast.comprehension)) and isinstance(a.target, ast.Name):
                        ln = getattr(a, "lineno", None) or a.target.lineno
                        if classify(a.iter, ln + 1 if isinstance(a, ast.comprehension) else ln) == "DOCS" and (ln - 1, "DOC") not in binds.setdefault(a.target.id, []):
                            binds[a.target.id].append((ln - 1, "DOC"))       # loop and comprehension variables alike
            parses = [c for c in walk_no_nested(f.node) if isinstance(c, ast.Call) and classify(c) in ("DOC", "DOCS")
                      and (call_name(c) or "").rsplit(".", 1)[-1] in PARSE_NAMES]
            # module-level helpers that are handed a document (or the documents): judged with that parameter bound
            for c in walk_no_nested(f.node):
                if isinstance(c, ast.Call) and isinstance(c.func, ast.Name):
                    r_ = m.resolve_expr(f.module, c.func)
                    h_ = m.functions.get(r_[0][1]) if r_ and r_[0] and r_[0][0] == "func" else None
                    if h_ is None or h_.node is f.node or h_.node.name == "build_tree":
                        continue
                    hp = func_params(h_.node)
                    sb = {hp[i_]: classify(a_) for i_, a_ in enumerate(c.args) if i_ < len(hp) and classify(a_)}
                    if sb:
                        queue.append((h_, sb))
            if not parses and not seed_binds:
                continue
            n += len(parses)
            bad = [e for e in _truth_tested(f.node) if classify(e) == "DOC"]
            # any(docs) / all(docs) (or over a generator that yields the documents) ask for their truth values
            for c in walk_no_nested(f.node):
                if isinstance(c, ast.Call) and call_name(c) in ("any", "all") and len(c.args) == 1:
                    a_ = c.args[0]
                    if classify(a_) == "DOCS" or (isinstance(a_, (ast.GeneratorExp, ast.ListComp)) and len(a_.generators) == 1
                                                  and classify(a_.generators[0].iter) == "DOCS" and isinstance(a_.generators[0].target, ast.Name)
                                                  and (dotted(a_.elt) == a_.generators[0].target.id
                                                       or (isinstance(a_.elt, ast.UnaryOp) and isinstance(a_.elt.op, ast.Not) and dotted(a_.elt.operand) == a_.generators[0].target.id)
                                                       or (isinstance(a_.elt, ast.Call) and call_name(a_.elt) == "bool"))):
                        bad.append(c)
            # filter(None, docs) / filter(bool, docs) drop the falsy documents just the same
            bad += [c for c in walk_no_nested(f.node) if isinstance(c, ast.Call) and call_name(c) == "filter" and len(c.args) == 2
                    and classify(c.args[1]) == "DOCS" and (dotted(c.args[0]) == "bool" or (isinstance(c.args[0], ast.Constant) and c.args[0].value is None))]
            if bad:
                for e in bad:
                    ctx.violation("R09e", f.file, f.short, e, f"truth value of document `{norm(e, 30)}`",
                                  f"`{norm(e, 40)}` is a parsed document and its truth value steers the loader "
                                  f"(`{norm(parent(e), 70)}`): a falsy document ([], {{}}, 0, false, '') is replaced or routed "
                                  f"differently in the {info['name']} loader only, so the same data loaded from another format "
                                  f"builds a different tree")
            elif parses:
                ctx.proved("R09e", f.file, f.short, parses[0], "documents reach json.build_tree untested",
                           f"{len(parses)} parser call(s); no parsed document is used for its truth value")
    ctx.floor("R09e", n, 4, "third-party parser calls on loader paths")


def r09f(ctx):
    m = ctx.model
    ctx.rule("R09f", "sibling loaders read bytes the same way: every open() of the input file on a JSON/JSON5/YAML/plist loading "
                     "path uses binary mode, so the text encoding is decided by the parser from the bytes, not by the locale for "
                     "some formats only (the same UTF-8 data would load from one format and fail, or be mis-decoded, from another)")
    fts = m.filetypes()
    n = 0
    modes = {}
    for q, info in sorted(fts.items()):
        if info["name"] not in FORMATS:
            continue
        for f in loader_chain(m, m.method(q, "build_tree")):
            for c in walk_no_nested(f.node):
                if isinstance(c, ast.Call) and call_name(c) == "open" and c.args:
                    mode = c.args[1] if len(c.args) > 1 else next((k.value for k in c.keywords if k.arg == "mode"), None)
                    mv = mode.value if isinstance(mode, ast.Constant) else ("r" if mode is None else None)
                    modes[(info["name"], f.qual)] = (f, c, mv)
    n = len(modes)
    binary = [k for k, v in modes.items() if v[2] is not None and "b" in v[2]]
    for (fmt, fq), (f, c, mv) in sorted(modes.items()):
        if mv is None:
            ctx.inconclusive("R09f", f.file, f.short, c, f"{fmt} open mode", "open() mode is not a constant")
        elif "b" in mv:
            ctx.proved("R09f", f.file, f.short, c, f"{fmt} open mode", f"binary (`{norm(c, 40)}`)")
        else:
            others = sorted({k[0] for k in binary})
            ctx.violation("R09f", f.file, f.short, c, f"{fmt} open mode",
                          f"the {fmt} loader opens its file with `{norm(c, 40)}` (text mode: decoded with the locale's encoding) while "
                          f"the {', '.join(others)} loader(s) read bytes: under LC_ALL=C the same UTF-8 data loads from {others[0] if others else 'another format'} "
                          f"but fails to decode from {fmt}, and a byte order mark is an error for {fmt} only")
    ctx.floor("R09f", n, 4, "open() calls on loader paths")


def r09g(ctx):
    m = ctx.model
    ctx.rule("R09g", "comparing two loads of the same data terminates in practice: mappings keep their pairs in a Counter subclass "
                     "keyed by the pair nodes, and nodes compare structurally.  collections.Counter.__eq__ (Python >= 3.10) looks "
                     "every key of both operands up in both operands; each lookup compares equal-hash keys with ==, which descends "
                     "into the nested mapping and does the same again - two recursive comparisons per level, 2^depth in all (40 "
                     "nested dictionaries never finish).  The Counter subclass that holds nodes must define its own __eq__")
    q = m.find_class("HashableCounter")
    if q is None:
        ctx.inconclusive("R09g", "graphtage/utils.py", "HashableCounter", None, "node container", "HashableCounter not found")
        return
    mod, cnode = m.classes[q]
    bases = " ".join(ast.unparse(b) for b in cnode.bases)
    if "Counter" not in bases:
        ctx.proved("R09g", m.files[mod], "HashableCounter", cnode, "HashableCounter.__eq__", "not a collections.Counter any more", nontrivial=False)
        return
    eq = m.attrs[q].get("__eq__")
    ctx.floor("R09g", 1, 1, "Counter subclasses holding nodes")
    if eq and eq[0] == "def":
        txt = ast.unparse(eq[1].node)
        if "super().__eq__" in txt or "Counter.__eq__" in txt:
            ctx.violation("R09g", m.files[mod], "HashableCounter.__eq__", eq[1].node, "HashableCounter.__eq__",
                          "HashableCounter.__eq__ delegates to Counter.__eq__, which looks every key up in both operands")
        else:
            ctx.proved("R09g", m.files[mod], "HashableCounter.__eq__", eq[1].node, "HashableCounter.__eq__",
                       "own equality (one lookup per key), not Counter's two-sided lookup")
    else:
        ctx.violation("R09g", m.files[mod], "HashableCounter", cnode, "HashableCounter.__eq__",
                      "HashableCounter inherits Counter.__eq__: `all(self[e] == other[e] for c in (self, other) for e in c)` - for mappings "
                      "whose values are mappings every lookup re-compares the nested mapping, so comparing two equal documents with d "
                      "nested dictionaries takes about 2^d steps (0.4 s at 16 levels, 6 s at 20, hours at 30): `graphtage doc.json doc.yaml` "
                      "does not return, although the same data loaded twice must compare equal and exit 0")


def run(ctx):
    r09g(ctx)
    r09a(ctx)
    from ..pairing import e12
    e12(ctx)          # ancestor sets of recursive builders are unwound on every exit
    r09e(ctx)
    r09f(ctx)
    r09b(ctx)
    r09c(ctx)
    from . import c14
    from .. import cli
    f, specs, groups = cli.parse_cli(ctx.model)
    c14.r14a(ctx, f)
    ctx.assume("how third-party parsers map the same data (numbers, dates, key order) is not analysed")
