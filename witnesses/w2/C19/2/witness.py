"""C19 witness 2: Operator.FUNCTION_CALL is `lambda a, b: a(*b)` and nothing guarantees that b is the argument tuple.
Because '[' and '.' bind tighter than the call, `x(1)[0]` is evaluated as x(*((1,)[0])) == x(*1); CPython then
builds "… argument after * must be an iterable" with _PyObject_FunctionStr(x), which does getattr(x, '__qualname__')
(and getattr(x, '__module__') when the former exists) through the object's own __getattribute__."""
import sys
from graphtage.expressions import parse

READS = []


class Trip:
    def __init__(self):
        object.__setattr__(self, '_secret', 42)

    def __getattribute__(self, name):
        if name.startswith('_'):
            READS.append(name)
        return object.__getattribute__(self, name)

    def __call__(self, *args):
        return 1


class Named(Trip):
    """has a __qualname__ of its own, so __module__ is fetched as well and both end up in the error message"""
    def __init__(self):
        super().__init__()
        object.__setattr__(self, '__qualname__', 'PRIVATE-QUALNAME')
        object.__setattr__(self, '__module__', 'PRIVATE-MODULE')


bad = []
for expr, obj in (('x(1)[0]', Trip()), ('x(1).real', Trip()), ('x(x)[0]', Trip()), ('x(1)[0]', Named())):
    READS.clear()
    msg = ''
    try:
        parse(expr).eval(locals={'x': obj})
    except Exception as e:
        msg = str(e)
    reads = [r for r in READS if r != '__class__']  # __class__ is witness 1
    if reads:
        bad.append((expr, reads, msg))

if bad:
    for expr, reads, msg in bad:
        print(f"VIOLATION: evaluating {expr!r} read {reads} of the environment object; error text: {msg[:90]!r}")
    sys.exit(1)
print("ok: no underscore attribute was read")
sys.exit(0)
