"""C09 witness 2: identical data consisting of dictionaries nested 40 deep, stored as JSON and as YAML.  With the default
build options neither `json_tree == yaml_tree` nor `json_tree.edits(yaml_tree)` nor `graphtage doc.json doc.yaml` comes back
(time doubles per level: ~6 s at depth 20, hours at depth 30), while --no-key-edits answers in milliseconds."""
import json
import os
import subprocess
import sys
import tempfile
import time

import yaml

DEPTH = 40
TIMEOUT = 45  # seconds per probe; a repaired package needs a few milliseconds

CHILD = r'''
import sys, io, contextlib
from graphtage import json as gjson, yaml as gyaml
from graphtage.graphtage import BuildOptions
import graphtage.printer
graphtage.printer.DEFAULT_PRINTER.quiet = True
mode, key_edits, a, b = sys.argv[1], sys.argv[2] == "1", sys.argv[3], sys.argv[4]
if mode == "cli":
    from graphtage.__main__ import main
    out = io.StringIO()
    with contextlib.redirect_stdout(out):
        rc = main(["graphtage", "--no-status", "--no-color", a, b] + ([] if key_edits else ["-k"]))
    sys.exit(rc)
opts = BuildOptions(allow_key_edits=key_edits, auto_match_keys=key_edits)
ta = gjson.JSON.default_instance.build_tree(a, opts)
tb = gyaml.YAML.default_instance.build_tree(b, opts)
if mode == "eq":
    sys.exit(0 if (ta == tb and tb == ta) else 3)
e = ta.edits(tb)
while e.tighten_bounds():
    pass
sys.exit(0 if e.bounds().upper_bound == 0 else 4)
'''


def nested(n):
    d = {"leaf": 1}
    for _ in range(n):
        d = {"a": d, "b": 0}
    return d


def probe(mode, key_edits, a, b):
    start = time.time()
    try:
        r = subprocess.run([sys.executable, "-c", CHILD, mode, "1" if key_edits else "0", a, b],
                           timeout=TIMEOUT, stdout=subprocess.DEVNULL, stderr=subprocess.DEVNULL)
        return r.returncode, time.time() - start
    except subprocess.TimeoutExpired:
        return "timeout", time.time() - start


def main_():
    data = nested(DEPTH)
    d = tempfile.mkdtemp(prefix="c09w2_")
    a, b = os.path.join(d, "doc.json"), os.path.join(d, "doc.yaml")
    with open(a, "w") as f:
        json.dump(data, f)
    with open(b, "w") as f:
        yaml.dump(data, f)
    # control: with fixed keys (-k) the very same comparison is immediate and correct
    for mode in ("eq", "cost", "cli"):
        rc, secs = probe(mode, False, a, b)
        if rc != 0:
            print(f"unexpected: control probe {mode} with --no-key-edits gave {rc!r} after {secs:.1f}s; witness inconclusive")
            return 0
    problems = []
    for mode, what in (("eq", "json_tree == yaml_tree"), ("cost", "json_tree.edits(yaml_tree) fully tightened"),
                       ("cli", "graphtage doc.json doc.yaml")):
        rc, secs = probe(mode, True, a, b)
        if rc != 0:
            problems.append(f"{what}: {rc!r} after {secs:.1f}s (expected: True / cost 0 / exit status 0, immediately)")
    if problems:
        print(f"VIOLATION: equal documents ({DEPTH} nested dicts) loaded from JSON and YAML do not compare as equal in finite time")
        for p in problems:
            print("  " + p)
        return 1
    print("ok")
    return 0


if __name__ == "__main__":
    sys.exit(main_())
