"""Whole-program call graph with rapid type analysis (RTA) over the static model.

Over-approximate by construction: unknown receivers fall back to every project method of that name whose class is
(or has a subclass that is) instantiated in reachable code; dunder methods and properties of instantiated classes
are reachable as soon as the class is.  Used for reachability filters (dead code exemptions, who-may-call rules).
"""
import ast

from .astx import dotted

PKG = "graphtage"


class CallGraph:
    def __init__(self, model, dead_calls=()):
        self.m = model
        self.dead = set(id(c) for c in dead_calls)
        self._attr_types = {}
        self.by_name = {}
        for f in model.functions.values():
            if f.cls and f.qual == f"{f.cls}.{f.node.name}":
                self.by_name.setdefault(f.node.name, []).append(f)
        self.props = {}
        for f in model.functions.values():
            if f.cls and any(dotted(d) in ("property", "cached_property") or
                             (isinstance(d, ast.Attribute) and d.attr in ("setter", "getter"))
                             for d in f.node.decorator_list):
                self.props.setdefault(f.node.name, []).append(f)
        self._edges = {}
        self.resolved = 0
        self.unresolved = 0

    # -------------------------------------------------------------- helpers
    def _cls_live(self, q, inst):
        """A method defined in q can run if q or any subclass is instantiated."""
        return any(k in inst for k in self._subs(q))

    def _subs(self, q):
        c = getattr(self, "_subcache", None)
        if c is None:
            c = self._subcache = {}
        if q not in c:
            c[q] = self.m.subclasses(q)
        return c[q]

    def attr_type(self, q, attr):
        """Project class an instance attribute is annotated with (`self.attr: T = ...`), or None."""
        key = (q, attr)
        if key in self._attr_types:
            return self._attr_types[key]
        res = None

        def unwrap(ann, mod):
            for _ in range(4):
                if isinstance(ann, ast.Constant) and isinstance(ann.value, str):
                    try:
                        ann = ast.parse(ann.value, mode="eval").body
                    except SyntaxError:
                        return None
                elif isinstance(ann, ast.Subscript) and dotted(ann.value) in ("Optional", "typing.Optional"):
                    ann = ann.slice
                elif isinstance(ann, ast.Subscript):
                    ann = ann.value
                else:
                    break
            return self.m.resolve_class(mod, ann)
        for k in self.m.c3(q):
            mod, c = self.m.classes[k]
            for n in c.body:
                if isinstance(n, ast.AnnAssign) and isinstance(n.target, ast.Name) and n.target.id == attr:
                    res = unwrap(n.annotation, mod)
            if res:
                break
            for n in ast.walk(c):
                if isinstance(n, ast.AnnAssign) and isinstance(n.target, ast.Attribute) and n.target.attr == attr \
                        and isinstance(n.target.value, ast.Name) and n.target.value.id == "self":
                    res = unwrap(n.annotation, mod)
                    if res:
                        break
            if res:
                break
        self._attr_types[key] = res
        return res

    def _ctor_targets(self, q):
        out = []
        for name in ("__init__", "__new__", "__post_init__"):
            f = self.m.method(q, name)
            if f is not None:
                out.append(f)
        return out

    def scan(self, f):
        """Syntactic facts of one function: (self_calls, super_calls, name_refs, dotted_calls, attr_calls, attr_loads)."""
        if f.qual in self._edges:
            return self._edges[f.qual]
        selfc, superc, names, dots, attrs, loads = set(), set(), set(), [], set(), set()
        called_attr_nodes = set()
        for n in (module_level_nodes(f.node) if isinstance(f.node, ast.Module) else code_nodes(f.node)):
            if isinstance(n, ast.Call):
                if id(n) in self.dead:
                    called_attr_nodes.add(id(n.func))
                    continue
                fn = n.func
                if isinstance(fn, ast.Attribute):
                    called_attr_nodes.add(id(fn))
                    v = fn.value
                    if isinstance(v, ast.Name) and v.id in ("self", "cls"):
                        selfc.add(fn.attr)
                    elif isinstance(v, ast.Call) and isinstance(v.func, ast.Name) and v.func.id == "super":
                        superc.add(fn.attr)
                    else:
                        d = dotted(fn)
                        if d:
                            dots.append((d, fn))
                        nargs = len(n.args) if not any(isinstance(a, ast.Starred) for a in n.args) else None
                        nkw = None if any(k.arg is None for k in n.keywords) else tuple(k.arg for k in n.keywords)
                        typed = None
                        if f.cls and isinstance(v, ast.Attribute) and isinstance(v.value, ast.Name) and v.value.id == "self":
                            typed = self.attr_type(f.cls, v.attr)
                        attrs.add((fn.attr, nargs, nkw, typed))
            elif isinstance(n, ast.Name) and isinstance(n.ctx, ast.Load):
                names.add(n.id)
            elif isinstance(n, ast.Attribute) and isinstance(n.ctx, ast.Load):
                if id(n) not in called_attr_nodes:
                    loads.add(n.attr)
                d = dotted(n)
                if d:
                    dots.append((d, n))
        r = (selfc, superc, names, dots, attrs, loads)
        self._edges[f.qual] = r
        return r

    def callees(self, f, inst):
        """(set of FuncInfo, set of newly instantiated classes) for function f given instantiated classes inst."""
        m = self.m
        selfc, superc, names, dots, attrs, loads = self.scan(f)
        out, new = set(), set()
        if f.cls:
            fam = [k for k in self._subs(f.cls)]
            for name in selfc:
                hit = False
                for k in fam:
                    if k in inst or not inst:
                        t = m.method(k, name)
                        if t is not None:
                            out.add(t)
                            hit = True
                t = m.method(f.cls, name)
                if t is not None:
                    out.add(t)
                    hit = True
                self.resolved += hit
            for name in superc:
                anc = set()
                for k in fam:
                    anc.update(m.c3(k))
                for a in anc:
                    if a != f.cls and name in m.attrs[a] and m.attrs[a][name][0] == "def":
                        out.add(m.attrs[a][name][1])
        for nm in names:
            r = m.lookup(f.module, nm)
            if not r:
                continue
            if r[0] == "assign":
                rr = m.resolve_expr(r[2], r[1])
                r = rr[0] if rr else None
                if not r:
                    continue
            if r[0] == "class" and r[1] in m.classes:
                new.add(r[1])
                out.update(self._ctor_targets(r[1]))
            elif r[0] == "func" and r[1] in m.functions:
                out.add(m.functions[r[1]])
        for d, node in dots:
            r = m.resolve_expr(f.module, node)
            if r and r[0]:
                if r[0][0] == "class" and r[0][1] in m.classes:
                    new.add(r[0][1])
                    out.update(self._ctor_targets(r[0][1]))
                    continue
                if r[0][0] == "func" and r[0][1] in m.functions:
                    out.add(m.functions[r[0][1]])
                    continue
            # Class.method(...) / module.Class.method
            if isinstance(node, ast.Attribute):
                base = m.resolve_expr(f.module, node.value)
                if base and base[0] and base[0][0] == "class" and base[0][1] in m.classes:
                    t = m.method(base[0][1], node.attr)
                    if t is not None:
                        out.add(t)
                        # classmethod factories (from_dict) instantiate cls
                        new.add(base[0][1])
        for name, nargs, nkw, typed in attrs:
            for t in self.by_name.get(name, ()):
                if not self._cls_live(t.cls, inst):
                    continue
                if typed is not None and not (m.is_subclass(t.cls, typed) or m.is_subclass(typed, t.cls)):
                    continue
                if not arity_ok(t.node, nargs, nkw):
                    continue
                out.add(t)
                self.unresolved += 1
        for name in loads:
            for t in self.props.get(name, ()):
                if self._cls_live(t.cls, inst):
                    out.add(t)
            # bound-method references (self.edits = self._edits_with_modifiers, key=obj.method)
            if True:
                for t in self.by_name.get(name, ()):
                    if self._cls_live(t.cls, inst):
                        out.add(t)
        return out, new

    def reachable(self, entries, instantiated=()):
        """Fixpoint: (set of reachable function quals, set of instantiated classes)."""
        m = self.m
        inst = set(instantiated)
        reach = {}
        self.pred = {}
        work = list(entries)
        while True:
            changed = False
            while work:
                f = work.pop()
                if f.qual in reach:
                    continue
                reach[f.qual] = f
                changed = True
            size_inst = len(inst)
            for f in list(reach.values()):
                out, new = self.callees(f, inst)
                for k in new - inst:
                    self.inst_by = getattr(self, "inst_by", {})
                    self.inst_by.setdefault(k, f.qual)
                inst |= new
                for t in out:
                    if t.qual not in reach:
                        self.pred.setdefault(t.qual, f.qual)
                        work.append(t)
                # nested functions belong to their parent
            # dunder methods / properties / decorator-registered callbacks of instantiated classes
            for k in list(inst):
                for a in m.c3(k):
                    for name, (kind, v) in m.attrs[a].items():
                        if kind != "def" or v.qual in reach:
                            continue
                        if name.startswith("__") and name.endswith("__") \
                                and name not in ("__init__", "__new__", "__init_subclass__"):
                            self.pred.setdefault(v.qual, f"<dunder of instantiated {k}>")
                            work.append(v)
                        elif any((dotted(d.func if isinstance(d, ast.Call) else d) or "?").split(".")[-1]
                                 not in {x.split(".")[-1] for x in REGISTRY_NEUTRAL_DECORATORS}
                                 and not (isinstance(d, ast.Attribute) and d.attr in ("setter", "getter"))
                                 for d in v.node.decorator_list):
                            work.append(v)
            if not work and len(inst) == size_inst and not changed:
                break
        return reach, inst


def arity_ok(fn, nargs, nkw):
    """Can a method (with self) accept nargs positional + nkw keyword arguments?  None = unknown (accept)."""
    if nargs is None:
        return True
    a = fn.args
    if any(dotted(d) == "staticmethod" for d in fn.decorator_list):
        pos = len(a.posonlyargs) + len(a.args)
    else:
        pos = len(a.posonlyargs) + len(a.args) - 1
    if any(dotted(d) == "property" for d in fn.decorator_list):
        return True
    if a.vararg is None and nargs > pos:
        return False
    if nkw is not None:
        required = pos - len(a.defaults)
        if nargs + len(nkw) < required and a.kwarg is None:
            return False
        if a.kwarg is None:
            names = {x.arg for x in a.posonlyargs + a.args + a.kwonlyargs}
            if any(k not in names for k in nkw):
                return False
    return True


def why(cg, qual, limit=12):
    """Chain of discovery predecessors (for reports)."""
    out, cur = [], qual
    while cur in cg.pred and len(out) < limit:
        cur = cg.pred[cur]
        out.append(cur)
        if cur.startswith("<dunder of instantiated "):
            k = cur[len("<dunder of instantiated "):-1]
            by = getattr(cg, "inst_by", {}).get(k)
            if by:
                out.append(f"{k} instantiated/referenced in {by}")
                cur = by
    return out


def _code_children(n):
    """Child nodes that are executed code (annotations and class bases are not calls/instantiations)."""
    if isinstance(n, ast.AnnAssign):
        return [x for x in (n.target, n.value) if x is not None]
    if isinstance(n, ast.arg):
        return []
    if isinstance(n, (ast.FunctionDef, ast.AsyncFunctionDef)):
        return list(n.decorator_list) + [n.args] + list(n.body)
    if isinstance(n, ast.ClassDef):
        return list(n.decorator_list) + list(n.body)
    return list(ast.iter_child_nodes(n))


def code_nodes(node):
    stack = [node]
    while stack:
        n = stack.pop()
        yield n
        stack.extend(_code_children(n))


def module_level_nodes(tree):
    """Nodes executed when the module is imported: everything except function bodies (decorators, defaults and
    class-body statements are included)."""
    stack = list(tree.body)
    while stack:
        n = stack.pop()
        if isinstance(n, (ast.FunctionDef, ast.AsyncFunctionDef)):
            stack.extend(n.decorator_list)
            stack.extend(d for d in n.args.defaults + n.args.kw_defaults if d is not None)
            continue
        yield n
        stack.extend(_code_children(n))


def module_pseudo_functions(model):
    from .model import FuncInfo
    out = []
    for q, tree in model.mods.items():
        out.append(FuncInfo(f"{q}.<module>", q, tree, None, model.files[q]))
    return out


REGISTRY_NEUTRAL_DECORATORS = {"property", "staticmethod", "classmethod", "abstractmethod", "wraps", "functools.wraps",
                               "abc.abstractmethod", "only_ansi", "repeat_until_tightened", "runtime_checkable"}


def diff_entries(model):
    """Entry points of diffing, printing and the CLI (the surface C07/C13 quantify over) + classes instantiated by
    metaclass machinery (file types, default formatter instances and their sub-formatters)."""
    m = model
    ent, inst = [], set()
    ent.extend(module_pseudo_functions(m))
    for q, (mod, c) in m.classes.items():
        for kw in c.keywords:
            if kw.arg == "metaclass":
                mc = m.resolve_class(mod, kw.value)
                if mc:
                    inst.add(mc)
    for q in m.classes:
        if "__init_subclass__" in m.attrs[q] and m.attrs[q]["__init_subclass__"][0] == "def" \
                and m.subclasses(q, strict=True):
            ent.append(m.attrs[q]["__init_subclass__"][1])
    for q in ("graphtage.__main__.main",):
        if q in m.functions:
            ent.append(m.functions[q])
    T = "graphtage.tree.TreeNode"
    for name in ("diff", "get_all_edits", "get_all_edit_contexts", "copy", "make_edited"):
        f = m.method(T, name) if T in m.classes else None
        if f is not None:
            ent.append(f)
    for q in m.filetypes():
        inst.add(q)
        for name in ("build_tree", "build_tree_handling_errors", "get_default_formatter", "__init__"):
            f = m.method(q, name)
            if f is not None:
                ent.append(f)
    fmts, default = m.formatter_registry()
    for q, root in default.items():
        for fi in root.walk():
            inst.add(fi.q)
            f = m.method(fi.q, "print")
            if f is not None:
                ent.append(f)
            for k in m.c3(fi.q):
                for name, (kind, v) in m.attrs[k].items():
                    if kind == "def" and name.startswith("print_"):
                        ent.append(v)
    for q in ("graphtage.pydiff.build_tree", "graphtage.pydiff.diff", "graphtage.pydiff.print_diff",
              "graphtage.json.build_tree", "graphtage.xml.build_tree", "graphtage.yaml.build_tree",
              "graphtage.csv.build_tree", "graphtage.plist.build_tree"):
        if q in m.functions:
            ent.append(m.functions[q])
    B = "graphtage.builder.Builder"
    if B in m.classes:
        f = m.method(B, "build_tree")
        if f is not None:
            ent.append(f)
    return ent, inst
