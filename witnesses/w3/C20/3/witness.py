#!/usr/bin/env python
"""C20 (border case, see notes.md): a malformed *binary* property list whose only array contains itself makes graphtage die
with an uncaught RecursionError instead of "Error parsing cyclic.plist: ...", in either file position.  The PLIST (and YAML)
error handlers do not catch RecursionError, unlike the JSON and JSON5 handlers."""
import os
import struct
import subprocess
import sys
import tempfile

# header, object 0 = array of one element whose reference is object 0 again, offset table [8], 32-byte trailer
CYCLIC = b'bplist00' + b'\xa1\x00' + b'\x08' + struct.pack('>6xBBQQQ', 1, 1, 1, 0, 10)
GOOD = (b'<?xml version="1.0" encoding="UTF-8"?>\n<plist version="1.0"><array><string>x</string></array></plist>\n')


def main() -> int:
    problems = []
    with tempfile.TemporaryDirectory() as d:
        bad = os.path.join(d, 'cyclic.plist')
        good = os.path.join(d, 'good.plist')
        with open(bad, 'wb') as f:
            f.write(CYCLIC)
        with open(good, 'wb') as f:
            f.write(GOOD)
        for pos, args in (('first', [bad, good]), ('second', [good, bad])):
            p = subprocess.run([sys.executable, '-m', 'graphtage'] + args, capture_output=True)
            err = p.stderr.decode('utf-8', 'replace')
            if 'Traceback (most recent call last)' in err and 'RecursionError' in err:
                problems.append(f"cyclic.plist as {pos} file: uncaught RecursionError traceback on stderr (exit status {p.returncode})")
            elif 'Error parsing cyclic.plist' not in err or p.stdout.strip() or p.returncode == 0:
                problems.append(f"cyclic.plist as {pos} file: not reported (rc={p.returncode}, stdout={p.stdout[:40]!r})")
    if problems:
        print("VIOLATION of C20 (malformed binary plist crashes the command):")
        for p in problems:
            print("  -", p)
        return 1
    print("ok: the cyclic binary plist was reported as an error")
    return 0


if __name__ == '__main__':
    sys.exit(main())
