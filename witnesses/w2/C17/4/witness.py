"""C17 (edge of the statement) / with correct initial_bounds the search's own interval WIDENS.

IterativeTighteningSearch is itself a Bounded (PossibleEdits exposes its bounds to outer searches,
make_distinct, ...).  The end state is right, but on the way the upper bound jumps above the caller's
(correct) initial upper bound, so the search is not a soundly tightening item for an enclosing search.
"""
import sys
from graphtage.bounds import Range
from graphtage.search import IterativeTighteningSearch


class Item:
    def __init__(self, *schedule):
        self.schedule, self.i = schedule, 0

    def bounds(self):
        return Range(*self.schedule[self.i])

    def tighten_bounds(self):
        if self.i + 1 < len(self.schedule):
            self.i += 1
            return True
        return False


a = Item((0, 10), (0, 9), (0, 8), (0, 5), (1, 1))
s = IterativeTighteningSearch(iter([a]), initial_bounds=Range(-1, 2))   # optimum 1 lies inside [-1, 2]
bad = False
prev = s.bounds()
while True:
    t = s.tighten_bounds()
    cur = s.bounds()
    if cur.upper_bound > prev.upper_bound or cur.lower_bound < prev.lower_bound:
        bad = True
        print(f"search bounds widened from {prev} to {cur} (initial_bounds=[-1, 2], optimum 1)")
    prev = cur
    if not t:
        break
if not (cur.definitive() and cur.lower_bound == 1):
    bad = True
    print(f"final bounds {cur}, expected [1, 1]")
sys.exit(1 if bad else 0)
