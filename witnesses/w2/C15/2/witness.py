"""Non-minimal assignment although every weight is an integer of magnitude < 2**53 (exactly representable as a double)."""
import itertools, sys
from graphtage.matching import min_weight_bipartite_matching

def brute(t):
    n, m = len(t), len(t[0])
    if n <= m:
        return min(sum(t[i][p[i]] for i in range(n)) for p in itertools.permutations(range(m), n))
    return min(sum(t[p[j]][j] for j in range(m)) for p in itertools.permutations(range(n), m))

A, B = 2**53 - 1, 2**52
tables = [
    [[A, A], [B, B + 1]],                                   # non-negative ints, all < 2**53
    [[float(A), float(A)], [float(B), float(B + 1)]],       # the same as floats
    [[1, -B, 2], [1, -B, 3], [-B, 0, 0]],                   # |w| <= 2**52 only
    [[1, -B, 2, B], [-2, -B // 2, -1, -2], [1, -B, 3, B // 2], [-B, -B, -B // 2 + 1, 2]],  # |w| <= 2**52
]
problems = []
for t in tables:
    assert all(abs(w) < 2**53 and float(w) == w for r in t for w in r)
    res = min_weight_bipartite_matching(range(len(t)), range(len(t[0])), lambda i, j: t[i][j])
    # validity
    assert len(res) == min(len(t), len(t[0]))
    assert all(t[f][to] == w for f, (to, w) in res.items())
    got = sum(int(w) for _, w in res.values())
    best = brute([[int(w) for w in r] for r in t])
    if got != best:
        problems.append(f"table {t}: returned {dict(res)} total {got}, minimum is {best} (off by {got - best})")
if problems:
    print("VIOLATION: matching not minimal for exactly representable weights below 2**53")
    for p in problems:
        print("  " + p)
    sys.exit(1)
print("ok")
