"""C12 witness: a YAML mapping whose (plain alphanumeric) key is longer than 1024 characters is printed as an
implicit ("simple") key, which YAML forbids for keys over 1024 characters: the loader rejects the printed text."""
import os
import sys
import tempfile
from io import StringIO

import graphtage
from graphtage.printer import Printer


def load(ft, text):
    fd, path = tempfile.mkstemp(suffix='.yaml')
    try:
        with os.fdopen(fd, 'wb') as f:
            f.write(text.encode('utf-8'))
        return ft.build_tree(path)
    finally:
        os.unlink(path)


def main():
    ft = graphtage.FILETYPES_BY_TYPENAME['yaml']
    bad = []
    for n in (1024, 1025, 3000):
        key = 'a' * n
        # explicit-key syntax, which is what yaml.dump itself emits for long keys
        for src in (f'? {key}\n: 1\n', f'outer:\n  ? {key}\n  : inner\n'):
            tree = load(ft, src)   # must load: this is valid YAML
            out = StringIO()
            ft.get_default_formatter().print(Printer(out_stream=out, ansi_color=False, quiet=True), tree)
            printed = out.getvalue()
            try:
                again = load(ft, printed)
            except Exception as e:
                bad.append(f'key of {n} chars: printed text ({printed[:20]!r}...{printed[-12:]!r}) rejected: '
                           f'{type(e).__name__}: {" ".join(str(e).split())[:120]}')
                continue
            if not (tree == again and again == tree):
                bad.append(f'key of {n} chars: reloaded tree differs')
    if bad:
        print('VIOLATION: long YAML mapping keys are printed as simple keys')
        for b in bad:
            print('  ' + b)
        return 1
    print('ok')
    return 0


if __name__ == '__main__':
    sys.exit(main())
