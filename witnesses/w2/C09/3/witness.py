"""C09 witness 3: nested data (lists, 100 levels; dicts: 44 levels suffice) loads from .json, .yaml and .plist, but the JSON5 loader reports
"maximum recursion depth exceeded" for the very same text, so json-vs-json5 of identical data exits 1."""
import contextlib
import io
import json
import os
import plistlib
import sys
import tempfile

import yaml

from graphtage import json as gjson, yaml as gyaml, plist as gplist
from graphtage.graphtage import BuildOptions
from graphtage.__main__ import main
import graphtage.printer

try:  # cosmetic only: no progress bars on stderr
    graphtage.printer.DEFAULT_PRINTER.quiet = True
except Exception:  # noqa
    pass

# nested *lists*: 100 levels.  (Nested dicts already fail at 44 levels in the JSON5 loader, but equal nested dicts trip a
# separate defect - exponential-time equality - so lists keep this witness about one thing.)
DEPTH = 100


def nested(n):
    d = ["leaf", 1]
    for _ in range(n):
        d = [d, "x"]
    return d


def cost(a, b):
    e = a.edits(b)
    while e.tighten_bounds():
        pass
    return e.bounds().upper_bound


def run_cli(a, b):
    out, err = io.StringIO(), io.StringIO()
    try:
        with contextlib.redirect_stdout(out), contextlib.redirect_stderr(err):
            rc = main(["graphtage", "--no-status", "--no-color", a, b])
    except SystemExit as e:
        rc = e.code
    except BaseException as e:  # noqa
        rc = f"raised {type(e).__name__}"
    return rc, err.getvalue().strip().splitlines()[-1:] or [""]


def main_():
    data = nested(DEPTH)
    d = tempfile.mkdtemp(prefix="c09w3_")
    text = json.dumps(data).encode()
    paths = {}
    for ext, blob in (("json", text), ("json5", text), ("yaml", yaml.dump(data).encode()), ("plist", plistlib.dumps(data))):
        paths[ext] = os.path.join(d, "doc." + ext)
        with open(paths[ext], "wb") as f:
            f.write(blob)
    opts = BuildOptions()
    loaded = {
        "json": gjson.JSON.default_instance.build_tree_handling_errors(paths["json"], opts),
        "json5": gjson.JSON5.default_instance.build_tree_handling_errors(paths["json5"], opts),
        "yaml": gyaml.YAML.default_instance.build_tree_handling_errors(paths["yaml"], opts),
        "plist": gplist.PLIST.default_instance.build_tree_handling_errors(paths["plist"], opts),
    }
    for k in ("json", "yaml", "plist"):
        if isinstance(loaded[k], str):
            print(f"unexpected: {k} loader failed too ({loaded[k]}); not the asymmetry this witness is about")
            return 0
    if not (loaded["json"] == loaded["yaml"] and cost(loaded["json"], loaded["yaml"]) == 0):
        print("unexpected: json and yaml disagree")
        return 0
    problems = []
    if isinstance(loaded["json5"], str):
        problems.append(f"JSON5 loader: {loaded['json5']!r} (JSON, YAML and plist loaded the same data fine)")
    else:
        if not (loaded["json5"] == loaded["json"]) or cost(loaded["json5"], loaded["json"]) or cost(loaded["json"], loaded["json5"]):
            problems.append("json5 tree differs from json tree")
    for a, b in (("json", "json5"), ("json5", "json"), ("yaml", "json5")):
        rc, last = run_cli(paths[a], paths[b])
        if rc != 0:
            problems.append(f"graphtage doc.{a} doc.{b} -> exit status {rc!r}: {last[0][:120]}")
    rc, _ = run_cli(paths["json"], paths["yaml"])
    if rc != 0:
        print("unexpected: json vs yaml exits", rc)
        return 0
    if problems:
        print(f"VIOLATION: data nested {DEPTH} levels is not loadable/equal from JSON5 while it is from the other formats")
        for p in problems:
            print("  " + p)
        return 1
    print("ok")
    return 0


if __name__ == "__main__":
    sys.exit(main_())
