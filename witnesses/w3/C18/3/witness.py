"""pydiff.build_tree on an object whose property returns a *fresh* object of the same kind (Fraction.real is `+self`,
Decimal.imag is a new Decimal(0), any user class with such a property) never returns: the builder follows
getattr() for every name in dir(), each step yields a new object, so the identity-based cycle check never fires and
nothing else bounds the walk.  Neither a tree, nor a cycle error, nor a placeholder (ignore_cycles=True) comes out."""
import subprocess
import sys

CHILD = r'''
import resource, sys
from fractions import Fraction
from decimal import Decimal
from graphtage import BuildOptions, pydiff

def vm_size():
    try:
        with open("/proc/self/status") as f:
            for line in f:
                if line.startswith("VmSize:"):
                    return int(line.split()[1]) * 1024
    except OSError:
        pass
    return 4 << 30
lim = vm_size() + (1 << 30)
try:
    resource.setrlimit(resource.RLIMIT_AS, (lim, lim))
except (ValueError, OSError):
    pass

class Vec:
    def __init__(self, x):
        self.x = x
    @property
    def negated(self):
        return Vec(-self.x)

which, ignore = sys.argv[1], sys.argv[2] == "1"
obj = {"fraction": Fraction(1, 2), "decimal": Decimal("1.5"), "user": Vec(1)}[which]
try:
    tree = pydiff.build_tree([obj], BuildOptions(ignore_cycles=ignore))
except ValueError as e:
    print("ValueError", str(e)[:80])
    sys.exit(0)
except BaseException as e:
    print("OTHER", type(e).__name__)
    sys.exit(3)
print("TREE built")
sys.exit(0)
'''

TIME_LIMIT = 8
failed = False
for which in ("fraction", "decimal", "user"):
    for ignore in ("0", "1"):
        try:
            p = subprocess.run([sys.executable, "-c", CHILD, which, ignore], capture_output=True, text=True, timeout=TIME_LIMIT)
        except subprocess.TimeoutExpired:
            print(f"[{which}, ignore_cycles={ignore}] pydiff.build_tree did not return within {TIME_LIMIT}s (hang)")
            failed = True
            continue
        out = (p.stdout + p.stderr).strip().splitlines()
        last = out[-1] if out else ""
        if p.returncode != 0:
            print(f"[{which}, ignore_cycles={ignore}] expected a tree or a ValueError, got {last!r}")
            failed = True
        else:
            print(f"[{which}, ignore_cycles={ignore}] ok: {last}")
sys.exit(1 if failed else 0)
