"""C09 witness 4: NaN is accepted by all four loaders (JSON `NaN`, JSON5 `NaN`, YAML `.nan`, plist `<real>nan</real>`, exactly what
json.dumps / json5.dumps / yaml.dump / plistlib.dumps write), the cost between any two of the documents is 0 and the CLI exits 0,
but the loaded documents are never equal (`==`), not even two loads of the same file."""
import json
import os
import plistlib
import sys
import tempfile

import json5
import yaml

from graphtage import json as gjson, yaml as gyaml, plist as gplist
from graphtage.graphtage import BuildOptions
import graphtage.printer

try:  # cosmetic only
    graphtage.printer.DEFAULT_PRINTER.quiet = True
except Exception:  # noqa
    pass


def cost(a, b):
    e = a.edits(b)
    while e.tighten_bounds():
        pass
    return e.bounds().upper_bound


def main_():
    data = {"ratio": float("nan"), "xs": [1.5, float("nan")]}
    d = tempfile.mkdtemp(prefix="c09w4_")
    blobs = {"json": json.dumps(data).encode(), "json5": json5.dumps(data).encode(), "yaml": yaml.dump(data).encode(),
             "plist": plistlib.dumps(data)}
    paths = {}
    for ext, blob in blobs.items():
        paths[ext] = os.path.join(d, "doc." + ext)
        with open(paths[ext], "wb") as f:
            f.write(blob)
    problems = []
    for kw in ({}, {"allow_key_edits": False, "auto_match_keys": False}):
        opts = BuildOptions(**kw)
        trees = {
            "json": gjson.JSON.default_instance.build_tree(paths["json"], opts),
            "json5": gjson.JSON5.default_instance.build_tree(paths["json5"], opts),
            "yaml": gyaml.YAML.default_instance.build_tree(paths["yaml"], opts),
            "plist": gplist.PLIST.default_instance.build_tree(paths["plist"], opts).root,  # look through the known wrapper
            "json again": gjson.JSON.default_instance.build_tree(paths["json"], opts),
        }
        names = list(trees)
        for i, a in enumerate(names):
            for b in names[i + 1:]:
                c1, c2 = cost(trees[a], trees[b]), cost(trees[b], trees[a])
                if c1 or c2:
                    print(f"unexpected: cost {a}->{b} is {c1}/{c2}; this witness is only about equality")
                    return 0
                if not (trees[a] == trees[b]) or not (trees[b] == trees[a]):
                    problems.append(f"options {kw or 'default'}: {a} tree != {b} tree although the cost between them is 0")
    if problems:
        print("VIOLATION: the same data (containing NaN) loaded from different formats is not equal")
        for p in problems[:8]:
            print("  " + p)
        print(f"  ... {len(problems)} unequal pairs in total")
        return 1
    print("ok")
    return 0


if __name__ == "__main__":
    sys.exit(main_())
