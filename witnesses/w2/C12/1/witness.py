"""C12 witness: YAML documents containing an empty list or an empty mapping are printed as *nothing*,
so the printed text loads back with a null in place of the empty container."""
import os
import sys
import tempfile
from io import StringIO

import graphtage
from graphtage.printer import Printer


def load(ft, text):
    fd, path = tempfile.mkstemp(suffix='.yaml')
    try:
        with os.fdopen(fd, 'wb') as f:
            f.write(text.encode('utf-8'))
        return ft.build_tree(path)
    finally:
        os.unlink(path)


def main():
    ft = graphtage.FILETYPES_BY_TYPENAME['yaml']
    bad = []
    for src in ('[]\n', '{}\n', 'a: []\n', 'a: {}\n', '- []\n- x\n', '- {}\n- x\n', 'a:\n  b: []\n  c: 1\n'):
        tree = load(ft, src)
        out = StringIO()
        ft.get_default_formatter().print(Printer(out_stream=out, ansi_color=False, quiet=True), tree)
        printed = out.getvalue()
        try:
            again = load(ft, printed)
        except Exception as e:
            bad.append(f'{src!r}: printed {printed!r} is rejected by the loader: {e!r}')
            continue
        if not (tree == again and again == tree):
            bad.append(f'{src!r}: printed {printed!r}; loaded {tree!r}, reloaded {again!r}')
    if bad:
        print('VIOLATION: YAML empty containers do not survive print + reload')
        for b in bad:
            print('  ' + b)
        return 1
    print('ok')
    return 0


if __name__ == '__main__':
    sys.exit(main())
