"""C03 witness 1: a fixed-key dictionary holding a set cannot be costed at all.

    from: [ {"a": {1, 2, 3, 4, 5},            "b": 1} ]
    to:   [ {"a": {6, 7, 8, 9, 10000000000},  "b": 1} ]      built with allow_key_edits=False

While FixedKeyDictNodeEdit (an EditCollection) has not yet expanded all of its sub-edits, EditCollection.bounds()
reports an upper bound *below* its own lower bound (and below the true cost, 14).  The enclosing list edit adds the two
ends up into a Range and raises ValueError: diff(), get_all_edits() and a hand-driven tighten_bounds() loop all die, so
none of the three views yields a total.
"""
import logging
import signal
import sys

import graphtage
from graphtage import printer, pydiff
from graphtage.tree import CompoundEdit

logging.disable(logging.CRITICAL)
printer.DEFAULT_PRINTER.quiet = True


class Timeout(Exception):
    pass


def _alarm(*_):
    raise Timeout()


signal.signal(signal.SIGALRM, _alarm)

OPTIONS = graphtage.BuildOptions(allow_key_edits=False)
FROM = [{"a": {1, 2, 3, 4, 5}, "b": 1}]
TO = [{"a": {6, 7, 8, 9, 10 ** 10}, "b": 1}]


def trees():
    return pydiff.build_tree(FROM, options=OPTIONS), pydiff.build_tree(TO, options=OPTIONS)


def cost(edit):
    while edit.tighten_bounds():
        pass
    return edit.bounds().upper_bound


def listed_sum(edit):
    if isinstance(edit, CompoundEdit):
        return sum(listed_sum(sub) for sub in edit.edits())
    return cost(edit)


problems = []

# the expected total, from an independent oracle: the inner dictionary edit on its own (no enclosing edit reads its
# intermediate bounds), whose listed sub-edits add up to the same number
a, b = trees()
inner = a.children()[0].edits(b.children()[0])
expected = cost(inner)
if listed_sum(inner) != expected:
    problems.append(f"inner dictionary edit: cost {expected} != sum of listed edits {listed_sum(inner)}")

# watch the bounds of the inner edit while it refines: they must stay an interval that contains the final cost
a, b = trees()
inner = a.children()[0].edits(b.children()[0])
while True:
    progressed = inner.tighten_bounds()
    bounds = inner.bounds()
    if bounds.upper_bound < bounds.lower_bound or bounds.upper_bound < expected:
        problems.append(f"{type(inner).__name__}.bounds() = [{bounds.lower_bound}, {bounds.upper_bound}] while "
                        f"refining; the final cost is {expected}")
        break
    if not progressed:
        break

views = {}
signal.alarm(60)
try:
    for name in ("top-level edit", "flat list", "diff tree"):
        a, b = trees()
        try:
            if name == "top-level edit":
                views[name] = cost(a.edits(b))
            elif name == "flat list":
                views[name] = sum(cost(e) for e in a.get_all_edits(b))
            else:
                views[name] = a.diff(b).edited_cost()
        except Timeout:
            problems.append(f"{name}: did not finish within 60 seconds")
            break
        except Exception as e:
            problems.append(f"{name}: raised {type(e).__name__}: {e}")
finally:
    signal.alarm(0)

for name, total in views.items():
    if total != expected:
        problems.append(f"{name}: total {total}, expected {expected}")

if problems:
    print("C03 violated for", FROM, "->", TO, "(allow_key_edits=False); expected total", expected)
    for p in problems:
        print("  -", p)
    sys.exit(1)
print("ok: all views report", expected)
sys.exit(0)
