"""C06 witness (plain-text rendering, ansi_color=False / --no-color): string contents are written verbatim between the
in-string change markers ~~ and ++, so a literal "~~" or "++" inside a string cannot be told from a marker. Two
different (first, second) pairs - one of equal documents, one of different documents - get byte-identical renderings,
hence the documents cannot be read back and "marks iff different" cannot hold for both."""
import io
import sys

import graphtage
import graphtage.printer as gprinter
from graphtage import json as gjson
from graphtage.printer import Printer

gprinter.DEFAULT_PRINTER.quiet = True


def render(a, b, **build_options):
    opts = graphtage.BuildOptions(**build_options)
    ta, tb = gjson.build_tree(a, opts), gjson.build_tree(b, opts)
    out = io.StringIO()
    p = Printer(out, ansi_color=False, quiet=True, options={'join_lists': True, 'join_dict_items': True})
    with p:
        gjson.JSONFormatter.DEFAULT_INSTANCE.print(p, ta.diff(tb))
    return out.getvalue()


COLLISIONS = [
    # (equal pair), (different pair)
    (("a~~b~~c", "a~~b~~c"), ("abc", "ac")),
    (("a++b++c", "a++b++c"), ("ac", "abc")),
    ((["x~~y~~"], ["x~~y~~"]), (["xy"], ["x"])),
    (({"k++ey++": 1}, {"k++ey++": 1}), ({"k": 1}, {"key": 1})),
]
failures = []
for (a1, b1), (a2, b2) in COLLISIONS:
    assert (a1, b1) != (a2, b2)
    r1, r2 = render(a1, b1), render(a2, b2)
    if r1 == r2:
        failures.append(f"{a1!r} -> {b1!r}  and  {a2!r} -> {b2!r}  are both rendered as {r1!r}")

if failures:
    print("C06 VIOLATED: distinct document pairs with identical plain renderings")
    for f in failures:
        print("  " + f)
    sys.exit(1)
print("ok")
sys.exit(0)
