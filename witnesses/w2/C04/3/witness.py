"""C04 witness: a search that was given (correct) initial bounds widens its interval beyond them.

Two alternative edits for the same pair of lists (a Replace and the element-wise FixedLengthSequenceEdit) are handed to
PossibleEdits / IterativeTighteningSearch together with initial_cost = [0, 20]; the optimum is 16, so the caller's
bounds are correct.  The first refinement step turns [0, 20] into [6, 51].
"""
import logging
import sys

logging.disable(logging.CRITICAL)

from graphtage import ListNode, StringNode
from graphtage.bounds import Range
from graphtage.edits import PossibleEdits, Replace
from graphtage.printer import DEFAULT_PRINTER
from graphtage.search import IterativeTighteningSearch

DEFAULT_PRINTER.quiet = True

WORDS = ["alpha", "bravo", "charlie", "delta", "echo", "foxtrot", "golf", "hotel"]


def trees():
    a = ListNode([StringNode(w) for w in WORDS], allow_list_edits=False)
    b = ListNode([StringNode(w[:-1] + "x") for w in WORDS], allow_list_edits=False)
    return a, b


# the true optimum, computed without any hint
a, b = trees()
reference = a.edits(b)
while reference.tighten_bounds():
    pass
optimum = reference.bounds().upper_bound
a, b = trees()
assert Replace(a, b).bounds().lower_bound > optimum
hint = Range(0, optimum + 4)
print(f"optimum {optimum}, initial bounds handed to the search: {hint}")

problems = []


def drive(name, bounded):
    history = [bounded.bounds()]
    print(f"{name}: initial {history[0]}")
    if history[0] != hint:
        problems.append(f"{name}: initial bounds are {history[0]}, not the {hint} that were supplied")
    for step in range(1, 500):
        before = bounded.bounds()
        progressed = bounded.tighten_bounds()
        after = bounded.bounds()
        print(f"  step {step}: tighten_bounds() -> {progressed}, {before} -> {after}")
        if after.lower_bound < before.lower_bound or after.upper_bound > before.upper_bound:
            problems.append(f"{name} step {step}: the interval widened from {before} to {after}")
        if not progressed:
            break
    final = bounded.bounds()
    if not final.definitive() or final.upper_bound != optimum:
        problems.append(f"{name}: final bounds {final}, expected the single value {optimum}")


a, b = trees()
drive("PossibleEdits", PossibleEdits(a, b, iter([Replace(a, b), a.edits(b)]), initial_cost=hint))
a, b = trees()
drive("IterativeTighteningSearch", IterativeTighteningSearch(iter([Replace(a, b), a.edits(b)]), initial_bounds=hint))

if problems:
    print("C04 VIOLATED:")
    for p in problems:
        print("  - " + p)
    sys.exit(1)
print("ok")
sys.exit(0)
