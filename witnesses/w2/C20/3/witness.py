#!/usr/bin/env python
"""C20 witness 3: XML property lists whose root object was deleted or duplicated (so that they no longer conform to
Apple's PropertyList-1.0 DTD: `<!ELEMENT plist %plistObject;>` = exactly one object) are not reported. graphtage goes on
to diff them; for the empty `<plist>` it prints half a diff and then dies with an uncaught TypeError.

The independent notion of validity used here is a small hand-written checker of the DTD's content model on top of
xml.etree (it does not use plistlib). Exit 1 when the violation shows, 0 otherwise."""
import os
import subprocess
import sys
import tempfile
import xml.etree.ElementTree as ET

HEAD = (b'<?xml version="1.0" encoding="UTF-8"?>\n'
        b'<!DOCTYPE plist PUBLIC "-//Apple//DTD PLIST 1.0//EN" "http://www.apple.com/DTDs/PropertyList-1.0.dtd">\n')
VALID = HEAD + b'<plist version="1.0">\n<true/>\n</plist>\n'
VALID_DICT = HEAD + b'<plist version="1.0">\n<dict/>\n</plist>\n'
BAD = {
    # VALID with the token `<true/>` deleted
    "root_deleted.plist": HEAD + b'<plist version="1.0">\n\n</plist>\n',
    # VALID with the token `<true/>` duplicated
    "root_duplicated.plist": HEAD + b'<plist version="1.0">\n<true/><true/>\n</plist>\n',
    # VALID_DICT with the token `<dict/>` duplicated
    "dict_duplicated.plist": HEAD + b'<plist version="1.0">\n<dict/><dict/>\n</plist>\n',
}
LEAVES = {"string", "integer", "real", "date", "data"}


def conforms_to_plist_dtd(data: bytes) -> bool:
    """True iff `data` is well-formed XML whose element structure matches PropertyList-1.0.dtd."""
    try:
        root = ET.fromstring(data)
    except ET.ParseError:
        return False

    def no_text(e):
        return not (e.text or "").strip() and all(not (c.tail or "").strip() for c in e)

    def obj(e) -> bool:
        if e.tag in LEAVES:
            return len(e) == 0
        if e.tag in ("true", "false"):
            return len(e) == 0 and not (e.text or "").strip()
        if e.tag == "array":
            return no_text(e) and all(obj(c) for c in e)
        if e.tag == "dict":
            kids = list(e)
            if not no_text(e) or len(kids) % 2:
                return False
            return all(k.tag == "key" and len(k) == 0 and v.tag != "key" and obj(v)
                       for k, v in zip(kids[::2], kids[1::2]))
        return False

    return root.tag == "plist" and no_text(root) and len(root) == 1 and obj(root[0])


def run_cli(args, cwd):
    return subprocess.run([sys.executable, "-m", "graphtage", "--no-status", "--no-color"] + args, cwd=cwd,
                          stdout=subprocess.PIPE, stderr=subprocess.PIPE, timeout=120)


def main():
    assert conforms_to_plist_dtd(VALID) and conforms_to_plist_dtd(VALID_DICT)
    for name, data in BAD.items():
        assert not conforms_to_plist_dtd(data), name
    failures = []
    with tempfile.TemporaryDirectory() as d:
        for name, data in list(BAD.items()) + [("good.plist", VALID)]:
            with open(os.path.join(d, name), "wb") as f:
                f.write(data)
        for bad in BAD:
            for args in ([bad, "good.plist"], ["good.plist", bad], [bad, bad]):
                p = run_cli(args, d)
                err = p.stderr.decode("utf-8", "replace")
                problems = []
                if "Traceback (most recent call last)" in err:
                    problems.append("uncaught exception: " + err.strip().splitlines()[-1])
                if "Error parsing " + bad not in err:
                    problems.append("no `Error parsing %s` message on stderr" % bad)
                if p.returncode == 0:
                    problems.append("exit status 0")
                if p.stdout.strip():
                    problems.append("a diff was printed on stdout (%d bytes)" % len(p.stdout))
                if problems:
                    failures.append((args, problems))
    if failures:
        print("C20 VIOLATED: property lists that do not conform to the plist DTD are diffed instead of reported")
        for args, problems in failures:
            print(f"  graphtage {' '.join(args)}")
            for pr in problems:
                print(f"      - {pr}")
        return 1
    print("ok: every non-conforming plist was reported as an error naming the file")
    return 0


if __name__ == "__main__":
    sys.exit(main())
