"""C19 witness 5 (second clause: "the only names it can resolve are the variables it was given and the documented
whitelist of built-ins"): the tokenizer turns every bare word that float()/int() accepts into a literal, so the
*identifiers* nan, NaN, Inf, Infinity (and 1_0, ...) resolve to values although they are neither variables nor
white-listed builtins -- and a variable of that name that WAS given can never be resolved."""
import sys
from graphtage.expressions import parse, DEFAULT_GLOBALS

bad = []
for name in ('nan', 'NaN', 'Inf', 'Infinity', 'INFINITY'):
    assert name not in DEFAULT_GLOBALS
    # 1. resolves although nothing of that name exists
    try:
        r = parse(f'{name} + 0').eval(locals={})
        bad.append(f"unknown name {name!r} resolved to {r!r} (expected KeyError: Unknown identifier)")
    except KeyError:
        pass
    # 2. a supplied variable of that name is shadowed by the bogus literal
    try:
        r = parse(f'{name} + 0').eval(locals={name: 5})
    except Exception as e:
        r = e
    if r != 5:
        bad.append(f"variable {name!r}=5 was given but {name!r} evaluated to {r!r}")

# control: ordinary unknown names are rejected, ordinary variables resolve
try:
    parse('foo + 0').eval(locals={})
    bad.append("control: unknown name foo resolved")
except KeyError:
    pass
if parse('foo + 0').eval(locals={'foo': 5}) != 5:
    bad.append("control: variable foo not resolved")

if bad:
    for b in bad:
        print("VIOLATION:", b)
    sys.exit(1)
print("ok")
sys.exit(0)
