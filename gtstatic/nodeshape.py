"""Shapes of node classes: what children() returns versus what __init__ accepts (R18c, shared by C13 and C18)."""
import ast

from .astx import walk_no_nested, dotted, self_attr

TREE = "graphtage.tree.TreeNode"


def init_positional(model, q):
    """(min, max, names, has_varargs) of the positional parameters of q.__init__ (excluding self)."""
    f = model.method(q, "__init__")
    if f is None:
        return 0, 0, [], False
    a = f.node.args
    names = [x.arg for x in a.posonlyargs + a.args][1:]
    nreq = len(names) - len(a.defaults)
    return max(nreq, 0), len(names), names, a.vararg is not None


def children_shapes(model, q):
    """Possible shapes of q.children(): list of tuples of element descriptions, or None if variable-length /
    unknown.  Element description = source text of the element expression."""
    f = model.method(q, "children")
    if f is None:
        return None
    owner = f.cls
    shapes = []
    consts = {}
    if owner == "graphtage.tree.ContainerNode":
        return _iter_shape(model, q)
    for n in walk_no_nested(f.node):
        if isinstance(n, ast.Assign) and isinstance(n.targets[0], ast.Name) and isinstance(n.value, ast.Tuple):
            consts[n.targets[0].id] = [ast.unparse(e) for e in n.value.elts]
    for n in walk_no_nested(f.node):
        if isinstance(n, ast.Return) and n.value is not None:
            s = _tuple_shape(n.value, consts)
            if s is None:
                return None
            shapes.append(tuple(s))
    if not shapes:
        return _iter_shape(model, q)
    return shapes


def _iter_shape(model, q):
    """ContainerNode.children() = list(self): follow __iter__ if it yields a fixed sequence."""
    it = model.method(q, "__iter__")
    if it is None:
        return None
    ys = sorted((n for n in walk_no_nested(it.node) if isinstance(n, (ast.Yield, ast.YieldFrom))), key=lambda n: n.lineno)
    if ys and all(isinstance(y, ast.Yield) for y in ys) and not any(
            isinstance(x, (ast.For, ast.While)) for x in walk_no_nested(it.node)):
        return [tuple(ast.unparse(y.value) for y in ys)]
    return None


def _tuple_shape(e, consts):
    if isinstance(e, ast.Tuple):
        return [ast.unparse(x) for x in e.elts]
    if isinstance(e, ast.Name) and e.id in consts:
        return list(consts[e.id])
    if isinstance(e, ast.BinOp) and isinstance(e.op, ast.Add):
        l, r = _tuple_shape(e.left, consts), _tuple_shape(e.right, consts)
        if l is None or r is None:
            return None
        return l + r
    return None


def copy_from_problems(model):
    """For every concrete node class that resolves to TreeNode.copy_from (`self.__class__(*children)`): does
    __init__ accept the shape(s) of children() positionally, in the same order?
    Returns [(class qual, ok: bool, detail)]."""
    out = []
    base = model.method(TREE, "copy_from")
    for q in sorted(model.subclasses(TREE)):
        if model.is_abstract(q):
            continue
        cf = model.method(q, "copy_from")
        if cf is None or cf is not base:
            continue
        mn, mx, names, var = init_positional(model, q)
        shapes = children_shapes(model, q)
        short = q.rsplit(".", 1)[-1]
        dc = "graphtage.dataclasses.DataClassNode"
        if dc in model.classes and model.is_subclass(q, dc):
            out.append((q, True, f"{short}: DataClassNode.__init__(*args) takes one positional argument per slot, the "
                                 f"order children() yields them"))
            continue
        if shapes is None:
            # variable-length children splatted into a fixed-arity constructor
            if not var and mx <= 1:
                out.append((q, False, f"{short}.copy_from is TreeNode.copy_from (`self.__class__(*children)`), but "
                                      f"{short}.__init__ takes {mx} positional parameter(s) {names} while children() "
                                      f"is a variable-length sequence: copy() raises TypeError unless there is "
                                      f"exactly {mx} child"))
            else:
                out.append((q, True, f"{short}: variable-length children into __init__{names}{' *args' if var else ''}"))
            continue
        problems = []
        for s in shapes:
            if not var and not (mn <= len(s) <= mx):
                problems.append(f"children() may return {len(s)} nodes {list(s)} but __init__ takes {mn}..{mx} "
                                f"positional parameters {names}")
                continue
            # positional correspondence: the i-th child must be the attribute initialised from the i-th parameter
            for i, (child, pname) in enumerate(zip(s, names)):
                ch_attr = child.split(".")[-1].lstrip("_")
                if ch_attr != pname.lstrip("_") and not _init_stores(model, q, pname, child):
                    problems.append(f"child #{i} `{child}` would be passed as parameter `{pname}`")
                    break
        if problems:
            out.append((q, False, f"{short}.copy_from is TreeNode.copy_from (`self.__class__(*children)`): " + "; ".join(problems)))
        else:
            out.append((q, True, f"{short}: children() {[list(s) for s in shapes]} line up with __init__{names}"))
    return out


def _init_stores(model, q, pname, child_expr):
    """Does __init__ store parameter pname into the attribute that children() returns as child_expr?"""
    f = model.method(q, "__init__")
    if f is None:
        return False
    target = child_expr.replace("self.", "")
    for n in walk_no_nested(f.node):
        if isinstance(n, (ast.Assign, ast.AnnAssign)) and n.value is not None:
            tg = n.targets[0] if isinstance(n, ast.Assign) else n.target
            if self_attr(tg) == target and any(isinstance(x, ast.Name) and x.id == pname for x in ast.walk(n.value)):
                return True
    return False
