"""C12: PLISTNode.print() - the document node's own `TreeNode.print(printer)` method - writes the plist XML header and
footer around the generic bracketed rendering of the root instead of plist markup, so the text does not load back."""
import io
import os
import sys
import tempfile

import graphtage
from graphtage.printer import Printer

DOCS = [
    b'<plist version="1.0"><dict><key>a</key><array><integer>1</integer><string>x</string></array></dict></plist>',
    b'<plist version="1.0"><string>abc</string></plist>',
    b'<plist version="1.0"><array><true/><real>1.5</real></array></plist>',
]


def load(ft, data: bytes):
    fd, path = tempfile.mkstemp()
    try:
        os.write(fd, data)
        os.close(fd)
        return ft.build_tree(path)
    finally:
        os.unlink(path)


def main() -> int:
    ft = graphtage.FILETYPES_BY_TYPENAME['plist']
    failures = []
    for data in DOCS:
        tree = load(ft, data)
        out = io.StringIO()
        tree.print(Printer(out_stream=out, ansi_color=False, quiet=True))
        printed = out.getvalue()
        if '<plist' not in printed:
            print('PLISTNode.print no longer claims to write a plist; nothing to check')
            return 0
        try:
            again = load(ft, printed.encode('utf-8'))
        except Exception as e:
            failures.append(f'{data!r}: PLISTNode.print wrote {printed!r}, rejected by the loader ({type(e).__name__}: {e})')
            continue
        if again != tree:
            failures.append(f'{data!r}: PLISTNode.print wrote {printed!r}, which loads as {again!r} instead of {tree!r}')
    for f in failures:
        print('VIOLATION', f)
    return 1 if failures else 0


if __name__ == '__main__':
    sys.exit(main())
