"""C02 witness: an int and a float of the same value (1 vs 1.0) are reported as "no difference" whenever they sit
inside a list or a mapping, although the very same pair is reported as a difference when it is the whole document."""
import os, subprocess, sys, tempfile

from graphtage import BuildOptions
from graphtage.json import build_tree


def lib_cost(a, b, **opts):
    o = BuildOptions(**opts)
    edit = build_tree(a, o).edits(build_tree(b, o))
    while edit.tighten_bounds():
        pass
    return edit.bounds().upper_bound


def cli(a_text, b_text, *args):
    with tempfile.TemporaryDirectory() as d:
        pa, pb = os.path.join(d, 'a.json'), os.path.join(d, 'b.json')
        open(pa, 'w').write(a_text)
        open(pb, 'w').write(b_text)
        p = subprocess.run([sys.executable, '-m', 'graphtage', '--no-status', '--no-color', *args, pa, pb],
                           capture_output=True, text=True)
        return p.returncode, p.stdout


problems = []
root = lib_cost(1, 1.0)
print(f"library: cost(1 -> 1.0) as whole documents = {root}")
for a, b in (([1], [1.0]), ({"a": 1}, {"a": 1.0}), ([1, "x", 2], [1.0, "x", 2]), ([[1], 5], [[1.0], 5])):
    for opts in ({}, {'allow_key_edits': False}, {'allow_list_edits': False}, {'auto_match_keys': False}):
        c = lib_cost(a, b, **opts)
        if c == 0:
            problems.append(f"library: {a!r} vs {b!r} with {opts}: total cost 0 although the documents differ "
                            f"(int vs float); the same scalars alone cost {root}")
for a, b in (('[1]', '[1.0]'), ('{"a": 1}', '{"a": 1.0}')):
    for args in ((), ('-e',), ('-d',), ('-k',), ('-l',)):
        rc, out = cli(a, b, *args)
        if rc == 0:
            problems.append(f"CLI {args}: {a} vs {b}: exit status 0, output {out.strip()!r}")
rc_root, _ = cli('1', '1.0')
print(f"CLI: 1 vs 1.0 as whole documents exits {rc_root}")
if problems:
    print("VIOLATION: int/float difference is invisible inside containers:")
    for p in problems:
        print("  -", p)
    sys.exit(1)
print("ok")
sys.exit(0)
