"""C13 witness 4: an XML or HTML document as FROM file and any non-XML document as TO file is an internal error.

Every other pairing of unlike node types (including non-XML -> XML) is rendered as a replacement.
Exit status: 1 if the internal error shows, 0 otherwise.
"""
import os
import subprocess
import sys
import tempfile

HERE = os.path.dirname(os.path.abspath(__file__))


def graphtage(*args):
    p = subprocess.run([sys.executable, "-m", "graphtage", "--no-status", *args], capture_output=True, text=True)
    return p.returncode, p.stdout, p.stderr


def main():
    failures = []
    with tempfile.TemporaryDirectory(dir=HERE) as d:
        x, h, j, y = (os.path.join(d, n) for n in ("a.xml", "a.html", "b.json", "b.yaml"))
        with open(x, "w") as f:
            f.write('<a x="1">t</a>')
        with open(h, "w") as f:
            f.write('<html><body><p>hi</p></body></html>')
        with open(j, "w") as f:
            f.write('{"a": 1}')
        with open(y, "w") as f:
            f.write('- 1\n- 2\n')
        for frm, to, opts in ((x, j, ("-f", "xml")), (x, j, ("-f", "xml", "-d")), (x, j, ("-f", "xml", "-e")),
                              (x, y, ("-f", "yaml")), (h, j, ("-f", "html", "--html")), (h, y, ())):
            rc, out, err = graphtage(frm, to, *opts)
            if rc not in (0, 1) or "Traceback" in err:
                last = err.strip().splitlines()[-1] if err.strip() else ""
                failures.append(f"graphtage {os.path.basename(frm)} {os.path.basename(to)} {' '.join(opts)} "
                                f"-> rc={rc}: {last}")
        # control: the opposite direction is fine
        rc, out, err = graphtage(j, x, "-f", "xml")
        if rc not in (0, 1) or "Traceback" in err:
            print("note: json -> xml fails as well:", err.strip().splitlines()[-1:])
    if failures:
        print("VIOLATION: XML/HTML compared against a non-XML document is an internal error")
        for f in failures:
            print("  " + f)
        return 1
    print("ok: XML/HTML vs non-XML is rendered")
    return 0


if __name__ == "__main__":
    sys.exit(main())
