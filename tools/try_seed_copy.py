#!/venv/bin/python
"""Like try_seed.py, but on a scratch copy of /repo/graphtage (so /repo is not touched and several can run at once).
usage: try_seed_copy.py <seed-id>|<patch file> [PROP ...]   (default: the property in the seed's name)"""
import json, os, re, shutil, subprocess, sys, tempfile
V = os.path.dirname(os.path.dirname(os.path.abspath(__file__)))
sys.path.insert(0, V)
from gtstatic import core
from gtstatic.__main__ import run_rules
arg = sys.argv[1]
patch = arg if os.path.isfile(arg) else os.path.join(V, "seeded", arg, "patch.diff")
props = sys.argv[2:] or re.findall(r"C\d\d", arg)[:1]
d = tempfile.mkdtemp(prefix="ts_")
try:
    shutil.copytree("/repo/graphtage", os.path.join(d, "graphtage"), ignore=shutil.ignore_patterns("__pycache__"))
    r = subprocess.run(["git", "apply", "--whitespace=nowarn", "-p1", os.path.abspath(patch)], cwd=d, capture_output=True, text=True)
    if r.returncode:
        print(arg, "PATCH DOES NOT APPLY", r.stderr[:200]); sys.exit(3)
    out = []
    for p in props:
        try:
            ctx = run_rules(p, d, "quick", quiet=True)
        except Exception as e:
            out.append(f"{p}: LOST ({type(e).__name__}: {str(e)[:150]})"); continue
        core.apply_known(ctx, core.load_known())
        v = [i for i in ctx.instances if i.verdict == core.VIOLATION]
        inc = [i for i in ctx.instances if i.verdict == core.INCONCLUSIVE]
        fl = [f for f in ctx.floors if f[1] < f[2]]
        if v:
            out.append(f"{p}: VIOLATION " + "; ".join(sorted({f'{i.rule} {i.func}: {i.detail[:140]}' for i in v}))[:600])
        elif inc or fl:
            out.append(f"{p}: LOST " + "; ".join([f'{i.rule}: {i.detail[:160]}' for i in inc] + [f'floor {f[0]} {f[1]}<{f[2]}' for f in fl])[:500])
        else:
            out.append(f"{p}: silent")
    print(arg, "|", " || ".join(out))
finally:
    shutil.rmtree(d, ignore_errors=True)
