"""Tiny AST pattern matcher with metavariables, so that rules describe code *shapes* without depending on the spelling
of local variables.

A pattern is Python source.  Identifiers consisting of one capital letter plus optional digits (A, B, X1, ...) are
metavariables: each binds to an arbitrary expression and must bind consistently within one match.  `ANY` matches any
expression without binding.  String constants, attribute names, keyword names and every other identifier must match
literally.  Statement patterns match a contiguous run of statements inside any block of the searched node.
"""
import ast
import re

META = re.compile(r"^[A-Z][0-9]?$")


def _is_meta(n):
    return isinstance(n, ast.Name) and META.match(n.id) is not None


def _txt(n):
    return ast.unparse(n)


def match(p, n, b):
    """Match pattern node p against node n under bindings b (dict, mutated on success of sub-matches)."""
    if isinstance(p, ast.Name) and p.id == "ANY":
        return isinstance(n, ast.expr) or n is None
    if _is_meta(p):
        if not isinstance(n, ast.expr):
            return False
        t = _txt(n)
        if p.id in b:
            return b[p.id] == t
        b[p.id] = t
        return True
    if isinstance(p, ast.arg) and isinstance(n, ast.arg):
        return META.match(p.arg) is not None and _bind(b, p.arg, n.arg) or p.arg == n.arg
    if isinstance(p, ast.Assign) and isinstance(n, ast.AnnAssign) and len(p.targets) == 1 and n.value is not None:
        return match(p.targets[0], n.target, b) and match(p.value, n.value, b)
    if type(p) is not type(n):
        return False
    for field in p._fields:
        if field in ("ctx", "type_comment", "lineno", "col_offset", "end_lineno", "end_col_offset", "kind"):
            continue
        pv, nv = getattr(p, field, None), getattr(n, field, None)
        if isinstance(p, ast.Attribute) and field == "attr" or isinstance(p, ast.keyword) and field == "arg":
            if pv != nv:
                return False
            continue
        if isinstance(pv, list):
            if not isinstance(nv, list) or len(pv) != len(nv):
                return False
            for a, c in zip(pv, nv):
                if isinstance(a, ast.AST):
                    if not match(a, c, b):
                        return False
                elif a != c:
                    return False
        elif isinstance(pv, ast.AST):
            if not isinstance(nv, ast.AST) or not match(pv, nv, b):
                return False
        else:
            if isinstance(p, (ast.ExceptHandler,)) and field == "name":
                continue
            if pv != nv:
                return False
    return True


def _bind(b, k, v):
    if k in b:
        return b[k] == v
    b[k] = v
    return True


def parse_expr(src):
    return ast.parse(src, mode="eval").body


def parse_stmts(src):
    return ast.parse(src).body


def find_expr(src, root, binds=None, nested=True):
    """All (node, bindings) where the expression pattern matches somewhere under root."""
    p = parse_expr(src)
    out = []
    for n in ast.walk(root):
        if isinstance(n, ast.expr):
            b = dict(binds or {})
            if match(p, n, b):
                out.append((n, b))
    return out


def blocks(root):
    for n in ast.walk(root):
        for field in ("body", "orelse", "finalbody"):
            lst = getattr(n, field, None)
            if isinstance(lst, list) and lst and isinstance(lst[0], ast.stmt):
                yield lst
        if isinstance(n, ast.Try):
            for h in n.handlers:
                yield h.body


def find_stmts(src, root, binds=None):
    """All (first statement, bindings) where the statement-sequence pattern matches a contiguous run in some block."""
    ps = parse_stmts(src)
    out = []
    for lst in blocks(root):
        for i in range(len(lst) - len(ps) + 1):
            b = dict(binds or {})
            if all(match(p, s, b) for p, s in zip(ps, lst[i:i + len(ps)])):
                out.append((lst[i], b))
    return out


def has(src, root, binds=None, stmts=None):
    """Does the pattern (expression, or statements if it does not parse as an expression) occur under root?"""
    try:
        if stmts is True:
            raise SyntaxError
        parse_expr(src)
        return bool(find_expr(src, root, binds))
    except SyntaxError:
        return bool(find_stmts(src, root, binds))


def first(src, root, binds=None):
    try:
        parse_expr(src)
        r = find_expr(src, root, binds)
    except SyntaxError:
        r = find_stmts(src, root, binds)
    return r[0] if r else (None, None)
