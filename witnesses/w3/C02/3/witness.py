"""C02: a YAML stream of several documents and a single YAML document that is a list of the same values are
different data, yet graphtage reports no edit and exits 0."""
import os, subprocess, sys, tempfile

import yaml


def run(*args):
    p = subprocess.run([sys.executable, "-m", "graphtage", "--no-color", "--quiet", *args],
                       stdout=subprocess.PIPE, stderr=subprocess.PIPE, env=os.environ)
    return p.returncode, p.stdout.decode("utf-8", "replace")


PAIRS = [
    (b"--- a\n--- b\n", b"[a, b]\n"),                        # two scalar documents vs. one list document
    (b"---\nx: 1\n---\nx: 2\n", b"- x: 1\n- x: 2\n"),          # two mapping documents vs. one list of mappings
    (b"--- [1]\n--- [2]\n", b"[[1], [2]]\n"),
]


def main():
    failures = []
    with tempfile.TemporaryDirectory() as d:
        for i, (sa, sb) in enumerate(PAIRS):
            pa = os.path.join(d, f"a{i}.yaml")
            pb = os.path.join(d, f"b{i}.yaml")
            with open(pa, "wb") as f:
                f.write(sa)
            with open(pb, "wb") as f:
                f.write(sb)
            da, db = list(yaml.safe_load_all(sa)), list(yaml.safe_load_all(sb))
            assert da != db and len(da) == 2 and len(db) == 1  # the oracle: two documents vs. one document
            for x, y, what in ((pa, pb, f"{sa!r} vs {sb!r}"), (pb, pa, f"{sb!r} vs {sa!r}")):
                for opts in ((), ("--only-edits",), ("-k",)):
                    rc, out = run(*opts, x, y)
                    if rc == 0:
                        failures.append(f"{' '.join(opts)} {what}: exit status 0, output {out.strip()!r}")
            try:
                from graphtage import yaml as gyaml
                e = gyaml.build_tree(pa).edits(gyaml.build_tree(pb))
                while e.tighten_bounds():
                    pass
                if e.bounds().upper_bound == 0:
                    failures.append(f"library: yaml.build_tree({sa!r}).edits(yaml.build_tree({sb!r})) costs {e.bounds()}")
            except Exception as ex:
                print(f"note: library comparison raised {type(ex).__name__}: {ex}")
    if failures:
        print("C02 violated: a multi-document YAML stream equals the single document listing its documents")
        for f in failures:
            print("  -", f)
        return 1
    print("ok: a multi-document stream differs from a single list document")
    return 0


if __name__ == "__main__":
    sys.exit(main())
