#!/venv/bin/python
"""Apply a behaviour-preserving refactoring patch to a scratch copy of /repo and run every quick check: any VIOLATION is a
false alarm of the checker; exit-2 (inconclusive) results are listed separately.
usage: try_refactor.py <patch> ..."""
import json, os, shutil, subprocess, sys, tempfile
V = os.path.dirname(os.path.dirname(os.path.abspath(__file__)))
sys.path.insert(0, V)
from gtstatic import core
from gtstatic.__main__ import run_rules
props = [c["property_id"] for c in json.load(open(os.path.join(V, "MANIFEST.json")))["checks"]]
for patch in sys.argv[1:]:
    d = tempfile.mkdtemp(prefix="rf_")
    try:
        shutil.copytree("/repo/graphtage", os.path.join(d, "graphtage"), ignore=shutil.ignore_patterns("__pycache__"))
        r = subprocess.run(["git", "apply", "--whitespace=nowarn", "-p1", patch], cwd=d, capture_output=True, text=True)
        if r.returncode:
            print(patch, "DOES NOT APPLY", r.stderr[:200]); continue
        bad, inc = [], []
        for p in props:
            try:
                ctx = run_rules(p, d, "quick", quiet=True)
            except Exception as e:
                inc.append((p, f"crash {type(e).__name__}: {e}")); continue
            core.apply_known(ctx, core.load_known())
            for i in ctx.instances:
                if i.verdict == core.VIOLATION:
                    bad.append((p, i.rule, i.func, i.detail[:160]))
                elif i.verdict == core.INCONCLUSIVE:
                    inc.append((p, f"{i.rule} {i.func}: {i.detail[:120]}"))
            for f in ctx.floors:
                if f[1] < f[2]:
                    inc.append((p, f"floor {f[0]} {f[1]}<{f[2]} {f[3]}"))
        # editing the construct of a recorded finding re-reports that finding: it violates the property before and after
        restated = [b for b in bad if b[3].startswith("[the construct of a recorded finding has been edited")]
        bad = [b for b in bad if b not in restated]
        tag = "FALSE-ALARM" if bad else ("inconclusive" if inc else ("silent (re-states a recorded finding)" if restated else "silent"))
        print(f"{patch}: {tag}")
        seen = set()
        for b in bad:
            if b[1:] not in seen:
                seen.add(b[1:]); print("   V", b)
        seen = set()
        for b in inc:
            if b[1] not in seen:
                seen.add(b[1]); print("   ?", b)
    finally:
        shutil.rmtree(d, ignore_errors=True)
