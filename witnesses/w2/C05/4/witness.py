"""C05 witness 4: an alternative of a PossibleEdits that becomes invalid while it is not the current best match is never
discarded. The PossibleEdits then stops refining (tighten_bounds() returns False) with bounds that are not definitive,
is_complete() stays False, and an enclosing EditCollection raises an AssertionError - an internal error - when refined.
This happens for every order of driving the API (so "same result in every order" holds vacuously, but "never raises an
internal error" does not)."""
import sys

from graphtage import json as gjson
from graphtage.edits import EditCollection, EditSequence, Match, PossibleEdits, Replace
import graphtage.levenshtein as lev

lev.DEFAULT_PRINTER.quiet = True


def make():
    a = gjson.build_tree({"k": [["", None, 12], "aaaa"]})
    b = gjson.build_tree({})
    # Alternative 1: a fixed overhead of 2 plus the ordinary edit. Its cost (2 + 16) exceeds the upper bound an
    # EditCollection allows itself (a.total_size + b.total_size + 1 == 16), so it declares itself invalid once refined.
    # Alternative 2: replace the whole node (cost 16). This is the right answer: [16, 16].
    overhead = EditSequence(a, b, iter([Match(a, b, 2), a.edits(b)]))
    return a, b, PossibleEdits(a, b, iter([overhead, Replace(a, b)]))


bad = False

a, b, edit = make()
steps = 0
while edit.tighten_bounds():
    steps += 1
    if steps > 100000:
        print("tighten_bounds() does not terminate")
        sys.exit(1)
print(f"after full refinement: bounds={edit.bounds()} valid={edit.valid} complete={edit.is_complete()} "
      f"script={[type(e).__name__ for e in edit.edits()]}")
if edit.valid and not edit.bounds().definitive():
    print("VIOLATION: tighten_bounds() returned False, the edit is valid, but its bounds are not definitive "
          "(expected [16, 16])")
    bad = True

a, b, edit = make()
parent = EditCollection(a, b, list, list.append, iter([edit]), explode_edits=False)
try:
    steps = 0
    while parent.tighten_bounds():
        steps += 1
        if steps > 100000:
            print("parent.tighten_bounds() does not terminate")
            sys.exit(1)
    print(f"enclosing EditCollection: bounds={parent.bounds()}")
except AssertionError as e:
    import traceback
    traceback.print_exc()
    print("VIOLATION: internal AssertionError while refining an EditCollection that contains the PossibleEdits")
    bad = True

sys.exit(1 if bad else 0)
