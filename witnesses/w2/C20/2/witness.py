#!/usr/bin/env python
"""C20 witness 2: a YAML file that consists of unbalanced opening brackets (no closing bracket at all) kills the
interpreter with SIGSEGV: no error message, no Python-level exception handling, exit "status" = killed by signal 11.

Exit 1 when the violation shows, 0 otherwise."""
import os
import subprocess
import sys
import tempfile

DEPTHS = (30_000, 300_000)            # 30 kB .. 300 kB of '['; the default 8 MiB stack gives way at about 27 000


def run_cli(args, cwd):
    return subprocess.run([sys.executable, "-m", "graphtage", "--no-status", "--no-color"] + args, cwd=cwd,
                          stdout=subprocess.PIPE, stderr=subprocess.PIPE, timeout=600)


def main():
    failures = []
    with tempfile.TemporaryDirectory() as d:
        with open(os.path.join(d, "good.yaml"), "wb") as f:
            f.write(b"[1]\n")
        for n in DEPTHS:
            for label, data in (("open brackets only", b"[" * n),
                                ("one closing bracket missing", b"[" * n + b"]" * (n - 1))):
                with open(os.path.join(d, "bad.yaml"), "wb") as f:
                    f.write(data)
                for args in (["bad.yaml", "good.yaml"], ["good.yaml", "bad.yaml"]):
                    p = run_cli(args, d)
                    err = p.stderr.decode("utf-8", "replace")
                    problems = []
                    if p.returncode < 0:
                        problems.append(f"process killed by signal {-p.returncode}")
                    if "Traceback (most recent call last)" in err:
                        problems.append("uncaught exception: " + err.strip().splitlines()[-1])
                    if "Error parsing bad.yaml" not in err:
                        problems.append("no `Error parsing bad.yaml` message on stderr (stderr: %r)" % err[-80:])
                    if p.returncode == 0:
                        problems.append("exit status 0")
                    if p.stdout.strip():
                        problems.append("something was printed on stdout")
                    if problems:
                        failures.append((n, label, args, problems))
    if failures:
        print("C20 VIOLATED: YAML with unbalanced brackets crashes the process instead of being reported")
        for n, label, args, problems in failures:
            print(f"  depth {n} ({label}): graphtage {' '.join(args)}")
            for pr in problems:
                print(f"      - {pr}")
        return 1
    print("ok: every unbalanced YAML document was reported as an error naming the file")
    return 0


if __name__ == "__main__":
    sys.exit(main())
