"""C09 witness 1: a string with a non-BMP character, written the way json.dumps() writes it by default
("\\ud83d\\ude00"), loads as one character from .json / .yaml / .plist but as two lone surrogates from .json5."""
import contextlib
import io
import json
import os
import plistlib
import sys
import tempfile

import yaml

from graphtage import json as gjson, yaml as gyaml, plist as gplist
from graphtage.graphtage import BuildOptions
from graphtage.__main__ import main
import graphtage.printer

try:  # cosmetic only: no progress bars on stderr
    graphtage.printer.DEFAULT_PRINTER.quiet = True
except Exception:  # noqa
    pass

DATA = {"face": "\U0001F600"}


def cost(a, b):
    e = a.edits(b)
    while e.tighten_bounds():
        pass
    return e.bounds().upper_bound


def run_cli(a, b):
    out, err = io.StringIO(), io.StringIO()
    try:
        with contextlib.redirect_stdout(out), contextlib.redirect_stderr(err):
            return main(["graphtage", "--no-status", "--no-color", a, b])
    except SystemExit as e:
        return e.code
    except Exception as e:  # noqa
        return f"raised {type(e).__name__}: {e}"


def main_():
    d = tempfile.mkdtemp(prefix="c09w1_")
    text = json.dumps(DATA)  # {"face": "😀"} -- pure ASCII, valid JSON *and* valid JSON5
    assert "\\ud83d\\ude00" in text
    paths = {}
    for ext, blob in (("json", text.encode()), ("json5", text.encode()), ("yaml", yaml.dump(DATA).encode()),
                      ("plist", plistlib.dumps(DATA))):
        paths[ext] = os.path.join(d, "doc." + ext)
        with open(paths[ext], "wb") as f:
            f.write(blob)
    opts = BuildOptions()
    trees = {
        "json": gjson.JSON.default_instance.build_tree(paths["json"], opts),
        "json5": gjson.JSON5.default_instance.build_tree(paths["json5"], opts),
        "yaml": gyaml.YAML.default_instance.build_tree(paths["yaml"], opts),
        # the PLISTNode wrapper is a known, separate defect: look through it
        "plist": gplist.PLIST.default_instance.build_tree(paths["plist"], opts).root,
    }
    problems = []
    # control: the other three agree
    for other in ("yaml", "plist"):
        if not (trees["json"] == trees[other] and cost(trees["json"], trees[other]) == 0):
            print(f"unexpected: json and {other} disagree; the witness is not testing what it thinks")
            return 0
    for other in ("json", "yaml", "plist"):
        if not (trees["json5"] == trees[other]) or not (trees[other] == trees["json5"]):
            problems.append(f"json5 tree != {other} tree: {trees['json5'].to_obj()!r} vs {trees[other].to_obj()!r}")
        c1, c2 = cost(trees["json5"], trees[other]), cost(trees[other], trees["json5"])
        if c1 or c2:
            problems.append(f"cost json5->{other} = {c1}, {other}->json5 = {c2} (expected 0)")
    for a, b in (("json", "json5"), ("json5", "json"), ("json5", "yaml"), ("yaml", "json5")):
        rc = run_cli(paths[a], paths[b])
        if rc != 0:
            problems.append(f"graphtage doc.{a} doc.{b} -> exit status {rc!r} (expected 0)")
    if problems:
        print("VIOLATION: the same data loaded from JSON5 differs from JSON/YAML/plist")
        for p in problems:
            print("  " + p)
        return 1
    print("ok")
    return 0


if __name__ == "__main__":
    sys.exit(main_())
