"""C18 - Python objects are converted faithfully and cycles never hang.

R18a dispatch agreement between json.build_tree and BasicBuilder; R18b to_obj exposes values, not nodes (and items()
overrides keep the (key, value) shape); R18c copy_from arity; R18d cycle guard of the iterative builder and
unguarded recursive builders.
"""
import ast

from ..astx import code
from ..astx import walk_no_nested, dotted, call_name, self_attr, func_params, dominating_conditions, flatten_conditions, \
    parent, ancestors, terminates
from ..core import norm, Inconclusive
from .. import pat
from .. import nodeshape

TREE = "graphtage.tree.TreeNode"


def json_table(m):
    """[(type name(s), node class, value expression, If node)] in test order from json.build_tree's isinstance chain."""
    f = m.func("graphtage.json.build_tree")
    obj = func_params(f.node)[0]
    out = []

    def walk(stmts):
        for s in stmts:
            if isinstance(s, ast.If):
                types = []
                for c in ast.walk(s.test):
                    if isinstance(c, ast.Call) and call_name(c) == "isinstance" and dotted(c.args[0]) == obj:
                        t = c.args[1]
                        types += [dotted(x) for x in (t.elts if isinstance(t, ast.Tuple) else [t])]
                if isinstance(s.test, ast.Compare) and dotted(s.test.left) == obj and isinstance(s.test.ops[0], ast.Is):
                    types = ["None"]
                ret = next((r for r in s.body if isinstance(r, ast.Return)), None)
                cls, val = None, None
                if ret is not None and isinstance(ret.value, ast.Call):
                    cls = (call_name(ret.value) or "").split(".")[0]
                    val = ret.value.args[0] if ret.value.args else None
                # an arm of the dispatch returns a node; a block that only checks or records something about the object
                # (a cycle guard in front of the chain) decides nothing about its node class
                arm = any(isinstance(x, ast.Return) for b_ in s.body for x in ast.walk(b_))
                if types and arm:
                    out.append((types, cls, val, s))
                walk(s.orelse)
    walk(f.node.body)
    return f, obj, out


def builder_table(m):
    """{type name: (node class, FuncInfo)} from @Builder.builder decorators of BasicBuilder."""
    q = m.need_class("BasicBuilder")
    out = {}
    for name, (kind, v) in m.attrs[q].items():
        if kind != "def":
            continue
        for d in v.node.decorator_list:
            if isinstance(d, ast.Call) and (dotted(d.func) or "").endswith("Builder.builder") and d.args:
                t = d.args[0]
                tn = "None" if ast.unparse(t) == "type(None)" else dotted(t)
                ret = next((r for r in walk_no_nested(v.node) if isinstance(r, ast.Return) and isinstance(r.value, ast.Call)), None)
                cls = (call_name(ret.value) or "").split(".")[0] if ret is not None else None
                if cls is None:
                    # dict: DictNode.from_dict / FixedKeyDictNode.from_dict
                    cls = "DictNode" if "DictNode.from_dict" in code(v.node) else None
                out[tn] = (cls, v)
    return out


def r18a(ctx):
    m = ctx.model
    ctx.rule("R18a", "dispatch agreement: json.build_tree's isinstance chain (bool tested before int) and BasicBuilder's "
                     "type registry map every shared Python type to the same node class, and scalars are stored unchanged")
    f, obj, jt = json_table(m)
    bt = builder_table(m)
    order = [t for types, _, _, _ in jt for t in types]
    if "bool" in order and "int" in order and order.index("bool") < order.index("int"):
        ctx.proved("R18a", f.file, "build_tree", jt[0][3], "bool before int", "isinstance(x, bool) is tested before isinstance(x, int)")
    else:
        ctx.violation("R18a", f.file, "build_tree", jt[0][3] if jt else f.node, "bool before int",
                      f"isinstance order {order}: bool is a subclass of int, so testing int first turns True/False into "
                      f"IntegerNode(1/0) and the value no longer reads back as a bool")
    jmap = {}
    for types, cls, val, node in jt:
        for t in types:
            jmap.setdefault(t, (cls, val, node))
    n = 0
    for t in sorted(set(jmap) & set(bt)):
        n += 1
        jc, val, node = jmap[t]
        bc, bf = bt[t]
        jc_n = jc
        if t == "dict":
            # both builders choose DictNode / FixedKeyDictNode by allow_key_edits (the selection itself is R10a)
            jsrc, bsrc = ast.unparse(node), code(bf.node)
            both = all("DictNode.from_dict" in x.replace("FixedKeyDictNode", "FKD") and "FixedKeyDictNode.from_dict" in x
                       for x in (jsrc, bsrc))
            jc_n = bc = "DictNode|FixedKeyDictNode" if both else (jc, bc)
        if jc_n == bc:
            ctx.proved("R18a", f.file, "build_tree", node, f"type {t}", f"{t} -> {bc} in both builders")
        else:
            ctx.violation("R18a", f.file, "build_tree", node, f"type {t}",
                          f"json.build_tree maps {t} to {jc_n} but BasicBuilder.{bf.node.name} maps it to {bc}: the same "
                          f"object converts differently depending on the entry point")
        if val is not None and t in ("bool", "int", "float", "str", "bytes") and dotted(val) != obj:
            ctx.violation("R18a", f.file, "build_tree", node, f"type {t} value",
                          f"json.build_tree stores `{norm(val, 40)}` for a {t} instead of the object itself, while "
                          f"BasicBuilder stores the object: to_obj() no longer equals the original and differs between "
                          f"entry points")
    for t in ("bool", "int", "float", "str", "None", "list", "dict"):
        if t not in bt:
            ctx.violation("R18a", bt[next(iter(bt))][1].file if bt else "graphtage/builder.py", "BasicBuilder", None,
                          f"BasicBuilder handles {t}", f"BasicBuilder registers no builder for {t}"
                          + (" (True/False would be built as IntegerNode through bool's MRO)" if t == "bool" else ""))
    ctx.floor("R18a", n, 6, "Python types handled by both builders")


def r18b(ctx):
    m = ctx.model
    ctx.rule("R18b", "to_obj() of every container reaches its children only through .to_obj() (plain values, never "
                     "nodes), and overrides of items() in the mapping family keep the base shape (key node, value node)")
    n = 0
    for q in sorted(m.subclasses(TREE)):
        if "to_obj" not in m.attrs[q] or m.attrs[q]["to_obj"][0] != "def":
            continue
        f = m.attrs[q]["to_obj"][1]
        short = q.rsplit(".", 1)[-1]
        if any((dotted(d) or "").endswith("abstractmethod") for d in f.node.decorator_list):
            continue
        is_leaf = m.is_subclass(q, "graphtage.graphtage.LeafNode")
        n += 1
        bad = []
        for r in walk_no_nested(f.node):
            if not (isinstance(r, ast.Return) and r.value is not None):
                continue
            if is_leaf:
                continue
            # node-valued attributes returned raw
            comps = r.value.elts if isinstance(r.value, (ast.Tuple, ast.List)) else [r.value]
            for c in comps:
                if self_attr(c) and not self_attr(c).startswith("__"):
                    bad.append(c)
                if isinstance(c, ast.Dict):
                    for k in c.keys + c.values:
                        if k is not None and self_attr(k):
                            bad.append(k)
        # comprehensions over the node's children must convert each child
        if not is_leaf:
            for comp in walk_no_nested(f.node):
                if isinstance(comp, (ast.ListComp, ast.GeneratorExp, ast.SetComp, ast.DictComp)):
                    lv = {x.id for g in comp.generators for x in ast.walk(g.target) if isinstance(x, ast.Name)}
                    def node_iter(it):
                        if isinstance(it, ast.Name) and it.id == "self":
                            return True
                        if self_attr(it) == "_children":
                            return True
                        if isinstance(it, ast.Call) and isinstance(it.func, ast.Attribute) and it.func.attr in ("items", "children", "elements", "values") \
                                and (dotted(it.func.value) in ("self", "self._children")):
                            return True
                        return False
                    over_self = any(node_iter(g.iter) for g in comp.generators)
                    if not over_self:
                        continue
                    elts = [comp.key, comp.value] if isinstance(comp, ast.DictComp) else [comp.elt]
                    for e in elts:
                        for nme in ast.walk(e):
                            if isinstance(nme, ast.Name) and nme.id in lv:
                                p_ = parent(nme)
                                conv = isinstance(p_, ast.Attribute) and p_.attr == "to_obj"
                                getat = isinstance(p_, ast.Call) and call_name(p_) == "getattr"
                                if not conv and not getat and not isinstance(p_, ast.Subscript):
                                    bad.append(nme)
        if bad:
            ctx.violation("R18b", f.file, f"{short}.to_obj", bad[0], f"{short}.to_obj returns nodes",
                          f"{short}.to_obj() returns `{norm(bad[0], 30)}` - a tree node, not its plain value: the Python "
                          f"value read back from the tree contains graphtage nodes instead of the original objects")
        else:
            ctx.proved("R18b", f.file, f"{short}.to_obj", f.node, f"{short}.to_obj",
                       "children are converted through .to_obj()" if not is_leaf else "returns the wrapped object")
    ctx.floor("R18b", n, 6, "to_obj implementations")
    mq = m.need_class("MappingNode")
    base = m.method(mq, "items")
    for q in sorted(m.subclasses(mq, strict=True)):
        if "items" in m.attrs[q] and m.attrs[q]["items"][0] == "def":
            f = m.attrs[q]["items"][1]
            short = q.rsplit(".", 1)[-1]
            txt = code(f.node)
            if ".key" in txt and ".value" in txt:
                ctx.proved("R18b", f.file, f"{short}.items", f.node, f"{short}.items shape", "yields (pair.key, pair.value)")
            else:
                ctx.violation("R18b", f.file, f"{short}.items", f.node, f"{short}.items shape",
                              f"{short}.items() yields `{norm(f.node.body[-1], 60)}` - (key, key/value PAIR node) - while "
                              f"MappingNode.items() promises (key, value): MappingNode.to_obj() then maps every key to a "
                              f"(key node, value node) tuple instead of the value")


def r18c(ctx):
    m = ctx.model
    ctx.rule("R18c", "deep copy: every concrete node class that relies on TreeNode.copy_from (`self.__class__(*children)`) "
                     "has an __init__ that accepts the shape of children() positionally, in order")
    k = 0
    for q, ok, detail in nodeshape.copy_from_problems(m):
        k += 1
        mod, c = m.classes[q]
        short = q.rsplit(".", 1)[-1]
        if ok:
            ctx.proved("R18c", m.files[mod], f"{short}.copy_from", c, f"{short}.copy_from arity", detail)
        else:
            ctx.violation("R18c", m.files[mod], f"{short}.copy_from", c, f"{short}.copy_from arity",
                          detail + "; TreeNode.copy() of a tree containing such a node raises or builds a different tree")
    ctx.floor("R18c", k, 5, "node classes relying on TreeNode.copy_from")
    # TreeNode.copy only appends what copy_from returned
    tn = m.need_class("TreeNode")
    cp = m.method(tn, "copy")
    cf = pat.first("N = X.copy_from(C)", cp.node)[1]
    if cf is not None and bool(pat.find_expr(f"ANY.append({cf['N']})", cp.node)):
        ctx.proved("R18c", cp.file, "TreeNode.copy", cp.node, "copy protocol", "children handed to copy_from are the fresh copies")
    else:
        ctx.violation("R18c", cp.file, "TreeNode.copy", cp.node, "copy protocol",
                      "TreeNode.copy no longer builds each node from the copies of its children")


def r18l(ctx):
    m = ctx.model
    ctx.rule("R18l", "conversion is as deep as the builder: Builder.build_tree and TreeNode.copy are iterative on purpose, so node "
                     "constructors must not walk the depth of the tree themselves.  A constructor that uses its children as keys of a "
                     "dict or members of a set hashes each child, and a __hash__ that is `hash(<children>)` without a cached value "
                     "recurses to the leaves: a list nested a few hundred levels deep cannot be built (RecursionError), and building "
                     "costs O(n * depth)")
    TREE = "graphtage.tree.TreeNode"
    n = 0
    rec_hash = {}
    for q in sorted(m.subclasses(TREE)):
        h = m.method(q, "__hash__")
        if h is None:
            continue
        rets = [r for r in walk_no_nested(h.node) if isinstance(r, ast.Return) and r.value is not None]
        cached = any(isinstance(a, (ast.Assign, ast.AnnAssign)) and self_attr(a.targets[0] if isinstance(a, ast.Assign) else a.target)
                     for a in walk_no_nested(h.node))
        if rets and all(isinstance(r.value, ast.Call) and call_name(r.value) == "hash" and r.value.args and
                        (self_attr(r.value.args[0]) or "frozenset(" in ast.unparse(r.value.args[0]) or "tuple(" in ast.unparse(r.value.args[0]))
                        for r in rets) and not cached:
            rec_hash[q] = h
    for q in sorted(m.subclasses(TREE)):
        init = m.method(q, "__init__")
        if init is None or init.cls != q or m.method(q, "__hash__") is None or m.method(q, "__hash__").cls not in rec_hash and m.method(q, "__hash__").qual not in {h.qual for h in rec_hash.values()}:
            continue
        for c in walk_no_nested(init.node):
            keyed = None
            if isinstance(c, ast.DictComp) and isinstance(c.key, ast.Name) and any(isinstance(g.target, (ast.Name, ast.Tuple)) and c.key.id in
                                                                                   {x.id for x in ast.walk(g.target) if isinstance(x, ast.Name)}
                                                                                   and "children" in ast.unparse(g.iter) for g in c.generators):
                keyed = c
            if keyed is None:
                continue
            n += 1
            short = q.rsplit(".", 1)[-1]
            hq = m.method(q, "__hash__")
            ctx.violation("R18l", init.file, f"{short}.__init__", keyed, f"{short}.__init__ hashes its children",
                          f"`{norm(keyed, 60)}` uses every child as a dictionary key while {hq.short} is `{norm(hq.node.body[-1], 40)}` with no "
                          f"cached value: constructing a node hashes the whole subtree below it, recursively - a list nested ~500 deep "
                          f"(which Builder.build_tree itself handles iteratively) raises RecursionError, dict nesting of 5000 does not")
    if not n:
        ctx.proved("R18l", "graphtage/", "-", None, "constructors do not hash subtrees", "no node constructor keys a dict by children under an uncached structural __hash__")
    ctx.floor("R18l", len(rec_hash), 1, "structural __hash__ implementations")


def r18m(ctx):
    m = ctx.model
    ctx.rule("R18m", "every entry of a mapping reaches the tree: the builder receives one built node per key and per value; collecting "
                     "them in a Python dict keyed by the key NODES merges entries whose keys were distinct objects but build equal "
                     "nodes (two instances of a user class with the same fields: identity-hashed as objects, structurally equal as "
                     "PyObj nodes) - an entry is lost without any error, while the same two objects in a set are kept with multiplicity 2")
    bq = m.find_class("BasicBuilder")
    f = m.method(bq, "build_dict") if bq else None
    if f is None:
        ctx.inconclusive("R18m", "graphtage/builder.py", "BasicBuilder.build_dict", None, "build_dict", "BasicBuilder.build_dict not found")
        return
    hits = []
    for c in walk_no_nested(f.node):
        if isinstance(c, ast.DictComp) and any(isinstance(g.iter, ast.Call) and call_name(g.iter) == "zip" for g in c.generators):
            hits.append(c)
        elif isinstance(c, ast.Call) and call_name(c) == "dict" and c.args and isinstance(c.args[0], ast.Call) and call_name(c.args[0]) == "zip":
            hits.append(c)
    ctx.floor("R18m", 1, 1, "mapping builders")
    if hits:
        ctx.violation("R18m", f.file, "BasicBuilder.build_dict", hits[0], "pairs keyed by key nodes",
                      f"`{norm(hits[0], 60)}` re-keys the entries by their built key nodes before DictNode.from_dict sees them: "
                      f"`{{Point(1): 'first', Point(1): 'second'}}` (two distinct objects) arrives as one pair and 'first' is gone")
    else:
        ctx.proved("R18m", f.file, "BasicBuilder.build_dict", f.node, "pairs keyed by key nodes", "the pairs are passed on without being merged by node equality")


def r18k(ctx):
    m = ctx.model
    ctx.rule("R18k", "reporting a cycle does not walk the cycle: Builder.build_tree never formats an object of the input graph with "
                     "repr()/str() (`{node!r}`, `{child}`) outside a guard against RecursionError - the __repr__ of a user class that "
                     "prints its fields recurses on the very cycle being reported, so the caller gets RecursionError instead of the "
                     "cycle error or the placeholder (f-strings are evaluated even when the log level drops the message)")
    bq = m.need_class("Builder")
    bt = m.method(bq, "build_tree")
    f = bt.file
    params = [p_ for p_ in func_params(bt.node) if p_ != "self"]
    graph = set(params)
    for _ in range(3):
        for a in walk_no_nested(bt.node):
            tg, val = None, None
            if isinstance(a, ast.Assign):
                tg, val = a.targets[0], a.value
            elif isinstance(a, ast.For):
                tg, val = a.target, a.iter
            elif isinstance(a, ast.comprehension):
                tg, val = a.target, a.iter
            if tg is None:
                continue
            if any(isinstance(x, ast.Name) and x.id in graph for x in ast.walk(val)) or "self.expand(" in ast.unparse(val) or "work" in ast.unparse(val):
                for x in ast.walk(tg):
                    if isinstance(x, ast.Name) and x.id not in ("_", "t", "work"):
                        graph.add(x.id)
    graph -= {"processed_children", "new_node", "grandchildren_", "all_are_leaves", "is_cycle"}

    def guarded_helper(c):
        """a module-level / same-class helper that wraps repr() in try/except RecursionError"""
        h = None
        if isinstance(c.func, ast.Name):
            r_ = m.resolve_expr(bt.module, c.func)
            h = m.functions.get(r_[0][1]) if r_ and r_[0] and r_[0][0] == "func" else None
        elif self_attr(c.func):
            h = m.method(bq, self_attr(c.func))
        if h is None:
            return False
        for t_ in walk_no_nested(h.node):
            if isinstance(t_, ast.Try) and any(hd.type is not None and "RecursionError" in ast.unparse(hd.type) for hd in t_.handlers) \
                    and any(isinstance(x, ast.Call) and (call_name(x) or "").rsplit(".", 1)[-1] in ("repr", "str") for s_ in t_.body for x in ast.walk(s_)):
                return True
        return False
    n = 0
    bad = []
    for x in walk_no_nested(bt.node):
        tgt = None
        if isinstance(x, ast.FormattedValue) and isinstance(x.value, ast.Name) and x.value.id in graph:
            tgt = x
        elif isinstance(x, ast.Call) and call_name(x) in ("repr", "str") and x.args and isinstance(x.args[0], ast.Name) and x.args[0].id in graph:
            tgt = x
        elif isinstance(x, ast.FormattedValue) and isinstance(x.value, ast.Call) and any(isinstance(a_, ast.Name) and a_.id in graph for a_ in x.value.args):
            n += 1
            if not (guarded_helper(x.value) or call_name(x.value) in ("type", "id", "len")):
                bad.append(x)
            continue
        if tgt is None:
            continue
        n += 1
        in_try = any(isinstance(a_, ast.Try) and any(hd.type is not None and "RecursionError" in ast.unparse(hd.type) for hd in a_.handlers)
                     for a_ in __import__("gtstatic.astx", fromlist=["ancestors"]).ancestors(tgt))
        if not in_try:
            bad.append(tgt)
    for x in bad:
        ctx.violation("R18k", f, "Builder.build_tree", x, f"formats `{norm(x, 30)}`",
                      f"`{norm(x, 40)}` calls the __repr__/__str__ of an object of the input graph while a cycle through it is being "
                      f"reported: two objects that refer to each other and print their fields make this raise RecursionError, with "
                      f"ignore_cycles on as well (the debug message is formatted before the logger drops it)")
    # ... and does not unfold it either: repr() cuts cycles but prints a shared sub-object once per reference, so a cyclic
    # structure that also holds a DAG of n doubling levels costs 2**n time and memory to *describe*; the text must come from
    # a size-bounded formatter (reprlib) or from type/id
    unbounded = []
    for x in walk_no_nested(bt.node):
        c_ = x.value if isinstance(x, ast.FormattedValue) and isinstance(x.value, ast.Call) else None
        if c_ is None or not any(isinstance(a_, ast.Name) and a_.id in graph for a_ in c_.args):
            continue
        h_ = None
        if isinstance(c_.func, ast.Name):
            r_ = m.resolve_expr(bt.module, c_.func)
            h_ = m.functions.get(r_[0][1]) if r_ and r_[0] and r_[0][0] == "func" else None
        elif self_attr(c_.func):
            h_ = m.method(bq, self_attr(c_.func))
        if h_ is None:
            continue
        raw = [y for y in walk_no_nested(h_.node) if isinstance(y, ast.Call) and isinstance(y.func, ast.Name) and y.func.id in ("repr", "str", "ascii", "format")
               and y.args and isinstance(y.args[0], ast.Name) and y.args[0].id in func_params(h_.node)]
        raw += [y for y in walk_no_nested(h_.node) if isinstance(y, ast.FormattedValue) and isinstance(y.value, ast.Name) and y.value.id in func_params(h_.node)]
        if raw:
            unbounded.append((x, h_, raw[0]))
    for x, h_, y in unbounded[:1]:
        ctx.violation("R18k", f, "Builder.build_tree", x, "cycle message bounded",
                      f"`{norm(x, 40)}` describes an object of the input graph with `{norm(y, 30)}` (in {h_.short}): repr() stops at cycles but "
                      f"prints a shared sub-object once per reference, so for a cyclic structure that also holds `x = [x, x]` repeated n "
                      f"times the message costs 2**n - the cycle error (or the placeholder) never arrives; use reprlib.repr or type/id")
    if not unbounded:
        ctx.proved("R18k", f, "Builder.build_tree", bt.node, "cycle message bounded",
                   "objects of the input graph are described through a size-bounded formatter or by type/id")
    if not bad:
        ctx.proved("R18k", f, "Builder.build_tree", bt.node, "cycle messages do not recurse",
                   f"{n} formatted objects of the input graph, all through a RecursionError guard or by type/id")
    ctx.floor("R18k", n, 1, "input-graph objects formatted in Builder.build_tree")


def r18d(ctx):
    m = ctx.model
    ctx.rule("R18d", "cycle guard: the iterative builder compares the node being expanded with its ancestors on the work "
                     "stack by identity (`is`), over the whole stack, and either raises or appends the placeholder; "
                     "recursive builders over user object graphs have an ancestor guard")
    from ..astx import class_helpers, ancestors as _anc
    bq = m.need_class("Builder")
    bt = m.method(bq, "build_tree")
    f = bt.file
    workv = next((dotted(x.test) for x in walk_no_nested(bt.node) if isinstance(x, ast.While) and isinstance(x.test, ast.Name)), "work")
    region = class_helpers(m, bq, bt)
    # module-level helpers of the builder module that are handed the work stack (`_is_being_expanded(work, child)`)
    for c in walk_no_nested(bt.node):
        if isinstance(c, ast.Call) and isinstance(c.func, ast.Name) and any(dotted(a) == workv for a in c.args):
            r_ = m.resolve_expr(bt.module, c.func)
            h_ = m.functions.get(r_[0][1]) if r_ and r_[0] and r_[0][0] == "func" else None
            if h_ is not None and h_.qual not in [x.qual for x in region]:
                region.append(h_)
    # names under which the work stack is known in each function of the region (parameter aliasing through self-calls)
    stack_names = {bt.qual: {workv}}
    changed = True
    while changed:
        changed = False
        for g in region:
            for c in walk_no_nested(g.node):
                h = None
                if isinstance(c, ast.Call) and isinstance(c.func, ast.Attribute) and isinstance(c.func.value, ast.Name) and c.func.value.id == "self":
                    h = m.method(bq, c.func.attr)
                elif isinstance(c, ast.Call) and isinstance(c.func, ast.Name):
                    h = next((x for x in region if x.cls is None and x.node.name == c.func.id), None)
                if h is not None:
                    if h.qual not in [x.qual for x in region]:
                        continue
                    hp = [p_ for p_ in func_params(h.node) if p_ != "self"]
                    for k_, a in enumerate(c.args):
                        if dotted(a) in stack_names.get(g.qual, set()) and k_ < len(hp) and hp[k_] not in stack_names.setdefault(h.qual, set()):
                            stack_names[h.qual].add(hp[k_])
                            changed = True
    scans = []     # (function, node that iterates the stack, comparisons inside)
    for g in region:
        names = stack_names.get(g.qual, set())
        for x in walk_no_nested(g.node):
            if isinstance(x, ast.For) and (dotted(x.iter) in names or (isinstance(x.iter, ast.Subscript) and dotted(x.iter.value) in names)):
                scans.append((g, x, x.iter, [c for c in ast.walk(x) if isinstance(c, ast.Compare)]))
            elif isinstance(x, (ast.GeneratorExp, ast.ListComp)) and any(dotted(gen.iter) in names or (isinstance(gen.iter, ast.Subscript) and dotted(gen.iter.value) in names)
                                                                        for gen in x.generators):
                it = next(gen.iter for gen in x.generators if dotted(gen.iter) in names or isinstance(gen.iter, ast.Subscript))
                scans.append((g, x, it, [c for c in ast.walk(x) if isinstance(c, ast.Compare)]))
    if not scans:
        ctx.violation("R18d", f, "Builder.build_tree", bt.node, "ancestor scan",
                      "the builder no longer scans its work stack for the node being expanded: a cyclic structure is "
                      "expanded forever")
    for g, node, it, cmps in scans:
        ident = [c for c in cmps if isinstance(c.ops[0], ast.Is)]
        eqs = [c for c in cmps if isinstance(c.ops[0], ast.Eq)]
        if ident and not eqs:
            ctx.proved("R18d", f, g.short, node, "identity comparison over the stack",
                       f"`{norm(ident[0])}` for every entry of the work stack (ancestors only: shared sub-objects are not cycles)")
        else:
            ctx.violation("R18d", f, g.short, (eqs or [node])[0], "identity comparison over the stack",
                          f"ancestors are compared with `{norm((eqs or cmps or [node])[0], 40)}` instead of `is`: two distinct but "
                          f"equal sub-objects (e.g. [[], []] or shared values) are mistaken for a cycle")
        if isinstance(it, ast.Subscript):
            ctx.violation("R18d", f, g.short, node, "whole stack", f"only `{norm(it)}` of the stack is scanned")
    # on a hit: placeholder if cycles are ignored, ValueError otherwise - somewhere in the region an `if` on ignore_cycles has
    # the raise on one side and the CyclicReference on the other (its own arms, or the statements following it)
    ok = False
    for g in region:
        for i_ in walk_no_nested(g.node):
            if isinstance(i_, ast.If) and "ignore_cycles" in ast.unparse(i_.test):
                from ..astx import block_of
                lst, idx = block_of(i_)
                scope_nodes = list(ast.walk(i_)) + [y for s_ in (lst[idx + 1:] if lst else []) for y in ast.walk(s_)]
                has_raise = any(isinstance(y, ast.Raise) for y in scope_nodes)
                has_ph = any(isinstance(y, ast.Call) and (call_name(y) or "").endswith("CyclicReference") for y in scope_nodes)
                ok = ok or (has_raise and has_ph)
    if scans:
        if ok:
            ctx.proved("R18d", f, "Builder.build_tree", scans[0][1], "raise or placeholder",
                       "on a hit: CyclicReference placeholder if ignore_cycles, else ValueError")
        else:
            ctx.violation("R18d", f, "Builder.build_tree", scans[0][1], "raise or placeholder",
                          "a detected cycle is neither reported (ValueError) nor replaced by the placeholder on every path")
    # the guard must not be skipped: conditions that disable it other than the options and the leaf shortcut
    leafnames = {s_.targets[0].id for g in region for s_ in walk_no_nested(g.node) if isinstance(s_, ast.Assign) and isinstance(s_.targets[0], ast.Name)
                 and any(isinstance(c, ast.Call) and call_name(c) in ("all", "any") for c in ast.walk(s_.value))}
    listnames = {s_.targets[0].id for s_ in walk_no_nested(bt.node) if isinstance(s_, ast.Assign) and isinstance(s_.targets[0], ast.Name)
                 and isinstance(s_.value, ast.Call) and call_name(s_.value) == "list"} | \
                {x.id for s_ in walk_no_nested(bt.node) if isinstance(s_, ast.Assign) and isinstance(s_.targets[0], ast.Tuple)
                 for x in s_.targets[0].elts if isinstance(x, ast.Name)}
    helper_names = {g.node.name for g in region}
    # locals computed element-wise from such a list (`expanders = [self.resolve_expander(type(g)) for g in grandchildren]`) stand
    # for it in a leaf test; what they were computed with is part of that test
    derived = {}
    for g_ in region:
        for s_ in walk_no_nested(g_.node):
            if isinstance(s_, ast.Assign) and len(s_.targets) == 1 and isinstance(s_.targets[0], ast.Name):
                v_ = s_.value
                if isinstance(v_, ast.Call) and call_name(v_) in ("list", "tuple") and v_.args:
                    v_ = v_.args[0]
                if isinstance(v_, (ast.ListComp, ast.GeneratorExp)) and dotted(v_.generators[0].iter) in listnames:
                    derived[s_.targets[0].id] = v_
    listnames |= set(derived)
    import re as _re

    def _mentions(text, names):
        return bool(set(_re.findall(r"[A-Za-z_]\w*", text)) & set(names))
    for g, node, it, cmps in scans:
        anchor = node
        if not isinstance(node, ast.For):
            anchor = next((a for a in _anc(node) if isinstance(a, ast.stmt)), node)
        facts = [ast.unparse(t) for t, pol in flatten_conditions(dominating_conditions(anchor))]
        # conjuncts that sit in the same test as the scan
        encl = next((a for a in _anc(node) if isinstance(a, ast.If)), None)
        if encl is not None and any(node is y for y in ast.walk(encl.test)) and isinstance(encl.test, ast.BoolOp):
            facts += [ast.unparse(v) for v in encl.test.values if not any(node is y for y in ast.walk(v))]
        allowed = leafnames | listnames | set(stack_names.get(g.qual, ())) | set(func_params(g.node)) | helper_names
        extra = [x for x in facts if "check_for_cycles" not in x and not _mentions(x, allowed) and x not in ("True",)]
        # and the chain of calls that leads from build_tree to the helper holding the scan
        if g.qual != bt.qual:
            for c in walk_no_nested(bt.node):
                if isinstance(c, ast.Call) and self_attr(c.func) == g.node.name:
                    st = next((a for a in _anc(c) if isinstance(a, ast.stmt)), None)
                    cf = [ast.unparse(t) for t, pol in flatten_conditions(dominating_conditions(st))] if st is not None else []
                    if isinstance(st, ast.If) and isinstance(st.test, ast.BoolOp):
                        cf += [ast.unparse(v) for v in st.test.values if not any(c is y for y in ast.walk(v))]
                    extra += [x for x in cf if "check_for_cycles" not in x and x != workv and not _mentions(x, leafnames | listnames | helper_names)]
        if extra:
            ctx.violation("R18d", f, g.short, node, "guard reachable",
                          f"the ancestor scan only runs under {extra}: some cyclic shapes bypass it")
        else:
            ctx.proved("R18d", f, g.short, node, "guard reachable",
                       "the scan runs whenever the child has non-leaf grandchildren and cycle checking is on")
    # the leaf shortcut that skips the scan must use the same expansion as the traversal itself
    def reaches_expand(e, depth=0):
        for c in ast.walk(e):
            if isinstance(c, ast.Call) and self_attr(c.func) == "expand":
                return True
            if isinstance(c, ast.Call) and self_attr(c.func) and depth < 2:
                h = m.method(bq, self_attr(c.func))
                if h is not None and h.node.name != "build_tree" and any(reaches_expand(s_, depth + 1) for s_ in h.node.body):
                    return True
        return False
    shortcuts = []
    for g in region:
        if g.node.name in ("expand", "resolve_expander", "resolve_builder"):
            continue
        for c in walk_no_nested(g.node):
            if isinstance(c, ast.Call) and call_name(c) in ("all", "any") and c.args and isinstance(c.args[0], (ast.GeneratorExp, ast.ListComp)):
                gen = c.args[0].generators[0]
                over_stack = dotted(gen.iter) in stack_names.get(g.qual, set())
                outer = next((a for a in _anc(c) if isinstance(a, ast.Call) and call_name(a) in ("all", "any")), None)
                if not over_stack and outer is None and (dotted(gen.iter) in listnames or dotted(gen.iter) in func_params(g.node)):
                    shortcuts.append((g, c))
    def bypasses(e, leaf_polarity):
        """Sub-expressions that can decide 'leaf' on their own without expanding the grandchild."""
        if isinstance(e, ast.UnaryOp) and isinstance(e.op, ast.Not):
            return bypasses(e.operand, not leaf_polarity)
        if isinstance(e, ast.BoolOp):
            alone = isinstance(e.op, ast.Or) == leaf_polarity       # each operand can settle 'leaf' by itself
            if alone:
                return [b for v in e.values for b in bypasses(v, leaf_polarity)]
            per = [bypasses(v, leaf_polarity) for v in e.values]
            return [] if any(not b for b in per) else per[0]
        return [] if reaches_expand(e) else [e]
    for g, c in shortcuts:
        elt = c.args[0].elt
        src_ = derived.get(dotted(c.args[0].generators[0].iter))
        if src_ is not None and reaches_expand(src_):
            ctx.proved("R18d", f, g.short, c, "leaf shortcut uses expand()",
                       f"the list tested was computed with self.expand() (`{norm(src_, 60)}`)")
            continue
        by = bypasses(elt, call_name(c) == "all")
        if by:
            ctx.violation("R18d", f, g.short, by[0], "leaf shortcut uses expand()",
                          f"`{norm(by[0], 70)}` can declare a grandchild a leaf without calling self.expand() on it: objects expanded "
                          f"by default_expander (custom classes in pydiff) have no registered expander but do have children, so a "
                          f"cycle running only through such objects skips the ancestor scan and is expanded forever")
        elif reaches_expand(c):
            ctx.proved("R18d", f, g.short, c, "leaf shortcut uses expand()",
                       "a grandchild counts as a leaf only if self.expand(grandchild) yields nothing - the same expansion the traversal uses")
        else:
            ctx.violation("R18d", f, g.short, c, "leaf shortcut uses expand()",
                          f"`{norm(c, 90)}` decides 'leaf' without calling self.expand(): objects expanded by "
                          f"default_expander (custom classes) have children but count as leaves, so a cycle running only "
                          f"through such objects skips the ancestor scan and is expanded forever")
    # the same decision written as a loop with a flag: a `for` over the grandchildren whose body only decides (tests, flag
    # assignments, continue / break) is a leaf test, and it must expand what it tests
    for g in region:
        if g.node.name in ("expand", "resolve_expander", "resolve_builder"):
            continue
        for lp in walk_no_nested(g.node):
            if not (isinstance(lp, ast.For) and (dotted(lp.iter) in listnames or dotted(lp.iter) in func_params(g.node))
                    and dotted(lp.iter) not in stack_names.get(g.qual, set())):
                continue
            body_nodes = [x for s_ in lp.body for x in ast.walk(s_)]
            # a deciding loop: tests, assignments, continue / break / a boolean answer - it does no work on the traversal state
            effects = [x for x in body_nodes if isinstance(x, ast.Call) and isinstance(x.func, ast.Attribute)
                       and (self_attr(x.func) not in (None, "resolve_expander", "resolve_builder")
                            or (x.func.attr in ("append", "extend", "pop") and dotted(x.func.value) in stack_names.get(g.qual, set()) | {"work", "processed_children"}))]
            answers = [x for x in body_nodes if (isinstance(x, ast.Return) and isinstance(x.value, ast.Constant) and isinstance(x.value.value, bool))
                       or (isinstance(x, ast.Assign) and isinstance(x.value, ast.Constant) and isinstance(x.value.value, bool))]
            deciding = not effects and bool(answers) and not any(isinstance(x, (ast.For, ast.While, ast.Yield, ast.YieldFrom)) for x in body_nodes) \
                and any(isinstance(x, (ast.Break, ast.Continue, ast.Return)) for x in body_nodes)
            if deciding and not any(reaches_expand(s_) for s_ in lp.body):
                ctx.violation("R18d", f, g.short, lp, "leaf shortcut uses expand()",
                              f"the loop `for {norm(lp.target, 20)} in {norm(lp.iter, 30)}` decides whether the ancestor scan is needed without "
                              f"calling self.expand() on the grandchildren (`{norm(lp.body[0], 60)}`): objects expanded by default_expander "
                              f"(custom classes in pydiff) have children but no registered expander, so a cycle running only through them "
                              f"skips the scan and is expanded forever")
    # recursive builders
    for fq in ("graphtage.json.build_tree",):
        g = m.functions.get(fq)
        if g is None:
            continue
        rec = [c for c in walk_no_nested(g.node) if isinstance(c, ast.Call) and dotted(c.func) == g.node.name]
        guards = [c for c in walk_no_nested(g.node) if isinstance(c, ast.Compare) and isinstance(c.ops[0], (ast.Is, ast.In))
                  and any(isinstance(x, ast.Name) and x.id in ("ancestors", "seen", "visited", "stack") for x in ast.walk(c))]
        if rec and not guards:
            ctx.violation("R18d", g.file, "build_tree", rec[0], "recursive builder without guard",
                          f"json.build_tree recurses into lists and dicts (`{norm(rec[0], 50)}`) with no ancestor check: a "
                          f"self-referential list or dict ends in RecursionError, not in a cycle error or placeholder, and "
                          f"check_for_cycles / ignore_cycles are ignored")
        elif rec:
            ctx.proved("R18d", g.file, "build_tree", rec[0], "recursive builder guarded", "recursion is guarded by an ancestor test")


def r18e(ctx):
    m = ctx.model
    ctx.rule("R18e", "builders keep no per-object memo keyed by id(): object ids are recycled and objects are mutable, so a "
                     "builder reused for a second conversion would replay stale children")
    n = 0
    bq = m.need_class("Builder")
    for q in sorted(m.subclasses(bq)):
        for name, (kind, v) in m.attrs[q].items():
            if kind != "def":
                continue
            for c in walk_no_nested(v.node):
                key = None
                if isinstance(c, ast.Subscript) and self_attr(c.value) and isinstance(c.slice, ast.Call) and call_name(c.slice) == "id":
                    key = c
                elif isinstance(c, ast.Call) and isinstance(c.func, ast.Attribute) and c.func.attr in ("get", "setdefault", "pop") \
                        and self_attr(c.func.value) and c.args and isinstance(c.args[0], ast.Call) and call_name(c.args[0]) == "id":
                    key = c
                if key is not None:
                    n += 1
                    ctx.violation("R18e", v.file, v.short, key, f"id()-keyed memo in {v.short}",
                                  f"`{norm(key, 60)}` memoises on id(obj) in a field of the builder: after the object is "
                                  f"mutated, or a new object is allocated at a recycled address, the builder returns the old "
                                  f"expansion and the tree no longer equals the object")
    # builders are stateless across objects: conversion methods store nothing on self
    for q in sorted(m.subclasses(bq)):
        for name, (kind, v) in m.attrs[q].items():
            if kind != "def" or name in ("__init__", "__init_subclass__", "__new__"):
                continue
            for x in walk_no_nested(v.node):
                tgt = None
                if isinstance(x, (ast.Attribute, ast.Subscript)) and isinstance(x.ctx, (ast.Store, ast.Del)):
                    base = x if isinstance(x, ast.Attribute) else x.value
                    d = dotted(base)
                    if d and d.startswith("self."):
                        tgt = x
                elif isinstance(x, ast.Call) and isinstance(x.func, ast.Attribute) and self_attr(x.func.value) \
                        and x.func.attr in ("append", "add", "update", "setdefault", "extend", "insert"):
                    tgt = x
                if tgt is not None and not any(isinstance(c, ast.Call) and call_name(c) == "id" for c in ast.walk(tgt)):
                    n += 1
                    ctx.violation("R18e", v.file, v.short, tgt, f"builder state written in {v.short}",
                                  f"`{norm(tgt, 60)}` stores per-object information on the builder during conversion: what was "
                                  f"learnt from one object (e.g. the attribute names of the first instance of a class) is replayed "
                                  f"for later objects, so their trees no longer equal them")
    if n == 0:
        ctx.proved("R18e", m.files[m.classes[bq][0]], "Builder", None, "no id()-keyed memo", "no builder field is indexed by id(obj) or written during conversion")


def r18f(ctx):
    from .c10 import recursive_options
    ctx.rule("R18f", "every recursive build call passes the options object on, so nested levels are converted under the same "
                     "build options as the top level (identically through every entry point)")
    recursive_options(ctx, "R18f")


def r18g(ctx):
    m = ctx.model
    ctx.rule("R18g", "json.build_tree: every branch that returns a leaf node precedes the `force_leaf_node` refusal (the branch "
                     "used for mapping keys), so every value the builders of graphtage.builder accept as a key - including "
                     "None - is accepted here too")
    f, obj, jt = json_table(m)
    refusal = None

    def walk(stmts):
        nonlocal refusal
        for s_ in stmts:
            if isinstance(s_, ast.If):
                if isinstance(s_.test, ast.Name) and s_.test.id == "force_leaf_node" and any(isinstance(x, ast.Raise) for x in s_.body):
                    refusal = s_
                walk(s_.orelse)
    walk(f.node.body)
    if refusal is None:
        ctx.proved("R18g", f.file, "build_tree", f.node, "leaf branches before the refusal", "no force_leaf_node refusal", nontrivial=False)
        return
    leaf = m.need_class("LeafNode")
    late = [(types, cls, node) for types, cls, _, node in jt if cls and m.find_class(cls) and m.is_subclass(m.find_class(cls), leaf)
            and node.lineno > refusal.lineno]
    if late:
        for types, cls, node in late:
            ctx.violation("R18g", f.file, "build_tree", node, f"{cls} branch after the refusal",
                          f"the `{'/'.join(types)}` branch (-> {cls}) comes after `elif force_leaf_node: raise ValueError`, so that value "
                          f"is refused as a mapping key: {{None: 1}} (YAML `~: 1`) raises ValueError here while BasicBuilder and "
                          f"pydiff.build_tree build {{NullNode(): 1}}")
    else:
        ctx.proved("R18g", f.file, "build_tree", refusal, "leaf branches before the refusal", "all leaf-returning branches are tested first")


def r18h(ctx):
    m = ctx.model
    ctx.rule("R18h", "node identity is structural: (1) every concrete node class resolves __eq__ and __hash__ to project-defined "
                     "methods (object's identity comparison makes a tree unequal to its own copy); (2) those methods do not compare "
                     "with `is` or id() on the node's payload (a payload wrapper is allocated per node, so two trees built from the "
                     "same object would differ)")
    TREE = "graphtage.tree.TreeNode"
    n = 0
    for q in sorted(m.subclasses(TREE)):
        if m.is_abstract(q) or m.is_subclass(q, "graphtage.tree.EditedTreeNode") or q == TREE:
            continue
        n += 1
        short = q.rsplit(".", 1)[-1]
        eq, hs = m.method(q, "__eq__"), m.method(q, "__hash__")
        mod, node = m.classes[q]
        if eq is None or hs is None:
            ctx.violation("R18h", m.files[mod], short, node, f"{short} equality",
                          f"{short} defines {'no __eq__' if eq is None else ''}{' and ' if eq is None and hs is None else ''}"
                          f"{'no __hash__' if hs is None else ''} (nor does any base class): nodes are compared by identity, so a tree "
                          f"containing a {short} is never equal to its copy or to a second tree built from the same input")
            continue
        bad = []
        for fn in (eq, hs):
            if fn.cls != q:
                continue
            for x in walk_no_nested(fn.node):
                if isinstance(x, ast.Compare) and any(isinstance(o, (ast.Is, ast.IsNot)) for o in x.ops) \
                        and any(".object" in ast.unparse(y) for y in [x.left] + x.comparators):
                    bad.append((fn, x))
                if isinstance(x, ast.Call) and call_name(x) == "id" and x.args and ".object" in ast.unparse(x.args[0]):
                    bad.append((fn, x))
        if bad:
            fn, x = bad[0]
            ctx.violation("R18h", fn.file, fn.short, x, f"{short} equality by payload identity",
                          f"`{norm(x, 50)}` in {fn.short} compares the payload object by identity; the payload is a wrapper allocated "
                          f"for each node, so two trees built from the same object (or a tree and its copy) are unequal")
        else:
            ctx.proved("R18h", m.files[mod], short, node, f"{short} equality", f"{eq.short} / {hs.short}", nontrivial=False)
    ctx.floor("R18h", n, 20, "concrete node classes")


def r18i(ctx):
    m = ctx.model
    ctx.rule("R18i", "hashable positions: Python dict keys and set members are hashable containers too (tuple, frozenset) and the "
                     "builders turn them into ListNode / MultiSetNode; (1) a to_obj() that places children's values in a hashed "
                     "position (dict key, Counter / set element) needs every node class that can sit there to read back as a "
                     "hashable value, (2) DictNode.from_dict sorts its pairs through KeyValuePairNode.__lt__ -> key < key, so every "
                     "node class that can be a key needs an ordering")
    # which node classes can be keys / set members: what the builder makes of the hashable container types
    bt = builder_table(m)
    hashable_sources = {t: bt[t][0] for t in ("tuple", "frozenset") if t in bt}
    n = 0
    for t, cls in sorted(hashable_sources.items()):
        q = m.find_class(cls)
        if q is None:
            continue
        n += 1
        to = m.method(q, "to_obj")
        rets = [r for r in walk_no_nested(to.node) if isinstance(r, ast.Return) and r.value is not None]
        unhash = [r for r in rets if isinstance(r.value, (ast.List, ast.ListComp, ast.Dict, ast.DictComp, ast.Set, ast.SetComp))
                  or (isinstance(r.value, ast.Call) and call_name(r.value) in ("list", "dict", "set"))]
        hashed_sites = []
        for k in sorted(m.subclasses("graphtage.tree.ContainerNode")):
            own = m.attrs[k].get("to_obj")
            if not own or own[0] != "def":
                continue
            for x in walk_no_nested(own[1].node):
                if isinstance(x, ast.DictComp) and isinstance(x.key, ast.Call) and isinstance(x.key.func, ast.Attribute) and x.key.func.attr == "to_obj":
                    hashed_sites.append((own[1], x, "dict key"))
                if isinstance(x, ast.Call) and (call_name(x) or "").rsplit(".", 1)[-1] in ("HashableCounter", "Counter", "set", "frozenset") \
                        and x.args and isinstance(x.args[0], ast.GeneratorExp) and "to_obj()" in ast.unparse(x.args[0].elt):
                    hashed_sites.append((own[1], x, "multiset element"))
        if unhash and hashed_sites:
            site = hashed_sites[0]
            ctx.violation("R18i", to.file, f"{cls}.to_obj", unhash[0], f"{cls}.to_obj unhashable in hashed positions",
                          f"a Python {t} becomes a {cls}, whose to_obj() returns `{norm(unhash[0].value, 40)}` (unhashable); "
                          f"{site[0].short} puts children's to_obj() values in a {site[2]} (`{norm(site[1], 50)}`, {len(hashed_sites)} such "
                          f"site(s)): to_obj() of {{(1, 2)}} or {{(1, 2): 3}} raises TypeError: unhashable type although building and "
                          f"copying the tree succeed")
        else:
            ctx.proved("R18i", to.file, f"{cls}.to_obj", to.node, f"{cls}.to_obj unhashable in hashed positions", "reads back as a hashable value (or is never hashed)")
        if m.method(q, "__lt__") is None:
            fd = m.method(m.need_class("DictNode"), "from_dict")
            srt = next((c for c in walk_no_nested(fd.node) if isinstance(c, ast.Call) and call_name(c) == "sorted"), None)
            if srt is not None:
                ctx.violation("R18i", fd.file, "DictNode.from_dict", srt, f"{cls} keys cannot be sorted",
                              f"DictNode.from_dict sorts its pairs (`{norm(srt, 50)}`), KeyValuePairNode.__lt__ compares the keys, and "
                              f"{cls} (what a Python {t} key becomes) defines no __lt__: a dict with two {t} keys raises TypeError: '<' not "
                              f"supported under the default dictionary strategy, while allow_key_edits=False (no sorting) builds it")
        else:
            ctx.proved("R18i", m.files[m.classes[q][0]], cls, None, f"{cls} keys cannot be sorted", f"{cls} defines __lt__")
    ctx.floor("R18i", n, 2, "hashable container types handled by the builder")


def run(ctx):
    r18k(ctx)
    r18l(ctx)
    from ..pairing import e12
    e12(ctx)          # ancestor sets of recursive builders are unwound on every exit
    r18m(ctx)
    r18a(ctx)
    r18b(ctx)
    r18c(ctx)
    r18d(ctx)
    r18e(ctx)
    r18f(ctx)
    r18g(ctx)
    r18h(ctx)
    r18i(ctx)
    ctx.assume("equality of round-tripped values (floats, big ints, str subclasses) is a statement about values and is "
               "not decided beyond the structural clauses")
