"""Print the prompt given to an independent defect-hunting sub-agent for one property (property text + the one-line
descriptions of already recorded findings, so that they are not reported again)."""
import json, sys
pid, wt = sys.argv[1], sys.argv[2]
for l in open('/verif/properties.jsonl'):
    p = json.loads(l)
    if p['id'] == pid:
        break
known = [f for f in json.load(open('/verif/known_findings.json'))['findings'] if f['property'] == pid and f['status'] == 'known']
import re
_d = open('/verif/DESIGN.md').read()
_m = re.search(r"\*\*Judged outside the properties' quantifiers \(not recorded, not repaired\)\*\*: (.*?)\n\n", _d, re.S)
JUDGED = " ".join(_m.group(1).split()) if _m else ""
kn = "\n".join(f"  - {f['what']}" for f in known) or "  (none)"
print(f"""You are helping to evaluate the open-source Python project trailofbits/graphtage (a semantic diff tool for JSON/YAML/XML/CSV/plist). You have your own scratch git worktree of the project at {wt} (python package in {wt}/graphtage, tests in {wt}/test). Work ONLY inside {wt}; do not read or touch /repo or /verif or any other directory under /tmp.

Here is a semantic property the project is supposed to satisfy:

  id: {p['id']}
  title: {p['title']}
  statement: {p['statement']}
  quantifier: {p['quantifier']['text']}
  relevant files: {', '.join(p['anchors']['files'])}

Your job: find out whether the code AS IT IS (do not modify the package) violates this property for some input, option combination, call sequence or configuration inside the quantifier. Read the relevant code carefully, form hypotheses about where it could go wrong (edge cases, unusual types, empty/degenerate inputs, option combinations, ordering, re-entrancy, caching, laziness), and test them by writing small scripts (model-based / differential / brute-force checks against an independent oracle you write yourself are welcome; keep runs under a few minutes each). Be a sceptical, thorough bug hunter: spend most of your effort on the less obvious corners.

Already known violations of this property (do NOT report these again, and steer your experiments away from them):
{kn}

Behaviours that were examined before and judged to lie OUTSIDE what the properties quantify over (do not report these either): {JUDGED}

For EACH distinct new violation you can demonstrate (at most 5, most convincing first) deliver inside {wt}/hunt_out/<i>/ :
  - witness.py : a small standalone program that exits 1 (printing what went wrong) when the violation shows and 0 otherwise; it must NOT assert on graphtage.__file__ (it will be re-run against another checkout via PYTHONPATH); run it as `cd {wt} && PYTHONPATH={wt} /venv/bin/python hunt_out/<i>/witness.py`;
  - notes.md   : 5-12 lines: the minimal input / options / calls, observed vs expected behaviour, the root cause as precisely as you can locate it (file, function, the statement(s) responsible), whether several witnesses share one root cause, and a sketch of the smallest repair a maintainer would accept.
Distinct means distinct root causes: several inputs failing for the same reason are ONE finding. Only report what you have reproduced; a suspicion without a failing run goes into a final "unconfirmed suspicions" list in your report, not into hunt_out/.

The interpreter is /venv/bin/python (3.12, all dependencies installed; no network). Do not edit the package or the tests; leave the worktree clean apart from hunt_out/. You do not need to run the project's test suite.

Housekeeping: never use `git stash` (shared between parallel worktrees) and never use pkill/killall; kill only PIDs you started.

Finish with a short report: per finding a 3-line summary (input, observed/expected, root cause location), then the unconfirmed suspicions, then a one-paragraph account of what you tested that held up (so that the absence of findings is informative).""")
