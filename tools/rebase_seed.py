#!/venv/bin/python
"""Re-base a kept seeded change onto the current /repo HEAD after `fix:` commits moved its context, and re-confirm it.

usage: rebase_seed.py <SID> [--no-tests]
The patch is applied with `patch -p1 -F3` in a scratch worktree; the regenerated `git diff` replaces patch.diff (the
original is kept as patch.orig.diff); then the same confirmation as verify_seed.py runs (demo passes on HEAD, fails with
the patch, package imports, 66 tests pass).  meta.json records the re-base.
"""
import json, os, re, shutil, subprocess, sys, time
PY = "/venv/bin/python"

def sh(cmd, cwd=None, env=None, timeout=3000):
    e = dict(os.environ); e.update(env or {})
    import signal   # a job started with `&` from a non-interactive shell ignores SIGINT, which the suite's test_timing needs
    p = subprocess.run(cmd, cwd=cwd, env=e, shell=isinstance(cmd, str), capture_output=True, text=True, timeout=timeout,
                       preexec_fn=lambda: signal.signal(signal.SIGINT, signal.SIG_DFL))
    return p.returncode, p.stdout + p.stderr

def main():
    sid = sys.argv[1]
    run_tests = "--no-tests" not in sys.argv
    sd = f"/verif/seeded/{sid}"
    wt = f"/tmp/vs/rb-{sid}"
    os.makedirs("/tmp/vs", exist_ok=True)
    sh(["git", "-C", "/repo", "worktree", "remove", "--force", wt])
    rc, out = sh(["git", "-C", "/repo", "worktree", "add", "--detach", wt, "HEAD", "-q"]); assert rc == 0, out
    try:
        meta = json.load(open(f"{sd}/meta.json"))
        head = sh(["git", "-C", "/repo", "rev-parse", "--short", "HEAD"])[1].strip()
        env = {"PYTHONPATH": wt, "PYTHONHASHSEED": "0"}
        demo_src = open(f"{sd}/demo.py").read()
        demo_txt = re.sub(r"/tmp/(?:wt[0-9]*|vs)/[A-Za-z0-9_-]+", wt, demo_src)
        os.makedirs(f"{wt}/seed_out/x", exist_ok=True)
        vdemo = f"{wt}/seed_out/x/demo.py"
        open(vdemo, "w").write(demo_txt)
        rc0, out0 = sh([PY, vdemo], cwd=wt, env=env, timeout=900)
        patch = f"{sd}/patch.diff"
        rc, out = sh(["git", "apply", "--whitespace=nowarn", patch], cwd=wt)
        rebased = False
        if rc != 0:
            rc, out = sh(f"patch -p1 -F3 -s < {patch}", cwd=wt)
            if rc != 0:
                print(sid, "CANNOT-REBASE", out[-300:]); return
            for junk in subprocess.run("find graphtage -name '*.orig' -o -name '*.rej'", cwd=wt, shell=True, capture_output=True, text=True).stdout.split():
                os.remove(os.path.join(wt, junk))
            rebased = True
        rci, outi = sh([PY, "-c", "import graphtage, graphtage.__main__"], cwd=wt, env=env)
        rc1, out1 = sh([PY, vdemo], cwd=wt, env=env, timeout=900)
        tests = None
        if run_tests:
            rct, outt = sh([PY, "-m", "pytest", "-q", "-p", "no:cacheprovider", "--timeout=900", "-x"], cwd=wt, env={"PYTHONHASHSEED": "0"}, timeout=3000)
            last = [l for l in outt.strip().splitlines() if "passed" in l or "failed" in l or "error" in l.lower()][-1:]
            tests = {"exit": rct, "summary": last}
        ok = rc0 == 0 and rci == 0 and rc1 != 0 and (tests is None or (tests["exit"] == 0 and "66 passed" in " ".join(tests["summary"])))
        if ok and rebased:
            newdiff = sh(["git", "diff", "--", "graphtage"], cwd=wt)[1]
            if not os.path.exists(f"{sd}/patch.orig.diff"):
                shutil.copy(patch, f"{sd}/patch.orig.diff")
            open(patch, "w").write(newdiff)
        meta.setdefault("rebased", []).append({"onto": head, "rebased": rebased, "confirmed": bool(ok), "demo_pristine": rc0, "import": rci,
                                               "demo_patched": rc1, "tests": tests})
        if ok:
            meta["base_commit"] = head
            meta["confirmed"] = True
        else:
            meta["confirmed_on_current_head"] = False
        json.dump(meta, open(f"{sd}/meta.json", "w"), indent=1)
        print(sid, "RE-CONFIRMED" if ok else f"NOT-CONFIRMED demo0={rc0} import={rci} demo1={rc1} tests={tests}", "(rebased)" if rebased else "")
        if not ok:
            print(out0[-300:], out1[-300:])
    finally:
        sh(["git", "-C", "/repo", "worktree", "remove", "--force", wt]); shutil.rmtree(wt, ignore_errors=True)

if __name__ == "__main__":
    main()
