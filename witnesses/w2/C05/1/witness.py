"""C05 witness 1: PossibleEdits / IterativeTighteningSearch forget an alternative that was refined through the
sub-edit that PossibleEdits.edits() itself handed out.

Same pair of lists, same alternatives. Driving A: tighten the PossibleEdits until tighten_bounds() returns False.
Driving B: first list its sub-edits (edits()), fully refine the listed sub-edit (as the formatter / has_non_zero_cost /
get_all_edit_contexts do with sub-edits), then tighten the PossibleEdits until tighten_bounds() returns False.
Both must end with the same, definitive cost."""
import sys

from graphtage import json as gjson
from graphtage.edits import PossibleEdits
from graphtage.sequences import FixedLengthSequenceEdit
import graphtage.levenshtein as lev

lev.DEFAULT_PRINTER.quiet = True

FROM = ["abcdefgh", "xyzxyzxyz", [1, 2, 3, "abcdefg"]]
TO = ["abcfefgh", "xyxyzxyy", [1, 2, 4, "abdefg"]]


def make():
    a = gjson.build_tree(FROM)
    b = gjson.build_tree(TO)
    # choose between aligning the two lists with insertions/removals and aligning them position by position
    return PossibleEdits(a, b, iter([a.edits(b), FixedLengthSequenceEdit(a, b)]))


def finish(edit):
    steps = 0
    while edit.tighten_bounds():
        steps += 1
        if steps > 100000:
            print("tighten_bounds() does not terminate")
            sys.exit(1)
    return edit.bounds(), edit.is_complete(), [type(e).__name__ for e in edit.edits()]


# Driving A
bounds_a, complete_a, script_a = finish(make())

# Driving B
edit = make()
for sub_edit in edit.edits():
    while sub_edit.tighten_bounds():
        pass
bounds_b, complete_b, script_b = finish(edit)

print(f"A (tighten only):                 bounds={bounds_a} complete={complete_a} script={script_a}")
print(f"B (list + refine sub-edit first): bounds={bounds_b} complete={complete_b} script={script_b}")

bad = False
if not bounds_b.definitive():
    print("VIOLATION: tighten_bounds() returned False although the bounds are not definitive")
    bad = True
if (str(bounds_a), complete_a, script_a) != (str(bounds_b), complete_b, script_b):
    print("VIOLATION: the final cost/completeness depends on the order in which the edit API was driven")
    bad = True
sys.exit(1 if bad else 0)
