"""C02: two identical XML documents must give exit status 0; with --format json (also json5, csv, plist, whose
formatters fall back to the JSON one) graphtage dies with a ValueError while printing and exits 1."""
import os, subprocess, sys, tempfile


def run(*args):
    p = subprocess.run([sys.executable, "-m", "graphtage", "--no-color", "--quiet", *args],
                       stdout=subprocess.PIPE, stderr=subprocess.PIPE, env=os.environ)
    return p.returncode, p.stdout.decode("utf-8", "replace"), p.stderr.decode("utf-8", "replace")


def main():
    failures = []
    with tempfile.TemporaryDirectory() as d:
        for i, doc in enumerate((b"<a/>", b'<a x="1">t<b>u</b></a>')):
            p = os.path.join(d, f"d{i}.xml")
            with open(p, "wb") as f:
                f.write(doc)
            rc, _, _ = run(p, p)
            if rc != 0:
                failures.append(f"{doc!r} against itself (XML output): exit status {rc}")
            for fmt in ("json", "json5", "csv", "plist"):
                rc, out, err = run(p, p, "--format", fmt)
                if rc != 0:
                    last = [line for line in err.strip().splitlines() if line.strip()][-1:]
                    failures.append(f"{doc!r} against itself with --format {fmt}: exit status {rc}; {last}"[:330])
    if failures:
        print("C02 violated: identical XML documents do not exit with status 0")
        for f in failures:
            print("  -", f)
        return 1
    print("ok: identical XML documents exit 0 with every output format")
    return 0


if __name__ == "__main__":
    sys.exit(main())
