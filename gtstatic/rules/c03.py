"""C03 - the reported cost equals the sum of its parts, in every view.

R03a (E1) sources(bounds) == sources(edits) for every compound edit, with agreeing None-guards; R03b the alignment
matrix accumulates exactly the step it returns; R03c the views (edited_cost, get_all_edit_contexts, exit status) read
the script only through edit_list / edits().
"""
import ast

from .. import e1
from ..astx import code
from ..astx import self_attr, walk_no_nested, dotted, call_name, parent, resolve_local, func_params, \
    flatten_conditions, dominating_conditions, terminates, block_of, decorator_names
from ..core import norm
from .. import pat


def roots_and_consts(model, q, sources, zero=()):
    roots, consts, unknown, has_delegate = {}, [], [], False
    for s in sources:
        if s.kind in ("attr", "coll"):
            if s.name in zero:
                continue
            roots[s.name] = s
        elif s.kind == "via":
            nm = s.name
            if nm.startswith("self.") and nm.endswith("()"):
                eq = e1.helper_equivalent(model, q, nm[5:-2])
                if eq:
                    if eq not in zero:
                        roots[eq] = s
                    continue
                unknown.append(s)
            else:
                r = nm[5:] if nm.startswith("self.") else nm
                if r not in zero:
                    roots[r] = s
        elif s.kind == "const":
            consts.append(s)
        elif s.kind == "=edits()":
            has_delegate = True
        elif s.kind == "super":
            continue
        else:
            unknown.append(s)
    return roots, consts, unknown, has_delegate


def none_guard(s):
    return sorted(g for g in s.guard if g.endswith("is not None") and f"self.{s.name}" in g)


def r03a(ctx, only=None):
    """only: restrict reported problems to tags starting with one of these prefixes (used by C02: uncounted sub-edits)."""
    m = ctx.model
    ctx.rule("R03a", "for every compound edit class, bounds() adds up exactly the sub-edits that edits() lists: same "
                     "attribute/collection sources, same constant-edit populations (no partial selection), same "
                     "None-guards (E1)")
    classes = e1.compound_classes(m)
    n = 0
    seen_impl = set()
    for q in classes:
        fb, fe = m.method(q, "bounds"), m.method(q, "edits")
        key = (fb.qual, fe.qual)
        if key in seen_impl:
            continue
        seen_impl.add(key)
        short = q.rsplit(".", 1)[-1]
        zero = e1.zero_cost_collections(m, q)
        sb = e1.extract(fb.node, "bounds")
        se = e1.extract(fe.node, "edits")
        # costs cached by the constructor: a self field read by bounds() whose __init__ assignment sums .bounds() calls
        # contributes the sources of that assignment
        init = m.method(q, "__init__")
        if init is not None and init.cls == fb.cls:
            read = {self_attr(x) for x in walk_no_nested(fb.node) if self_attr(x) and isinstance(getattr(x, "ctx", None), ast.Load)}
            cached = [a for a in walk_no_nested(init.node) if isinstance(a, (ast.Assign, ast.AnnAssign)) and a.value is not None
                      and self_attr(a.targets[0] if isinstance(a, ast.Assign) else a.target) in read
                      and any(isinstance(c, ast.Call) and isinstance(c.func, ast.Attribute) and c.func.attr == "bounds" for c in ast.walk(a.value))]
            if cached:
                inside = {id(x) for a in cached for x in ast.walk(a)}
                sb = sb + [s_ for s_ in e1.extract(init.node, "bounds") if id(s_.node) in inside]
        rb, cb, ub, delegate = roots_and_consts(m, q, sb, zero)
        if not rb and not cb and not delegate:
            # the summing may sit in a same-class helper that bounds() calls (`total = self._sub_edit_bounds()`)
            from ..astx import class_helpers
            hs_ = class_helpers(m, fb.cls, fb, depth=1)[1:]
            # ... or in a helper inherited from a base class (`self.sub_edit_bounds() if self.is_complete() else self._estimate()`)
            for c_ in walk_no_nested(fb.node):
                if isinstance(c_, ast.Call) and self_attr(c_.func):
                    h_ = m.method(q, self_attr(c_.func))
                    if h_ is not None and h_.qual not in {x.qual for x in hs_} and h_.qual != fb.qual:
                        hs_.append(h_)
            for h_ in hs_:
                if h_.node.name not in ("bounds", "edits", "tighten_bounds", "is_complete", "__init__") and not decorator_names(h_.node):
                    sb = sb + e1.extract(h_.node, "bounds")
            rb, cb, ub, delegate = roots_and_consts(m, q, sb, zero)
        re_, ce, ue, _ = roots_and_consts(m, q, se, zero)
        n += 1
        if not rb and not cb and not delegate:
            # bounds() does not sum sub-edits at all (matrix / search based): covered by R03b or by delegation
            if any(s.kind == "super" for s in sb) and short == "EditDistance":
                ctx.proved("R03a", fb.file, f"{short}.bounds", fb.node, f"{short}: matrix-based",
                           "bounds() reads the alignment matrix; part/whole agreement is R03b", nontrivial=False)
                continue
            ctx.inconclusive("R03a", fb.file, f"{short}.bounds", fb.node, f"{short}: no sources",
                             f"cannot extract what {short}.bounds() adds up")
            continue
        if ub or ue:
            u = (ub + ue)[0]
            ctx.inconclusive("R03a", fb.file, f"{short}.bounds", u.node, f"{short}: {u.ident}",
                             f"source `{u.ident}` in {short} is not an attribute, collection or constant-edit population")
            continue
        if delegate and not rb and not cb:
            ctx.proved("R03a", fb.file, f"{short}.bounds", fb.node, f"{short}: bounds sums self.edits()",
                       "bounds() iterates self.edits(): identical by construction")
            continue
        mixed_ = next((s_ for s_ in sb if s_.kind == "=edits()"), None) if delegate else None
        problems = []
        only_b = sorted(set(rb) - set(re_))
        only_e = sorted(set(re_) - set(rb))
        for a in only_b:
            problems.append((rb[a].node, f"bounds() adds self.{a} which edits() never lists", f"bounds-only self.{a}"))
        for a in only_e:
            problems.append((re_[a].node, f"edits() lists self.{a} whose cost bounds() does not add", f"edits-only self.{a}"))
        for a in sorted(set(rb) & set(re_)):
            gb, ge = none_guard(rb[a]), none_guard(re_[a])
            if gb != ge:
                problems.append((rb[a].node, f"self.{a} is used under guard {gb or 'none'} in bounds() but {ge or 'none'} in edits()", f"guard self.{a}"))
        cbm = {c.name.split("[")[0]: c for c in cb}
        cem = {c.name.split("[")[0]: c for c in ce}
        for ctor in sorted(set(cbm) | set(cem)):
            b, e = cbm.get(ctor), cem.get(ctor)
            if b is None:
                problems.append((e.node, f"edits() emits {e.name} but bounds() adds no {ctor} cost", f"edits-only {ctor}"))
            elif e is None:
                problems.append((b.node, f"bounds() adds {b.name} but edits() emits no {ctor}", f"bounds-only {ctor}"))
            elif b.name != e.name or b.selection or e.selection:
                problems.append((getattr(b, "scope", None) or b.node, f"bounds() adds {b.name}{' selected by ' + b.selection if b.selection else ''} "
                                         f"but edits() emits {e.name}{' selected by ' + e.selection if e.selection else ''}: "
                                         f"different populations, so the compound bound need not equal the sum of the "
                                         f"listed sub-edits", f"{ctor} population"))
        if only is not None:
            problems = [p_ for p_ in problems if p_[2].startswith(tuple(only))]
        if problems and mixed_ is not None:
            # two formulas: one path sums self.edits(), another adds up sources of its own that are not that sum (the problems
            # reported below): the interval jumps when the condition flips - below its earlier lower bound if the second
            # formula over-estimates, so earlier intervals do not contain the final cost
            at_ = mixed_.node if any(x is mixed_.node for x in ast.walk(fb.node)) else fb.node   # the delegate may sit in an inherited helper
            ctx.violation("R03a", fb.file, f"{short}.bounds", at_, f"{short}: two formulas",
                          f"{short}.bounds() sums self.edits() on one path ({' and '.join(mixed_.guard) or 'unconditionally'}) and adds up "
                          f"{sorted(rb) + [c.name for c in cb]} on another, which is not the same sum ({problems[0][2]}): the interval jumps when "
                          f"the condition flips, so the intervals reported before need not contain the final cost")
        if problems:
            for node, why, tag in problems:
                ctx.violation("R03a", fb.file, f"{short}.bounds", node, f"{short}: {tag}", f"{short}: {why}")
        else:
            ctx.proved("R03a", fb.file, f"{short}.bounds", fb.node, f"{short}: sources agree",
                       f"bounds() and edits() agree on {sorted(rb)} + {[c.name for c in cb]}"
                       + (f" (zero-cost constants {sorted(zero)} exempt)" if zero else ""))
    ctx.floor("R03a", n, 7, "compound edit implementations")


def r03b(ctx):
    m = ctx.model
    ctx.rule("R03b", "EditDistance: the cumulative cell cost is costs[pred] + edit.bounds().upper_bound for the same "
                     "(pred, edit) pair the step returns, boundary cells accumulate their own constant edit, and the "
                     "reported total is the last cell")
    q = m.need_class("EditDistance")
    bm = m.method(q, "_best_match")
    f = bm
    n = 0
    # interior: stores to self.costs[row][col] / self.path_costs[row][col]
    rets = [r for r in walk_no_nested(bm.node) if isinstance(r, ast.Return) and isinstance(r.value, ast.Tuple) and len(r.value.elts) == 3]
    stores = []
    for s in walk_no_nested(bm.node):
        if isinstance(s, ast.Assign) and isinstance(s.targets[0], ast.Subscript):
            base = s.targets[0]
            txt = ast.unparse(base)
            if txt.startswith("self.costs["):
                stores.append(s)
    ctx.floor("R03b", len(stores), 1, "stores to self.costs in _best_match")
    for s in stores:
        n += 1
        # costs[row][col] = costs[B][C] + E.bounds().upper_bound ; the function must return (B, C, E)
        v = s.value
        ok = False
        detail = ""
        if isinstance(v, ast.BinOp) and isinstance(v.op, ast.Add):
            parts = [v.left, v.right]
            prev = [p for p in parts if ast.unparse(p).startswith("self.costs[")]
            step = [p for p in parts if "bounds()" in ast.unparse(p)]
            if len(prev) == 1 and len(step) == 1:
                idx = prev[0]
                bname = ast.unparse(idx.value.slice)
                cname = ast.unparse(idx.slice)
                ename = None
                for x in ast.walk(step[0]):
                    if isinstance(x, ast.Call) and isinstance(x.func, ast.Attribute) and x.func.attr == "bounds":
                        ename = ast.unparse(x.func.value)
                upper = "upper_bound" in ast.unparse(step[0])
                # returned triple that follows the store
                after = [r for r in rets if r.lineno > s.lineno]
                if after:
                    r = after[0]
                    got = [ast.unparse(e) for e in r.value.elts]
                    ok = got == [bname, cname, ename] and upper
                    detail = f"store uses costs[{bname}][{cname}] + {ename}.bounds().upper_bound; returns ({', '.join(got)})"
        if ok:
            ctx.proved("R03b", f.file, "EditDistance._best_match", s, "interior cell accumulation", detail)
        else:
            ctx.violation("R03b", f.file, "EditDistance._best_match", s, "interior cell accumulation",
                          f"the cell cost is not costs[pred] + step.bounds().upper_bound for the returned (pred, step): {detail or norm(s)}")
    # boundary cells in _add_node: costs[0][col] = costs[0][col-1] + edit.bounds().upper_bound with edit = the cell's edit
    an = m.method(q, "_add_node")
    for s in walk_no_nested(an.node):
        if isinstance(s, ast.Assign) and isinstance(s.targets[0], ast.Subscript) and ast.unparse(s.targets[0]).startswith("self.costs["):
            n += 1
            tgt = ast.unparse(s.targets[0])
            v = ast.unparse(s.value)
            rp_, cp_ = [a.arg for a in an.node.args.args][1:3]
            row_b = tgt.startswith("self.costs[0][")
            prev_ok = (f"self.costs[0][{cp_} - 1]" in v) if row_b else (f"self.costs[{rp_} - 1][0]" in v)
            _cs, _cb = pat.first("self.edit_matrix[A][B] = E", an.node)
            cellv = _cb["E"] if _cb else "edit"
            if prev_ok and f"{cellv}.bounds().upper_bound" in v:
                ctx.proved("R03b", an.file, "EditDistance._add_node", s, f"boundary {tgt}",
                           "boundary cell = previous boundary cell + this cell's constant edit")
            else:
                ctx.violation("R03b", an.file, "EditDistance._add_node", s, f"boundary {tgt}",
                              f"boundary cell cost `{tgt} = {v}` is not previous boundary cell + this cell's edit cost")
    # bounds(): complete -> cost of the last cell
    b = m.method(q, "bounds")
    last = [x for x in walk_no_nested(b.node) if isinstance(x, ast.Subscript) and
            ast.unparse(x) == "self.costs[len(self.to_seq)][len(self.from_seq)]"]
    n += 1
    if last:
        ctx.proved("R03b", b.file, "EditDistance.bounds", last[0], "total = last cell",
                   "a complete matrix reports costs[len(to_seq)][len(from_seq)]")
    else:
        ctx.violation("R03b", b.file, "EditDistance.bounds", b.node, "total = last cell",
                      "EditDistance.bounds() does not report the last cell of the cost matrix for a complete matrix")
    ctx.floor("R03b-all", n, 4, "EditDistance cost accumulation sites")


def r03d(ctx):
    m = ctx.model
    ctx.rule("R03d", "EditDistance accumulates only definitive cell costs: every _best_match(row, col) in the fringe loop "
                     "is preceded by `while cell.tighten_bounds():` on the same cell with no extra conjunct in the test "
                     "and no break (the loop ends only when the cell reports no further progress)")
    q = m.need_class("EditDistance")
    tb = m.method(q, "tighten_bounds")
    from ..astx import class_helpers
    bm_q = m.method(q, "_best_match")
    scope = [g for g in class_helpers(m, q, tb) if g.node.name not in ("edits", "bounds", "_best_match", "_cleanup", "is_complete")]
    calls = [(g, c) for g in scope for c in walk_no_nested(g.node) if isinstance(c, ast.Call) and self_attr(c.func) == "_best_match"]
    ctx.floor("R03d", len(calls), 1, "_best_match calls in EditDistance.tighten_bounds")
    for g, c in calls:
        where = f"EditDistance.{g.node.name}"
        st = c
        while st is not None and not isinstance(st, ast.stmt):
            st = parent(st)
        blk = parent(st)
        body = getattr(blk, "body", [])
        idx = body.index(st) if st in body else -1
        cell = f"self.edit_matrix[{ast.unparse(c.args[0])}][{ast.unparse(c.args[1])}]" if len(c.args) == 2 else None
        loops = [w for w in body[:max(idx, 0)] if isinstance(w, ast.While)]
        good = None
        why = "no `while <cell>.tighten_bounds()` loop precedes the call"
        for w in loops:
            t = ast.unparse(w.test).replace(" ", "")
            if isinstance(w.test, ast.Call) and isinstance(w.test.func, ast.Attribute) and isinstance(w.test.func.value, ast.Name) and not w.test.args:
                # `cell = self.edit_matrix[row][col]; while cell.tighten_bounds():` - the cell held in a single-assignment local
                t = ast.unparse(resolve_local(g.node, w.test.func.value)).replace(" ", "") + f".{w.test.func.attr}()"
            if cell and t == f"{cell}.tighten_bounds()".replace(" ", ""):
                brk = [b for b in ast.walk(w) if isinstance(b, ast.Break)]
                if brk:
                    why = f"the refinement loop can `break` (line {brk[0].lineno}) before the cell is definitive"
                else:
                    good = w
            elif cell and f"{cell}.tighten_bounds()".replace(" ", "") in t:
                why = f"the refinement loop's test `{norm(w.test, 70)}` has extra conditions, so it can stop before the cell is definitive"
        if good is not None:
            ctx.proved("R03d", tb.file, where, c, "cell refined before accumulation",
                       f"`while {cell}.tighten_bounds()` runs to exhaustion before _best_match reads the cell's upper bound")
        else:
            ctx.violation("R03d", tb.file, where, c, "cell refined before accumulation",
                          f"_best_match adds {cell}.bounds().upper_bound into the cumulative cost, but {why}: a non-final "
                          f"upper bound is accumulated, so the reported list cost differs from the sum of the final "
                          f"sub-edit costs (and may depend on status settings)")


    # path reconstruction: edits() walks back from the bottom-right cell through _best_match, which again adds the
    # cells' upper bounds; every interior cell was exhausted by the fringe loop above, the bottom-right cell (the whole
    # final diagonal, for which _next_fringe() returns False) is not
    ed = m.method(q, "edits")
    ecalls = [c for c in walk_no_nested(ed.node) if isinstance(c, ast.Call) and self_attr(c.func) == "_best_match" and len(c.args) == 2]
    ctx.floor("R03d", len(ecalls), 1, "_best_match calls in EditDistance.edits")
    for c in ecalls:
        walk = parent(c)
        while walk is not None and not isinstance(walk, ast.While):
            walk = parent(walk)
        r, cc = ast.unparse(c.args[0]), ast.unparse(c.args[1])
        ok = None
        if walk is not None:
            blk = parent(walk)
            for field in ("body", "orelse"):
                lst = getattr(blk, field, [])
                if walk in lst:
                    for w in lst[:lst.index(walk)]:
                        if isinstance(w, ast.While) and not any(isinstance(b, ast.Break) for b in ast.walk(w)):
                            t = ast.unparse(w.test).replace(" ", "")
                            if isinstance(w.test, ast.Call) and isinstance(w.test.func, ast.Attribute) and isinstance(w.test.func.value, ast.Name):
                                t = ast.unparse(resolve_local(ed.node, w.test.func.value)).replace(" ", "") + ".tighten_bounds()"
                            if t in (f"self.edit_matrix[{r}][{cc}].tighten_bounds()", "self.edit_matrix[-1][-1].tighten_bounds()"):
                                ok = f"`while {norm(w.test, 60)}` runs to exhaustion right before the walk back from the bottom-right cell"
        if ok is None:
            # alternative shape: the final diagonal is exhausted in tighten_bounds when _next_fringe() reports the end
            for br in walk_no_nested(tb.node):
                if isinstance(br, ast.If) and "self._next_fringe()" in ast.unparse(br.test):
                    for w in br.body:
                        if isinstance(w, ast.While) and not any(isinstance(b, ast.Break) for b in ast.walk(w)) \
                                and ast.unparse(w.test).replace(" ", "") == "self.edit_matrix[-1][-1].tighten_bounds()":
                            ok = "tighten_bounds exhausts self.edit_matrix[-1][-1] in the call that completes the matrix"
        if ok:
            ctx.proved("R03d", ed.file, "EditDistance.edits", c, "last cell refined before path reconstruction", ok)
        else:
            ctx.violation("R03d", ed.file, "EditDistance.edits", c, "last cell refined before path reconstruction",
                          "edits() reconstructs the path with _best_match, which adds each chosen cell's current upper bound "
                          "into self.costs, and bounds() reports costs[-1][-1] as soon as the matrix is complete; the "
                          "bottom-right cell is the one cell the fringe loop never exhausts (for the final diagonal "
                          "_next_fringe() returns False), and no `while self.edit_matrix[row][col].tighten_bounds()` precedes "
                          "the walk back: TreeNode.diff() stops at is_complete(), calls bounds(), and a non-final cost of "
                          "the last element is frozen - the list then reports more than the sum of its sub-edits")


def r03g(ctx):
    m = ctx.model
    ctx.rule("R03g", "sizes bound costs: compound edits cap their cost by from.total_size + to.total_size + 1 and invalidate "
                     "themselves when the parts exceed it, so the computed leaf cost levenshtein(str(a), str(b)) <= "
                     "max(len(str(a)), len(str(b))) must stay within the operands' sizes: a leaf class whose "
                     "calculate_total_size is not len(str(self.object)) must be kept away from that computation on both sides "
                     "(its own edits() override, and an isinstance guard before the computation)")
    lq = m.need_class("LeafNode")
    f = m.method(lq, "edits")
    o = func_params(f.node)[1]
    comp = [c for c in walk_no_nested(f.node) if isinstance(c, ast.Call) and call_name(c) == "Match"
            and any(isinstance(x, ast.Call) and call_name(x) == "str" for x in ast.walk(c))]
    ctx.floor("R03g", len(comp), 1, "computed-cost Match constructions in LeafNode.edits")
    odd = []
    for q in sorted(m.subclasses(lq, strict=True)):
        own = m.attrs[q].get("calculate_total_size")
        if own and own[0] == "def":
            body = ast.unparse(own[1].node.body[-1]).replace(" ", "")
            if body != "returnlen(str(self.object))":
                odd.append((q, own[1]))
    for c in comp:
        facts = [(ast.unparse(t).replace(" ", ""), pol) for t, pol in flatten_conditions(dominating_conditions(c))]
        for q, sz in odd:
            short = q.rsplit(".", 1)[-1]
            excluded = (f"isinstance({o},{short})", False) in facts
            own_edits = m.attrs[q].get("edits")
            self_side = bool(own_edits and own_edits[0] == "def" and not any(
                isinstance(x, ast.Call) and isinstance(x.func, ast.Attribute) and x.func.attr == "edits"
                and isinstance(x.func.value, ast.Call) and dotted(x.func.value.func) == "super" for x in ast.walk(own_edits[1].node)))
            if excluded and self_side:
                ctx.proved("R03g", f.file, "LeafNode.edits", c, f"{short} kept out of the computed cost",
                           f"{short} (size `{norm(sz.node.body[-1], 40)}`) has its own edits() and is excluded by `not isinstance({o}, {short})` here")
            else:
                side = [] if excluded else [f"as `{o}` (no isinstance({o}, {short}) guard before the computation)"]
                side += [] if self_side else ["as `self` (no own edits())"]
                ctx.violation("R03g", f.file, "LeafNode.edits", c, f"{short} kept out of the computed cost",
                              f"{short}.calculate_total_size is `{norm(sz.node.body[-1], 40)}`, not the length of its text, yet a {short} "
                              f"reaches `{norm(c, 70)}` {' and '.join(side)}: the match can cost more than both sizes together "
                              f"(5 -> null costs len('None') = 4 with sizes 1 and 0), so the sum of the parts can exceed the bound an "
                              f"enclosing EditCollection derives from the sizes - it then invalidates itself ([-inf, inf], "
                              f"ValueError in diff(), non-terminating refinement inside a positional list)")
    if not odd:
        ctx.proved("R03g", f.file, "LeafNode.edits", f.node, "sizes are text lengths", "no leaf class overrides calculate_total_size", nontrivial=False)


def r03h(ctx):
    m = ctx.model
    ctx.rule("R03h", "multiplicity: MultiSetEdit lists leftovers with multiplicity (Counter.elements()) and the matcher works on "
                     "element sequences, so (1) bounds() must count and enumerate the same collections with multiplicity - "
                     "len(<Counter>) and `for x in <Counter>` see distinct values only - and (2) the matcher must keep its "
                     "assignment by position, not in dicts keyed by the nodes themselves (nodes compare and hash by value, so "
                     "equal elements collapse into one entry)")
    q = m.need_class("MultiSetEdit")
    init, b, e = (m.method(q, x) for x in ("__init__", "bounds", "edits"))
    counters = set()
    for a in walk_no_nested(init.node):
        if isinstance(a, ast.Assign) and self_attr(a.targets[0]) and isinstance(a.value, ast.BinOp) and isinstance(a.value.op, ast.Sub):
            counters.add(self_attr(a.targets[0]))
    with_mult = {self_attr(x.func.value.left) if isinstance(x.func.value, ast.BinOp) else self_attr(x.func.value)
                 for x in walk_no_nested(e.node) if isinstance(x, ast.Call) and isinstance(x.func, ast.Attribute) and x.func.attr == "elements"}
    n = 0
    for fld in sorted(counters & with_mult):
        uses = [x for x in walk_no_nested(b.node) if (isinstance(x, ast.Call) and call_name(x) == "len" and x.args and self_attr(x.args[0]) == fld)
                or (isinstance(x, ast.comprehension) and self_attr(x.iter) == fld) or (isinstance(x, ast.For) and self_attr(x.iter) == fld)]
        n += 1
        if uses:
            ctx.violation("R03h", b.file, "MultiSetEdit.bounds", uses[0], f"self.{fld} counted without multiplicity",
                          f"bounds() uses `{norm(uses[0] if not isinstance(uses[0], ast.comprehension) else uses[0].iter, 50)}` ({len(uses)} "
                          f"use(s)) on the Counter self.{fld}: that counts / enumerates distinct values, while edits() lists "
                          f"self.{fld} through .elements() (with multiplicity): for MultiSetNode([1,1,1]) -> MultiSetNode([]) the "
                          f"compound reports 2 and its listed edits add up to 6")
        else:
            ctx.proved("R03h", b.file, "MultiSetEdit.bounds", b.node, f"self.{fld} counted without multiplicity",
                       f"bounds() takes self.{fld} with multiplicity")
    ctx.floor("R03h", n, 2, "leftover collections of MultiSetEdit")
    wq = m.need_class("WeightedBipartiteMatcher")
    k = 0
    for mname in ("__init__", "matching"):
        f = m.method(wq, mname)
        for dc in walk_no_nested(f.node):
            if not isinstance(dc, ast.DictComp):
                continue
            key = dc.key
            by_node = (isinstance(key, ast.Subscript) and self_attr(key.value) in ("from_nodes", "to_nodes")) or \
                (isinstance(key, ast.Name) and any(isinstance(g.iter, ast.Call) and call_name(g.iter) == "enumerate" and isinstance(g.target, ast.Tuple)
                                                   and len(g.target.elts) == 2 and isinstance(g.target.elts[1], ast.Name)
                                                   and g.target.elts[1].id == key.id for g in dc.generators))
            if not by_node:
                continue
            k += 1
            tgt = parent(dc)
            name = self_attr(tgt.targets[0]) if isinstance(tgt, ast.Assign) else (self_attr(tgt.target) if isinstance(tgt, ast.AnnAssign) else "?")
            ctx.violation("R03h", f.file, f"WeightedBipartiteMatcher.{mname}", dc, f"self.{name} keyed by node",
                          f"`self.{name} = {{{norm(dc.key, 30)}: ...}}` is keyed by the nodes themselves; nodes hash and compare by value, "
                          f"so equal elements of a multiset collapse into one entry: the assignment of MultiSetNode([1,1]) -> "
                          f"MultiSetNode([2,2]) keeps one of its two pairs, and MultiSetEdit.edits() lists Remove + Insert for a pair "
                          f"the matcher's bound already paid for (compound 2, listed edits 5)")
    ctx.floor("R03h", k, 0, "node-keyed dicts in WeightedBipartiteMatcher")


def r03i(ctx):
    m = ctx.model
    ctx.rule("R03i", "EditDistance prices only the trimmed sequences: the pairs removed as shared prefix / suffix are outside the "
                     "cost matrix, so the edits listed for them must be literal zero-cost matches `Match(a, b, 0)` - any edit that "
                     "can cost something there is listed but never counted")
    q = m.need_class("EditDistance")
    f = m.method(q, "edits")
    n = 0
    for g in walk_no_nested(f.node):
        if isinstance(g, (ast.GeneratorExp, ast.ListComp)) and g.generators and self_attr(g.generators[0].iter) in ("shared_prefix", "reversed_shared_suffix"):
            n += 1
            e = g.elt
            ok = isinstance(e, ast.Call) and call_name(e) == "Match" and len(e.args) == 3 and isinstance(e.args[2], ast.Constant) and e.args[2].value == 0
            which = self_attr(g.generators[0].iter)
            if ok:
                ctx.proved("R03i", f.file, "EditDistance.edits", g, f"self.{which} listed at cost 0", f"`{norm(e, 40)}` for every pair of self.{which}")
            else:
                ctx.violation("R03i", f.file, "EditDistance.edits", g, f"self.{which} listed at cost 0",
                              f"the pairs of self.{which} are listed as `{norm(e, 50)}`; their cost is not part of the matrix total "
                              f"(costs[-1][-1] covers the trimmed sequences only), and equal leaves can still have a positive edit "
                              f"cost (1 == 1.0 but str differs): [1, 2] -> [1.0, 3] reports 2 while its listed edits add up to 4")
    ctx.floor("R03i", n, 2, "prefix / suffix listings in EditDistance.edits")


def r03e(ctx):
    m = ctx.model
    ctx.rule("R03e", "the matcher's cost and the multiset's script come from the same matching: WeightedBipartiteMatcher.bounds "
                     "sums the edges of self._match once a matching exists, `matching` returns that same self._match, and "
                     "MultiSetEdit.edits yields the edges of self._matcher.matching")
    q = m.need_class("WeightedBipartiteMatcher")
    b, mt = m.method(q, "bounds"), m.method(q, "matching")
    ok_b = False
    for lp in walk_no_nested(b.node):
        if isinstance(lp, ast.For) and ast.unparse(lp.iter).replace(" ", "") in ("self._match.items()", "self._match.values()"):
            names = [x.id for x in ast.walk(lp.target) if isinstance(x, ast.Name) and x.id != "_"]
            for e_ in names:
                if pat.has(f"L += {e_}.bounds().lower_bound", lp, stmts=True) and pat.has(f"U += {e_}.bounds().upper_bound", lp, stmts=True):
                    ok_b = True
    rets = [r for r in walk_no_nested(mt.node) if isinstance(r, ast.Return)]
    ok_m = rets and all(self_attr(r.value) == "_match" for r in rets)
    me = m.method(m.need_class("MultiSetEdit"), "edits")
    me_txt = code(me.node).replace(" ", "")
    ok_e = "self._matcher.matching.items()" in me_txt or "self._matcher.matching.values()" in me_txt
    if ok_b and ok_m and ok_e:
        ctx.proved("R03e", b.file, "WeightedBipartiteMatcher.bounds", b.node, "one matching for cost and script",
                   "bounds() sums self._match's edges; matching returns self._match; MultiSetEdit.edits lists its edges")
    else:
        which = [n for n, o in (("bounds sums self._match edges", ok_b), ("matching returns self._match", ok_m),
                                ("MultiSetEdit.edits lists matcher.matching", ok_e)) if not o]
        ctx.violation("R03e", b.file, "WeightedBipartiteMatcher.bounds", b.node, "one matching for cost and script",
                      f"cost and script of a multiset edit are no longer drawn from the same matching: {which}")


def r03c(ctx):
    m = ctx.model
    ctx.rule("R03c", "the three views read the same script: edited_cost sums edit_list after tightening it; "
                     "get_all_edit_contexts explodes exactly the CompoundEdits through edits(); has_non_zero_cost "
                     "refines before answering")
    et = m.need_class("EditedTreeNode")
    ec = m.method(et, "edited_cost")
    src = code(ec.node)
    if "self.edit_list" in src and "tighten_bounds()" in src and "upper_bound" in src and "sum(" in src:
        ctx.proved("R03c", ec.file, "EditedTreeNode.edited_cost", ec.node, "edited_cost",
                   "tightens every edit in edit_list to convergence, then sums their upper bounds")
    else:
        ctx.violation("R03c", ec.file, "EditedTreeNode.edited_cost", ec.node, "edited_cost",
                      "edited_cost does not (tighten edit_list to convergence and sum upper bounds)")
    tn = m.need_class("TreeNode")
    g = m.method(tn, "get_all_edit_contexts")
    ok = False
    for n in walk_no_nested(g.node):
        if isinstance(n, ast.If) and isinstance(n.test, ast.Call) and call_name(n.test) == "isinstance" \
                and "CompoundEdit" in ast.unparse(n.test.args[1]):
            body = ast.unparse(ast.Module(body=n.body, type_ignores=[]))
            rest = n.orelse
            if not rest and terminates(n.body):
                # guard-clause form: `if isinstance(...): ...; continue` followed by the atomic-edit arm
                lst, idx = block_of(n)
                rest = lst[idx + 1:] if lst else []
            orelse = ast.unparse(ast.Module(body=rest, type_ignores=[]))
            if ".edits()" in body and "yield" in orelse and "yield" not in body:
                ok = True
    if ok:
        ctx.proved("R03c", g.file, "TreeNode.get_all_edit_contexts", g.node, "explode",
                   "compound edits are replaced by their edits(); only atomic edits are yielded")
    else:
        ctx.violation("R03c", g.file, "TreeNode.get_all_edit_contexts", g.node, "explode",
                      "get_all_edit_contexts does not explode exactly the CompoundEdits through edits()")
    # CompoundEdit.on_diff recurses over self.edits()
    ce = m.find_class("CompoundEdit")
    od = m.method(ce, "on_diff") if ce else None
    loops_ = [l_ for l_ in walk_no_nested(od.node) if isinstance(l_, ast.For) and isinstance(l_.target, ast.Name)
              and isinstance(l_.iter, ast.Call) and self_attr(l_.iter.func) == "edits" and not l_.iter.args] if od is not None else []
    if od is not None and any(isinstance(c_, ast.Call) and isinstance(c_.func, ast.Attribute) and c_.func.attr == "on_diff"
                              and dotted(c_.func.value) == l_.target.id and len(c_.args) == 1 and dotted(c_.args[0]) == f"{l_.target.id}.from_node"
                              for l_ in loops_ for s_ in l_.body for c_ in ast.walk(s_)):
        ctx.proved("R03c", od.file, "CompoundEdit.on_diff", od.node, "on_diff recursion",
                   "the annotated tree receives exactly the sub-edits edits() lists")
    else:
        ctx.violation("R03c", od.file if od else "graphtage/tree.py", "CompoundEdit.on_diff", od.node if od else None,
                      "on_diff recursion", "CompoundEdit.on_diff does not push every sub-edit of edits() onto its node")


def run(ctx):
    r03a(ctx)
    r03b(ctx)
    r03c(ctx)
    r03e(ctx)
    r03d(ctx)
    r03g(ctx)
    r03h(ctx)
    r03i(ctx)
    from .c02 import r02f, r02f2
    r02f(ctx)
    r02f2(ctx)     # the size-derived cap of compound edits is an upper bound only if no node has size 0
    from .c04 import r04d
    r04d(ctx)
    from .c04 import r04i
    r04i(ctx)     # a transient upper bound below the lower bound raises inside the enclosing edit: no total in any view
    from .c07 import r07l
    r07l(ctx)     # the annotated tree of a comparison carries that comparison's edits only (fresh edit state per edited copy)
    ctx.assume("arithmetic inside the third-party assignment solver and numpy accumulation is not analysed")
