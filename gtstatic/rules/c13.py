"""C13 - any input type can be rendered in any output format and mode.

E5 static simulation of the formatting protocol (totality of the dispatch table) + hazards in print-phase code:
H1 re-parenting (E4), H2 unconditional raise in a handler, H3 missing attribute on a statically known receiver,
H4 self.parent deeper than the formatter's position, H5 sub_formatters index out of range, H6 copy() of a node
class whose copy_from cannot rebuild it, H7 default formatter instance exists.
"""
import ast
import importlib

from ..astx import dotted, call_name, walk_no_nested, parent, self_attr, func_params, terminates
from ..callgraph import CallGraph, diff_entries
from ..core import norm
from .. import nodeshape

TREE = "graphtage.tree.TreeNode"
CONTAINER = "graphtage.tree.ContainerNode"
EDITED = "graphtage.tree.EditedTreeNode"
FORMATTER = "graphtage.formatter.Formatter"
NON_NODE_ATTRS = {"object", "quoted", "allow_key_edits", "auto_match_keys", "allow_list_edits",
                  "allow_list_edits_when_same_length", "start_symbol", "end_symbol", "delimiter", "name"}
CONSTRUCTOR_LAYER = {"__init__", "__new__", "from_dict", "copy_from", "make_key_value_pair_node", "editable_dict",
                     "make_edited"}


def print_phase_entries(m):
    ent = []
    for q in m.subclasses(FORMATTER):
        for name, (kind, v) in m.attrs[q].items():
            if kind == "def":
                ent.append(v)
    for q in m.classes:
        if m.is_subclass(q, FORMATTER):
            continue
        is_edit = m.method(q, "tighten_bounds") is not None or q.endswith(".Edit")
        for name in ("print", "print_parent_context"):
            if name in m.attrs[q] and m.attrs[q][name][0] == "def":
                # edit.print is called by the protocol; print_parent_context by main (-d); node.print only as the
                # protocol's last-resort fallback (added by the caller for classes without a handler)
                if is_edit or (name == "print_parent_context" and m.is_subclass(q, TREE)):
                    ent.append(m.attrs[q][name][1])
    main = m.functions.get("graphtage.__main__.main")
    if main is not None:
        ent.append(main)
    return ent


def dead_fallback_calls(m):
    """`node.print(printer)` in the else-arm of `if formatter is not None` after `formatter = self.get_formatter(node)`:
    dead when the dispatch table is total by handlers."""
    out = []
    gf = m.find_class("GraphtageFormatter")
    f = m.method(gf, "print") if gf else None
    if f is None:
        return out
    for n in walk_no_nested(f.node):
        if isinstance(n, ast.If) and isinstance(n.test, ast.Compare) and isinstance(n.test.ops[0], ast.IsNot) \
                and isinstance(n.test.left, ast.Name) and isinstance(n.test.comparators[0], ast.Constant) \
                and n.test.comparators[0].value is None:
            var = n.test.left.id
            src = [a for a in walk_no_nested(f.node) if isinstance(a, ast.Assign) and isinstance(a.targets[0], ast.Name)
                   and a.targets[0].id == var and isinstance(a.value, ast.Call) and (call_name(a.value) or "").endswith("get_formatter")]
            if src:
                for s in n.orelse:
                    for c in ast.walk(s):
                        if isinstance(c, ast.Call) and isinstance(c.func, ast.Attribute) and c.func.attr == "print":
                            out.append(c)
    return out


# ------------------------------------------------------------------------------------------------ E5 totality
def e5_totality(ctx, inst):
    m = ctx.model
    ctx.rule("E5", "dispatch totality: for every file type's default formatter and every concrete node class (plain "
                   "and Edited...) and edit class, the statically simulated formatting protocol resolves a handler, "
                   "or a concrete node.print / edit.print fallback exists")
    fmts, default = m.formatter_registry()
    fts = m.filetypes()
    roots = {}
    for q, info in fts.items():
        d = info["default_formatter"]
        short = q.rsplit(".", 1)[-1]
        if d is None:
            ctx.violation("H7", m.files[m.classes[q][0]], f"{short}.get_default_formatter", None, "default formatter",
                          f"{short}.get_default_formatter does not return <Formatter>.DEFAULT_INSTANCE of a known class")
            continue
        if d not in default:
            gdf = m.method(q, "get_default_formatter")
            ctx.violation("H7", gdf.file, gdf.short, gdf.node, f"{d.rsplit('.', 1)[-1]}.DEFAULT_INSTANCE",
                          f"{d.rsplit('.', 1)[-1]} has no DEFAULT_INSTANCE (abstract or its constructor needs arguments): "
                          f"get_default_formatter returns None and every print through it fails")
            continue
        roots[d] = default[d]
        ctx.proved("H7", m.files[m.classes[q][0]], f"{short}.get_default_formatter", None, f"{short} default formatter",
                   f"{d.rsplit('.', 1)[-1]}.DEFAULT_INSTANCE exists (nullary-constructible, not abstract)", nontrivial=False)
    node_classes = [q for q in sorted(m.subclasses(TREE)) if not m.is_abstract(q) and q != TREE
                    and not m.is_subclass(q, EDITED)]
    edit_classes = [q for q in sorted(m.classes) if m.method(q, "tighten_bounds") is not None
                    and m.method(q, "on_diff") is not None and not m.is_abstract(q)]
    cells = resolved = 0
    table = {}
    for rq, root in sorted(roots.items()):
        for nq in node_classes:
            for edited in (False, True):
                cells += 1
                names = m.node_mro_names(nq, edited)
                r = m.get_formatter(names, root)
                if r is not None:
                    resolved += 1
                    table[(rq, nq, edited)] = f"{r[0].name}.{r[1]}"
                    continue
                pr = m.method(nq, "print")
                if pr is None or any(dotted(d) and dotted(d).endswith("abstractmethod") for d in pr.node.decorator_list):
                    ctx.violation("E5", m.files[m.classes[nq][0]], nq.rsplit(".", 1)[-1], None,
                                  f"{rq.rsplit('.', 1)[-1]} x {nq.rsplit('.', 1)[-1]}",
                                  f"no formatter in the protocol handles {nq.rsplit('.', 1)[-1]} under "
                                  f"{rq.rsplit('.', 1)[-1]} and the class has no concrete print(): rendering raises")
                else:
                    table[(rq, nq, edited)] = f"{nq.rsplit('.', 1)[-1]}.print (fallback)"
        for eq in edit_classes:
            cells += 1
            names = m.node_mro_names(eq)
            r = m.get_formatter(names, root)
            if r is not None:
                resolved += 1
    ctx.floor("E5", cells, 200, "dispatch cells (default formatter x node/edited/edit class)")
    ctx.proved("E5", "graphtage/formatter.py", "_get_formatter", None, "dispatch table",
               f"{cells} cells simulated; {resolved} resolve to a print_<Class> handler, the rest to a concrete "
               f"node.print / edit.print fallback")
    ctx.extra["dispatch"] = {"cells": cells, "resolved_by_handler": resolved, "roots": sorted(roots),
                             "node_classes": len(node_classes), "edit_classes": len(edit_classes)}
    ctx.extra["fallback_print_classes"] = sorted({k[1] for k, v in table.items() if v.endswith("(fallback)")})
    # structural conformance of _get_formatter with the port
    gf = m.functions.get("graphtage.formatter._get_formatter")
    if gf is None:
        ctx.inconclusive("E5", "graphtage/formatter.py", "_get_formatter", None, "conformance", "_get_formatter not found")
    else:
        src = ast.unparse(gf.node)
        need = [".mro()", ".__name__}", "print_{", "sub_formatters", ".parent"]
        missing = [x for x in need if x not in src]
        if missing:
            ctx.inconclusive("E5", gf.file, "_get_formatter", gf.node, "conformance",
                             f"_get_formatter no longer has the shape the static port assumes (missing {missing})")
    return roots, node_classes, edit_classes, sorted({k[1] for k, v in table.items() if v.endswith("(fallback)")})


# ------------------------------------------------------------------------------------------------ H1 / E4
def is_node_class(m, q):
    return q in m.classes and m.is_subclass(q, TREE)


def classify_arg(m, f, e, fresh_names, alias_names, params):
    """'fresh' | 'alias' | 'other' for a constructor argument expression."""
    if isinstance(e, ast.Starred):
        return classify_arg(m, f, e.value, fresh_names, alias_names, params)
    if isinstance(e, ast.Constant):
        return "other"
    if isinstance(e, ast.Call):
        fn = e.func
        if isinstance(fn, ast.Attribute) and fn.attr in ("copy", "make_edited", "copy_from"):
            return "fresh"
        r = m.resolve_expr(f.module, fn)
        if r and r[0] and r[0][0] == "class" and is_node_class(m, r[0][1]):
            return "fresh"
        if isinstance(fn, ast.Attribute) and fn.attr in ("from_dict", "make_key_value_pair_node"):
            return "fresh"
        if isinstance(fn, ast.Attribute) and fn.attr in ("children", "values", "items", "keys", "elements"):
            return classify_arg(m, f, fn.value, fresh_names, alias_names, params) if fn.attr != "children" else \
                ("alias" if classify_arg(m, f, fn.value, fresh_names, alias_names, params) in ("alias",) or
                 root_name(fn.value) in params else "other")
        if call_name(e) in ("list", "tuple", "reversed", "sorted", "iter") and e.args:
            return classify_arg(m, f, e.args[0], fresh_names, alias_names, params)
        return "other"
    if isinstance(e, (ast.List, ast.Tuple, ast.Set)):
        kinds = [classify_arg(m, f, x, fresh_names, alias_names, params) for x in e.elts]
        if "alias" in kinds:
            return "alias"
        return "fresh" if kinds and all(k == "fresh" for k in kinds) else "other"
    if isinstance(e, (ast.ListComp, ast.GeneratorExp, ast.SetComp)):
        loopvars = {x.id for g in e.generators for x in ast.walk(g.target) if isinstance(x, ast.Name)}
        itk = [classify_arg(m, f, g.iter, fresh_names, alias_names, params) for g in e.generators]
        inner_alias = set(alias_names)
        if "alias" in itk:
            inner_alias |= loopvars
        return classify_arg(m, f, e.elt, fresh_names, inner_alias, params | (loopvars if "alias" in itk else set()))
    if isinstance(e, ast.DictComp):
        return "other"
    if isinstance(e, ast.Name):
        if e.id in fresh_names:
            return "fresh"
        if e.id in alias_names or e.id in params:
            return "alias"
        return "other"
    if isinstance(e, (ast.Attribute, ast.Subscript)):
        if isinstance(e, ast.Attribute) and e.attr in NON_NODE_ATTRS:
            return "other"
        r = root_name(e)
        if r in alias_names or r in params:
            return "alias"
        if r in fresh_names:
            return "fresh"
        return "other"
    if isinstance(e, ast.IfExp):
        ks = {classify_arg(m, f, e.body, fresh_names, alias_names, params),
              classify_arg(m, f, e.orelse, fresh_names, alias_names, params)}
        return "alias" if "alias" in ks else ("fresh" if ks == {"fresh"} else "other")
    return "other"


def root_name(e):
    while isinstance(e, (ast.Attribute, ast.Subscript, ast.Call)):
        e = e.func if isinstance(e, ast.Call) else e.value
    return e.id if isinstance(e, ast.Name) else None


def h1_reparenting(ctx, reach):
    m = ctx.model
    ctx.rule("H1", "ownership (E4): in print-phase code every node handed to a ContainerNode constructor (which sets "
                   "child.parent) is fresh - constructed here or a .copy()/.make_edited() - never an existing node "
                   "reached through a parameter (TreeNode.parent's setter raises ValueError on re-parenting)")
    n = 0
    for f in sorted(reach.values(), key=lambda f: f.qual):
        if isinstance(f.node, ast.Module) or ".<locals>." in f.qual:
            continue
        if f.node.name in CONSTRUCTOR_LAYER:
            continue
        if any((dotted(d.func if isinstance(d, ast.Call) else d) or "").endswith(("Builder.builder", "Builder.expander"))
               for d in f.node.decorator_list):
            continue   # children handed to registered builders are freshly built by Builder.build_tree
        if f.qual.endswith(".build_tree") or f.node.name in ("default_builder", "build_tree"):
            continue
        params = {p for p in func_params(f.node)}
        # names bound to node-valued aliases of parameters / to fresh nodes
        fresh, alias = set(), set()
        for _ in range(3):
            for s in walk_no_nested(f.node):
                if isinstance(s, (ast.Assign, ast.AnnAssign)) and s.value is not None:
                    tg = s.targets[0] if isinstance(s, ast.Assign) else s.target
                    if isinstance(tg, ast.Name):
                        k = classify_arg(m, f, s.value, fresh, alias, params)
                        if k == "fresh":
                            fresh.add(tg.id)
                        elif k == "alias":
                            alias.add(tg.id)
                elif isinstance(s, ast.For):
                    k = classify_arg(m, f, s.iter, fresh, alias, params)
                    for x in ast.walk(s.target):
                        if isinstance(x, ast.Name) and k == "alias":
                            alias.add(x.id)
        # lists that only ever receive fresh nodes via append
        appended = {}
        for s in walk_no_nested(f.node):
            if isinstance(s, ast.Call) and isinstance(s.func, ast.Attribute) and s.func.attr in ("append", "extend", "add") \
                    and isinstance(s.func.value, ast.Name) and s.args:
                appended.setdefault(s.func.value.id, []).append(classify_arg(m, f, s.args[0], fresh, alias, params))
        for name, kinds in appended.items():
            if "alias" in kinds:
                alias.add(name)
                fresh.discard(name)
        for c in walk_no_nested(f.node):
            if not isinstance(c, ast.Call):
                continue
            r = m.resolve_expr(f.module, c.func)
            target = None
            if r and r[0] and r[0][0] == "class" and r[0][1] in m.classes and m.is_subclass(r[0][1], CONTAINER):
                target = r[0][1].rsplit(".", 1)[-1]
            elif isinstance(c.func, ast.Attribute) and c.func.attr in ("from_dict", "make_key_value_pair_node"):
                target = f"{norm(c.func.value, 30)}.{c.func.attr}"
            if target is None:
                continue
            n += 1
            bad = []
            for a in list(c.args) + [k.value for k in c.keywords]:
                if classify_arg(m, f, a, fresh, alias, params) == "alias":
                    bad.append(a)
            if bad:
                ctx.violation("H1", f.file, f.short, c, f"{target}({norm(bad[0], 40)})",
                              f"{target}(...) is constructed while printing with `{norm(bad[0], 50)}`, a node that "
                              f"already belongs to the tree being printed: the container sets child.parent and "
                              f"TreeNode.parent's setter raises ValueError (parent already assigned)",
                              path=[f"also aliased: {norm(b, 50)}" for b in bad[1:]] or None)
            else:
                ctx.proved("H1", f.file, f.short, c, f"{target}(...)",
                           "all node arguments are fresh (constructed here or copies)")
    ctx.floor("H1", n, 4, "ContainerNode constructions in print-phase code")


# ------------------------------------------------------------------------------------------------ H2..H6
def handler_hazards(ctx, reach, roots):
    m = ctx.model
    ctx.rule("H2", "no print_<Class> handler raises unconditionally; NotImplementedError is raised only by Edit.print "
                   "(the one place the protocol catches it)")
    ctx.rule("H3", "attributes read from statically known receivers exist: colorama Fore/Back/Style constants, "
                   "self.<method>() in formatter classes, self.parent.<method>() on the parent's class")
    ctx.rule("H4", "self.parent chains are no deeper than the formatter's position in every sub-formatter tree, and "
                   "self.sub_formatters[i] is within sub_format_types")
    fmts, default = m.formatter_registry()
    # positions of every formatter class in the trees (depth, parent class chain)
    positions = {}
    used = set(roots) | {f.q for f in fmts}
    for fn_ in m.functions.values():
        for nn in ast.walk(fn_.node):
            if isinstance(nn, ast.Attribute) and nn.attr == "DEFAULT_INSTANCE":
                k = m.resolve_class(fn_.module, nn.value)
                if k:
                    used.add(k)
    for rq, root in default.items():
        if rq not in used:
            continue   # DEFAULT_INSTANCE of a partial formatter that nothing references is never printed through
        for fi in root.walk():
            chain, p = [], fi.parent
            while p is not None:
                chain.append(p.q)
                p = p.parent
            positions.setdefault(fi.q, []).append(chain)
    try:
        ansi = importlib.import_module("colorama.ansi")
        col = {"Fore": ansi.Fore, "Back": ansi.Back, "Style": ansi.Style}
    except Exception:
        col = {}
    n_h2 = n_h3 = n_h4 = 0
    print_phase = [f for f in reach.values() if not isinstance(f.node, ast.Module)]
    for f in sorted(print_phase, key=lambda f: f.qual):
        is_fmt = bool(f.cls and m.is_subclass(f.cls, FORMATTER))
        name = f.node.name
        # H2
        if is_fmt and name.startswith("print_"):
            n_h2 += 1
            first_raise = next((s for s in f.node.body if isinstance(s, ast.Raise)), None)
            if first_raise is not None and all(isinstance(s, (ast.Raise, ast.Expr)) for s in f.node.body):
                ctx.violation("H2", f.file, f.short, first_raise, "unconditional raise",
                              f"handler {f.short} raises unconditionally; the protocol selects it and rendering fails")
            else:
                ctx.proved("H2", f.file, f.short, f.node, "handler body", "handler does not raise unconditionally",
                           nontrivial=False)
        # H3
        for nnode in walk_no_nested(f.node):
            if isinstance(nnode, ast.Attribute) and isinstance(nnode.value, ast.Name) and nnode.value.id in col \
                    and isinstance(nnode.ctx, ast.Load):
                r = m.lookup(f.module, nnode.value.id)
                if r and r[0] in ("ext",) and ("colorama" in r[1]) or (r and r[0] == "import" and False):
                    pass
                # the name must come from colorama / printer re-export
                n_h3 += 1
                if not hasattr(col[nnode.value.id], nnode.attr):
                    ctx.violation("H3", f.file, f.short, nnode, f"{nnode.value.id}.{nnode.attr}",
                                  f"colorama.{nnode.value.id} has no attribute {nnode.attr!r}: AttributeError when this "
                                  f"code is reached while rendering")
                else:
                    ctx.proved("H3", f.file, f.short, nnode, f"{nnode.value.id}.{nnode.attr}", "constant exists",
                               nontrivial=False)
            if is_fmt and isinstance(nnode, ast.Call) and isinstance(nnode.func, ast.Attribute):
                fn = nnode.func
                if isinstance(fn.value, ast.Name) and fn.value.id == "self":
                    n_h3 += 1
                    if m.cls_attr(f.cls, fn.attr) is None and not _instance_attr(m, f.cls, fn.attr):
                        ctx.violation("H3", f.file, f.short, nnode, f"self.{fn.attr}()",
                                      f"{f.cls.rsplit('.', 1)[-1]} has no method or attribute {fn.attr!r}")
                # self.parent[.parent].X(...)
                chain = []
                v = fn.value
                while isinstance(v, ast.Attribute) and v.attr == "parent":
                    chain.append(v)
                    v = v.value
                if chain and isinstance(v, ast.Name) and v.id == "self":
                    depth = len(chain)
                    n_h4 += 1
                    poss = []
                    for k in m.subclasses(f.cls):
                        poss += [(k, c) for c in positions.get(k, [])]
                    if not poss:
                        ctx.proved("H4", f.file, f.short, nnode, norm(fn, 50),
                                   "class is never instantiated in a formatter tree", nontrivial=False)
                        continue
                    bad = [(k, c) for k, c in poss if len(c) < depth]
                    # standalone DEFAULT_INSTANCE of a partial formatter has no parent, but is only used if referenced
                    bad_tree = [(k, c) for k, c in bad if len(c) > 0 or not m.const(k, "is_partial", False)]
                    if bad_tree:
                        k, c = bad_tree[0]
                        ctx.violation("H4", f.file, f.short, nnode, norm(fn, 50),
                                      f"`{norm(fn.value, 40)}` climbs {depth} level(s) but {k.rsplit('.', 1)[-1]} sits at "
                                      f"depth {len(c)} under {[x.rsplit('.', 1)[-1] for x in c]}: parent is None there")
                    else:
                        missing = []
                        for k, c in poss:
                            if len(c) >= depth:
                                target = c[depth - 1]
                                if m.cls_attr(target, fn.attr) is None:
                                    missing.append((k, target))
                        if missing:
                            k, target = missing[0]
                            ctx.violation("H3", f.file, f.short, nnode, norm(fn, 50),
                                          f"{target.rsplit('.', 1)[-1]} (the parent reached from {k.rsplit('.', 1)[-1]}) "
                                          f"has no method {fn.attr!r}")
                        else:
                            ctx.proved("H4", f.file, f.short, nnode, norm(fn, 50),
                                       f"parent chain of depth {depth} exists at all {len(poss)} tree position(s) and "
                                       f"defines {fn.attr}()")
            if is_fmt and isinstance(nnode, ast.Subscript) and isinstance(nnode.value, ast.Attribute) \
                    and nnode.value.attr == "sub_formatters" and self_attr(nnode.value) == "sub_formatters":
                n_h4 += 1
                idx = nnode.slice
                sft = m.cls_attr(f.cls, "sub_format_types")
                size = len(sft[1][1].elts) if sft and sft[1][0] == "assign" and isinstance(sft[1][1], (ast.List, ast.Tuple)) else 0
                if isinstance(idx, ast.Constant) and isinstance(idx.value, int):
                    if -size <= idx.value < size:
                        ctx.proved("H4", f.file, f.short, nnode, norm(nnode), f"index {idx.value} < {size} sub-formatters")
                    else:
                        ctx.violation("H4", f.file, f.short, nnode, norm(nnode),
                                      f"self.sub_formatters[{idx.value}] but the class declares {size} sub_format_types: IndexError")
    ctx.floor("H2", n_h2, 40, "print_<Class> handlers examined")
    ctx.floor("H3", n_h3, 30, "statically known receivers examined")
    ctx.floor("H4", n_h4, 5, "self.parent / sub_formatters uses examined")


def _instance_attr(m, q, name):
    for k in m.c3(q):
        mod, c = m.classes[k]
        for n in ast.walk(c):
            if isinstance(n, ast.Attribute) and isinstance(n.ctx, ast.Store) and self_attr(n) == name:
                return True
    return False


def redispatch_targets(handler):
    """If a handler forwards the *same* node to another formatter's print (`self.parent.print(*args, **kwargs)`,
    `self.parent.print(printer, node)`), return the list of parent-chain depths it forwards to."""
    out = []
    params = func_params(handler.node)
    passthrough = set(params[1:])
    if handler.node.args.vararg:
        passthrough.add("*" + handler.node.args.vararg.arg)
    for c in walk_no_nested(handler.node):
        if not (isinstance(c, ast.Call) and isinstance(c.func, ast.Attribute) and c.func.attr == "print"):
            continue
        depth, v = 0, c.func.value
        while isinstance(v, ast.Attribute) and v.attr == "parent":
            depth += 1
            v = v.value
        if not (isinstance(v, ast.Name) and v.id == "self") or depth == 0:
            continue
        args = []
        for a in c.args:
            args.append("*" + a.value.id if isinstance(a, ast.Starred) and isinstance(a.value, ast.Name) else
                        (a.id if isinstance(a, ast.Name) else None))
        # the node is forwarded unchanged if every argument is a parameter of the handler (or *args)
        if args and all(a is not None and a in passthrough for a in args):
            # must be unconditional-ish: not under an isinstance narrowing of the node
            out.append(depth)
    return out


def e5_cycles(ctx, roots, node_classes):
    m = ctx.model
    ctx.rule("E5c", "no dispatch cycle: when the handler the protocol selects for a class merely forwards the same node "
                    "to a parent formatter, the parent's lookup for that class must not select the same handler again "
                    "(otherwise rendering recurses until RecursionError)")
    n = 0
    reported = set()
    for rq, root in sorted(roots.items()):
        for inst in root.walk():
            for nq in node_classes:
                for edited in (False, True):
                    names = m.node_mro_names(nq, edited)
                    seen = []
                    cur = inst
                    while True:
                        r = m.get_formatter(names, cur)
                        if r is None:
                            break
                        owner, hname = r
                        h = m.method(owner.q, hname)
                        key = (owner.path(), hname)
                        if key in seen:
                            rk = (h.qual, nq.rsplit(".", 1)[-1])
                            if rk not in reported:
                                reported.add(rk)
                                ctx.violation("E5c", h.file, h.short, h.node, f"cycle {h.short} x {nq.rsplit('.', 1)[-1]}",
                                              f"under {rq.rsplit('.', 1)[-1]} the protocol selects {h.short} for "
                                              f"{'Edited' if edited else ''}{nq.rsplit('.', 1)[-1]}; that handler only forwards the node to "
                                              f"its parent formatter, whose lookup selects {h.short} again: infinite "
                                              f"recursion (RecursionError) whenever such a node is rendered",
                                              path=[f"{a} -> {b}" for a, b in seen + [key]])
                            break
                        seen.append(key)
                        if h is None:
                            break
                        depths = redispatch_targets(h)
                        if not depths:
                            break
                        nxt = owner
                        for _ in range(depths[0]):
                            nxt = nxt.parent if nxt is not None else None
                        if nxt is None:
                            break
                        n += 1
                        cur = nxt
    ctx.floor("E5c", n, 10, "forwarding steps followed")
    if not reported:
        ctx.proved("E5c", "graphtage/formatter.py", "_get_formatter", None, "no dispatch cycles",
                   f"{n} forwarding steps followed over all (formatter position, class) cells; none returns to its origin")


def h8_overrides(ctx):
    m = ctx.model
    ctx.rule("H8", "an override of a formatter/printer protocol method accepts every call its base accepts: at least "
                   "the same positional parameters and every keyword name (or *args/**kwargs) - callers pass "
                   "with_edits=, is_first=, is_last=, removed=, inserted= by keyword")
    n = 0
    bases = [FORMATTER, "graphtage.printer.Printer", "graphtage.printer.ANSIContext"]
    for b in bases:
        if b not in m.classes:
            continue
        for q in sorted(m.subclasses(b, strict=True)):
            for name, (kind, v) in sorted(m.attrs[q].items()):
                if kind != "def" or name.startswith("__"):
                    continue
                base_def = None
                for k in m.c3(q)[1:]:
                    if name in m.attrs[k] and m.attrs[k][name][0] == "def":
                        base_def = m.attrs[k][name][1]
                        break
                if base_def is None or base_def is v:
                    continue
                if name.startswith("print_"):
                    continue    # handlers are selected per class, not substituted for one another
                n += 1
                a, ba = v.node.args, base_def.node.args
                if a.vararg and a.kwarg:
                    ctx.proved("H8", v.file, v.short, v.node, f"{v.short} signature", "accepts *args, **kwargs", nontrivial=False)
                    continue
                names = [x.arg for x in a.posonlyargs + a.args + a.kwonlyargs]
                bnames = [x.arg for x in ba.posonlyargs + ba.args + ba.kwonlyargs]
                missing = [x for x in bnames if x not in names] if not a.kwarg else []
                fewer_pos = (len(a.args) < len(ba.args)) and not a.vararg
                # renamed positional parameters are fine positionally; only keyword-called ones matter
                kw_called = {"with_edits", "is_first", "is_last", "removed", "inserted", "printer", "node_or_edit", "for_child"}
                missing_kw = [x for x in missing if x in kw_called]
                if fewer_pos or missing_kw:
                    ctx.violation("H8", v.file, v.short, v.node, f"{v.short} signature",
                                  f"{v.short}({', '.join(names[1:])}) overrides {base_def.short}({', '.join(bnames[1:])}) but "
                                  f"accepts {'fewer positional arguments' if fewer_pos else ''}"
                                  f"{' and ' if fewer_pos and missing_kw else ''}{'no ' + str(missing_kw) + ' keyword' if missing_kw else ''}: "
                                  f"callers that pass these (e.g. formatter.print(..., with_edits=False) from Match/Insert/"
                                  f"Remove.print) raise TypeError when this formatter is selected")
                else:
                    ctx.proved("H8", v.file, v.short, v.node, f"{v.short} signature", f"compatible with {base_def.short}")
    ctx.floor("H8", n, 15, "overrides of protocol methods")


def h9_palettes(ctx):
    m = ctx.model
    ctx.rule("H9", "colour-family agreement: a function whose parameter is annotated AnsiFore/AnsiBack/AnsiStyle looks the "
                   "value up in the matching colorama palette (Fore/Back/Style) only")
    fam = {"AnsiFore": "Fore", "AnsiBack": "Back", "AnsiStyle": "Style"}
    n = 0
    for f in sorted(m.functions.values(), key=lambda f: f.qual):
        if f.module != "graphtage.printer" or ".<locals>." in f.qual:
            continue
        anns = {a.arg: dotted(a.annotation) for a in f.node.args.args if a.annotation is not None and dotted(a.annotation) in fam}
        if len(set(anns.values())) != 1:
            continue
        want = fam[next(iter(anns.values()))]
        used = {x.id for x in walk_no_nested(f.node) if isinstance(x, ast.Name) and x.id in fam.values() and isinstance(x.ctx, ast.Load)}
        if not used:
            continue
        n += 1
        wrong = sorted(used - {want})
        if wrong:
            node = next(x for x in walk_no_nested(f.node) if isinstance(x, ast.Name) and x.id in wrong)
            ctx.violation("H9", f.file, f.short, node, f"{f.short} palette",
                          f"{f.short} receives an {next(iter(anns.values()))} but looks it up in `{wrong[0]}`: no constant of "
                          f"that palette equals a {want} code, so the lookup fails (ValueError: unknown colour) as soon "
                          f"as such a colour is used")
        else:
            ctx.proved("H9", f.file, f.short, f.node, f"{f.short} palette", f"uses {want} only")
    ctx.floor("H9", n, 2, "palette lookups")


def h6_copy(ctx, reach):
    m = ctx.model
    ctx.rule("H6", "copy() is reachable while printing (formatter fallbacks copy children); every concrete node class "
                   "that relies on TreeNode.copy_from (`self.__class__(*children)`) must have an __init__ that accepts "
                   "the shape of children()")
    uses = [f for f in reach.values() if not isinstance(f.node, ast.Module)
            and any(isinstance(n, ast.Call) and isinstance(n.func, ast.Attribute) and n.func.attr == "copy" and not n.args
                    for n in walk_no_nested(f.node))
            and f.cls and m.is_subclass(f.cls, FORMATTER)]
    if not uses:
        ctx.proved("H6", "-", "-", None, "no copy() in formatters", "no formatter copies nodes", nontrivial=False)
        return
    where = ", ".join(sorted(u.short for u in uses))
    k = 0
    for q, ok, detail in nodeshape.copy_from_problems(m):
        k += 1
        mod, c = m.classes[q]
        short = q.rsplit(".", 1)[-1]
        if ok:
            ctx.proved("H6", m.files[mod], f"{short}.copy_from", c, f"{short}.copy_from arity", detail)
        else:
            ctx.violation("H6", m.files[mod], f"{short}.copy_from", c, f"{short}.copy_from arity",
                          detail + f"; copy() is called on arbitrary children while printing in {where}")
    ctx.floor("H6", k, 5, "node classes relying on TreeNode.copy_from")


def run(ctx):
    m = ctx.model
    ctx.extra = {}
    cg = CallGraph(m)
    ent, inst = diff_entries(m)
    _, inst = cg.reachable(ent, inst)
    roots, node_classes, edit_classes, fallback = e5_totality(ctx, inst)
    ents = print_phase_entries(m)
    dead = []
    if not fallback:
        dead = dead_fallback_calls(m)
    else:
        for q in fallback:
            pr = m.method(q, "print")
            if pr is not None:
                ents.append(pr)
    cg2 = CallGraph(m, dead_calls=dead)
    reach, _ = cg2.reachable(ents, inst)
    ctx.extra["print_phase_functions"] = len(reach)
    ctx.extra["dead_fallback_calls"] = len(dead)
    h1_reparenting(ctx, reach)
    handler_hazards(ctx, reach, roots)
    e5_cycles(ctx, roots, node_classes)
    h8_overrides(ctx)
    h9_palettes(ctx)
    ctx.assume("value-dependent failures inside third-party encoders (yaml.dump, plistlib.dumps, json.dumps on exotic "
               "objects) are not decided")
    ctx.assume("the engine's model of the formatting protocol (_get_formatter port) - validated against the runtime in "
               "the thorough tier's model cross-check")
