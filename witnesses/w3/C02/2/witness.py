"""C02: a JSON (or YAML) document and a plist document holding the same data are reported as different
(one Replace of the whole document, exit 1) when the plist is the TO side; with the plist as FROM side the
same pair costs 0 and exits 0."""
import json, os, plistlib, subprocess, sys, tempfile


def run(*args):
    p = subprocess.run([sys.executable, "-m", "graphtage", "--no-color", "--quiet", *args],
                       stdout=subprocess.PIPE, stderr=subprocess.PIPE, env=os.environ)
    return p.returncode, p.stdout.decode("utf-8", "replace")


def main():
    failures = []
    with tempfile.TemporaryDirectory() as d:
        for obj in (["a", "b"], {"k": [1, 2.5, True, "x"]}, 5):
            pj = os.path.join(d, "a.json")
            py = os.path.join(d, "a.yaml")
            pp = os.path.join(d, "b.plist")
            with open(pj, "w") as f:
                json.dump(obj, f)
            with open(py, "w") as f:
                json.dump(obj, f)  # JSON is YAML
            with open(pp, "wb") as f:
                plistlib.dump(obj, f)
            with open(pj) as f1, open(pp, "rb") as f2:
                assert json.load(f1) == plistlib.load(f2) == obj  # the oracle: equal as data
            for name, path in (("json", pj), ("yaml", py)):
                rc, out = run(path, pp)
                rc_rev, _ = run(pp, path)
                if rc != 0:
                    failures.append(f"{name} -> plist for {obj!r}: exit status {rc} (plist -> {name}: {rc_rev}); "
                                    f"report: {' '.join(out.split())!r}")
                rc, out = run("--only-edits", path, pp)
                if rc != 0:
                    failures.append(f"{name} -> plist --only-edits for {obj!r}: exit status {rc}: {out.strip()[:120]!r}")
        # library entry points
        from graphtage import json as gjson, plist as gplist
        tj = gjson.build_tree(["a", "b"])
        with open(os.path.join(d, "c.plist"), "wb") as f:
            plistlib.dump(["a", "b"], f)
        tp = gplist.build_tree(os.path.join(d, "c.plist"))
        e = tj.edits(tp)
        while e.tighten_bounds():
            pass
        e_rev = tp.edits(gjson.build_tree(["a", "b"]))
        while e_rev.tighten_bounds():
            pass
        if e.bounds().upper_bound != 0:
            failures.append(f"library: json tree .edits(plist tree) for ['a', 'b'] costs {e.bounds()} ({e!r}); "
                            f"the reverse direction costs {e_rev.bounds()}")
    if failures:
        print("C02 violated: equal data in a JSON/YAML file and a plist file is reported as edited")
        for f in failures:
            print("  -", f)
        return 1
    print("ok: equal JSON/YAML and plist documents compare equal in both directions")
    return 0


if __name__ == "__main__":
    sys.exit(main())
