"""Behaviour-preserving refactors used to test that the checks stay silent when they should (thorough tier).

Each entry is a textual edit (old text must occur exactly once) that does not change behaviour: renaming locals or
parameters, reordering independent statements, extracting an expression into a local, equivalent spellings.  After the
edit no check may report a VIOLATION; INCONCLUSIVE (exit 2) is tolerated and counted.  In addition the whole package is
re-emitted through ast.unparse (a full reformat that drops comments and re-wraps every line).
"""
import ast

def locals_of(fn):
    params = {a.arg for a in fn.args.posonlyargs + fn.args.args + fn.args.kwonlyargs}
    if fn.args.vararg: params.add(fn.args.vararg.arg)
    if fn.args.kwarg: params.add(fn.args.kwarg.arg)
    declared = set()
    out = set()
    stack = list(fn.body)
    while stack:
        n = stack.pop()
        if isinstance(n, (ast.FunctionDef, ast.AsyncFunctionDef, ast.ClassDef, ast.Lambda)):
            if isinstance(n, (ast.FunctionDef, ast.AsyncFunctionDef, ast.ClassDef)):
                out.discard(n.name)
                declared.add(n.name)     # do not rename nested def/class names
            continue
        if isinstance(n, (ast.Global, ast.Nonlocal)):
            declared |= set(n.names)
        if isinstance(n, ast.Name) and isinstance(n.ctx, (ast.Store, ast.Del)):
            out.add(n.id)
        if isinstance(n, ast.ExceptHandler) and n.name:
            declared.add(n.name)         # keep exception names (handler rules print them)
        if isinstance(n, (ast.ListComp, ast.SetComp, ast.DictComp, ast.GeneratorExp)):
            pass
        stack.extend(ast.iter_child_nodes(n))
    return out - params - declared - {"_"}


class Renamer(ast.NodeTransformer):
    def __init__(self):
        self.scopes = []

    def visit_FunctionDef(self, node):
        loc = locals_of(node)
        # names shadowed by parameters of nested functions/lambdas are left alone there: skip functions where that happens
        inner_params = set()
        for n in ast.walk(node):
            if n is not node and isinstance(n, (ast.FunctionDef, ast.Lambda)):
                a = n.args
                inner_params |= {x.arg for x in a.posonlyargs + a.args + a.kwonlyargs}
        loc -= inner_params
        node.decorator_list = [self.visit(d) for d in node.decorator_list]
        node.args.defaults = [self.visit(d) for d in node.args.defaults]
        node.args.kw_defaults = [self.visit(d) if d is not None else None for d in node.args.kw_defaults]
        self.scopes.append(loc)
        node.body = [self.visit(s) for s in node.body]
        self.scopes.pop()
        return node

    visit_AsyncFunctionDef = visit_FunctionDef

    def visit_Name(self, node):
        for sc in reversed(self.scopes):
            if node.id in sc:
                return ast.copy_location(ast.Name(id=node.id + "_r", ctx=node.ctx), node)
        return node




def alpha_rename_source(src):
    """Rename every function-local variable (suffix _r); parameters, attributes and exception names are kept."""
    tree = Renamer().visit(ast.parse(src))
    ast.fix_missing_locations(tree)
    return ast.unparse(tree) + "\n"


# (file, [(old, new), ...], description, properties that read this code)
REFACTORS = [
    ("levenshtein.py", [("brow, bcol, edit = row - 1, col - 1, self.edit_matrix[row][col]", "brow, bcol, edit = row - 1, col - 1, self.edit_matrix[row][col]  # diagonal step")],
     "comment added", ["C01", "C03"]),
    ("levenshtein.py", [("    return dist[rows - 1][cols - 1]", "    last_row = rows - 1\n    last_col = cols - 1\n    return dist[last_row][last_col]")],
     "answer cell through locals", ["C02"]),
    ("sequences.py", [("from_node.children()[len(to_node):]", "from_node.children()[min(len(from_node), len(to_node)):]")],
     "tail start spelled min(n, m)", ["C01", "C10", "C06"]),
    ("sequences.py", [("            self.to_remove: Sequence[TreeNode] = from_node.children()[len(to_node):]\n            self.to_insert: Sequence[TreeNode] = ()",
                       "            self.to_insert: Sequence[TreeNode] = ()\n            self.to_remove: Sequence[TreeNode] = from_node.children()[len(to_node):]")],
     "independent statements reordered", ["C01", "C10"]),
    ("graphtage.py", [("        unshared_kvps = []\n", "        pending_removals = []\n"), ("                unshared_kvps.append(kvp)\n", "                pending_removals.append(kvp)\n"),
                      ("        for kvp in unshared_kvps:\n", "        for kvp in pending_removals:\n")],
     "local renamed in _child_edits", ["C01", "C07", "C10", "C06"]),
    ("multiset.py", [("        to_match = from_set & to_set\n        self._edits: List[Edit] = [Match(n, n, 0) for n in to_match.elements()]",
                      "        identical = from_set & to_set\n        self._edits: List[Edit] = [Match(n, n, 0) for n in identical.elements()]")],
     "local renamed in MultiSetEdit", ["C01", "C02", "C10"]),
    ("__main__.py", [("    had_edits = False\n", "    differs = False\n"), ("had_edits = had_edits or edit.has_non_zero_cost()\n                    elif", "differs = differs or edit.has_non_zero_cost()\n                    elif"),
                     ("                            had_edits = had_edits or edit.has_non_zero_cost()\n                    else:", "                            differs = differs or edit.has_non_zero_cost()\n                    else:"),
                     ("                        had_edits = any(", "                        differs = any("), ("    if had_edits:\n", "    if differs:\n")],
     "status flag renamed", ["C02", "C14"]),
    ("__main__.py", [("    if args.to_mime is not None:\n        to_mime = args.to_mime\n", "    if args.to_mime is None:\n        pass\n    if args.to_mime is not None:\n        to_mime = args.to_mime\n")],
     "no-op branch added", ["C14", "C09"]),
    ("expressions.py", [("def get_member(obj, member: 'IdentifierToken'):", "def get_member(obj, ident: 'IdentifierToken'):"),
                        ("    if not isinstance(member, IdentifierToken):\n        raise ParseError(f\"member name expected, instead found {member}\", member.offset)\n    if member.name.startswith('_'):\n        raise ParseError(f\"Cannot read protected and private member variables: {obj}.{member.name}\", member.offset)\n",
                         "    if not isinstance(ident, IdentifierToken):\n        raise ParseError(f\"member name expected, instead found {ident}\", ident.offset)\n    if ident.name.startswith('_'):\n        raise ParseError(f\"Cannot read protected and private member variables: {obj}.{ident.name}\", ident.offset)\n"),
                        ("        raise ParseError(f\"Cannot read members of interpreter objects: .{member.name}\", member.offset)\n    return getattr(obj, member.name)",
                         "        raise ParseError(f\"Cannot read members of interpreter objects: .{ident.name}\", ident.offset)\n    return getattr(obj, ident.name)")],
     "get_member parameter renamed", ["C19"]),
    ("json.py", [("        except json.decoder.JSONDecodeError as de:\n            return f'Error parsing {os.path.basename(path)}: {de.msg}: line {de.lineno}, column {de.colno} ' \\\n                   f'(char {de.pos})'",
                  "        except json.decoder.JSONDecodeError as err:\n            return f'Error parsing {os.path.basename(path)}: {err.msg}: line {err.lineno}, column {err.colno} ' \\\n                   f'(char {err.pos})'")],
     "exception variable renamed", ["C20"]),
    ("edits.py", [("        self._edit_iter: Iterator[Edit] = edits\n        self._sub_edits: C[Edit] = collection()", "        self._sub_edits: C[Edit] = collection()\n        self._edit_iter: Iterator[Edit] = edits")],
     "independent initialisations reordered", ["C03", "C04", "C05"]),
    ("xml.py", [("        return text_bounds + self.tag_edit.bounds() + self.attrib_edit.bounds() + self.child_edit.bounds()",
                 "        tag_bounds = self.tag_edit.bounds()\n        return text_bounds + tag_bounds + self.attrib_edit.bounds() + self.child_edit.bounds()")],
     "sub-expression extracted into a local", ["C03", "C04"]),
    ("matching.py", [("    left_matches = linear_sum_assignment(np.array(weights, dtype=dtype), maximize=False)\n    return {\n        from_index: (to_index, weights[from_index][to_index])\n        for from_index, to_index in zip(*left_matches)",
                      "    row_ind, col_ind = linear_sum_assignment(np.array(weights, dtype=dtype), maximize=False)\n    return {\n        from_index: (to_index, weights[from_index][to_index])\n        for from_index, to_index in zip(row_ind, col_ind)")],
     "solver result unpacked into two names", ["C15"]),
    ("fibonacci.py", [("        node = HeapNode(item=item, key=self.key(item))\n        node.left = node.right = node\n        self._append_root(node)\n        if self._min is None or node < self._min:\n            self._min = node\n        self._n += 1",
                       "        node = HeapNode(item=item, key=self.key(item))\n        node.left = node.right = node\n        self._append_root(node)\n        self._n += 1\n        if self._min is None or node < self._min:\n            self._min = node")],
     "size increment moved before the min update", ["C16"]),
    ("bounds.py", [("            biggest_bound: Range = biggest.data.bounds()\n            second_biggest_bound: Range = second_biggest.data.bounds()", "            second_biggest_bound: Range = second_biggest.data.bounds()\n            biggest_bound: Range = biggest.data.bounds()")],
     "snapshots reordered in make_distinct", ["C17"]),
    ("builder.py", [("                            for already_expanding, _, _ in work:\n                                if already_expanding is child:", "                            for ancestor, _, _ in work:\n                                if ancestor is child:")],
     "loop variable renamed in the cycle scan", ["C18"]),
    ("yaml.py", [("        list_node = ListNode((c.copy() for c in node.children()))\n        self.print(printer, list_node)", "        copies = [c.copy() for c in node.children()]\n        list_node = ListNode(copies)\n        self.print(printer, list_node)")],
     "copies collected in a local list first", ["C13"]),
    ("printer.py", [("        return ''.join(sorted(self._marks))", "        ordered = sorted(self._marks)\n        return ''.join(ordered)")],
     "sorted marks through a local", ["C07"]),
    ("csv.py", [("        s = StringIO()\n        writer = csv.writer(s)\n        writer.writerow([node.object])\n        r = s.getvalue()", "        s = StringIO()\n        csv.writer(s).writerow([node.object])\n        r = s.getvalue()")],
     "csv writer used without a local", ["C12"]),
    ("graphtage.py", [("            return Match(self, node, levenshtein_distance(str(self.object), str(node.object)))", "            distance = levenshtein_distance(str(self.object), str(node.object))\n            return Match(self, node, distance)")],
     "leaf cost through a local", ["C02"]),
    ("printer.py", [("        self._state_before = set(self.writer.marks)\n", "        snapshot = set(self.writer.marks)\n        self._state_before = snapshot\n"),
                    ("        for mark in self.marks - self._state_before:\n", "        added = self.marks - self._state_before\n        for mark in added:\n")],
     "mark snapshot and released set through locals", ["C13"]),
    ("levenshtein.py", [("make definitive\n                    while self.edit_matrix[row][col].tighten_bounds():\n", "make definitive\n                    last_cell = self.edit_matrix[row][col]\n                    while last_cell.tighten_bounds():\n")],
     "last cell through a local", ["C03", "C05"]),
    ("yaml.py", [("        if len(documents) == 0:\n", "        if not documents:\n")],
     "emptiness of the document list tested by truth value (a list of documents, not a document)", ["C09"]),
    ("matching.py", [("        ), max_edge) + 1\n", "        ), max_edge) + 2\n")],
     "sentinel margin 2 instead of 1", ["C15"]),
    ("graphtage.py", [("            return self.object == other.object and isinstance(self.object, bool) == isinstance(other.object, bool)\n",
                       "            same_kind = isinstance(self.object, bool) == isinstance(other.object, bool)\n            return same_kind and self.object == other.object\n")],
     "leaf kind agreement through a local", ["C02", "C08", "C10"]),
    ("levenshtein.py", [("                return ret or self.bounds().upper_bound < initial_bounds.upper_bound or \\\n                    self.bounds().lower_bound > initial_bounds.lower_bound\n",
                         "                moved = self.bounds().upper_bound < initial_bounds.upper_bound or \\\n                    self.bounds().lower_bound > initial_bounds.lower_bound\n                return ret or moved\n")],
     "progress comparison through a local", ["C04"]),
    ("search.py", [("                        return ret or starting_bounds.lower_bound < self.bounds().lower_bound \\\n                            or starting_bounds.upper_bound > self.bounds().upper_bound\n",
                    "                        moved = starting_bounds.lower_bound < self.bounds().lower_bound \\\n                            or starting_bounds.upper_bound > self.bounds().upper_bound\n                        return ret or moved\n")],
     "goal-branch progress through a local", ["C17"]),
    ("printer.py", [("    global _colorama_initialized\n    if not _colorama_initialized:\n        _colorama_initialized = True\n        colorama.init()\n",
                     "    global _colorama_initialized\n    if _colorama_initialized:\n        return\n    _colorama_initialized = True\n    colorama.init()\n")],
     "once-guard written as an early return", ["C07"]),
    ("json.py", [("        self.parent.print(*args, with_edits=False, **kwargs)\n", "        kwargs['with_edits'] = False\n        self.parent.print(*args, **kwargs)\n")],
     "with_edits=False passed through kwargs", ["C06"]),
    ("expressions.py", [("import types\n", "import types\nfrom types import GeneratorType\n"), ("    types.GeneratorType, types.CoroutineType,", "    GeneratorType, types.CoroutineType,")],
     "one introspection type imported by name", ["C19"]),
    ("matching.py", [("        if min_edge < np.iinfo(dtype).min or max_edge > np.iinfo(dtype).max:\n", "        if not (np.iinfo(dtype).min <= min_edge and max_edge <= np.iinfo(dtype).max):\n")],
     "range guard written as a negated containment", ["C15"]),
]
