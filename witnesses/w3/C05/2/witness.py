"""C05: the rendered diff of one and the same pair of documents depends on the printer's status (quiet) setting
when colour is on: a Printer with status output enabled breaks the line after every string that is printed inside an
already coloured context (every dictionary key, every replaced string)."""
import sys

from graphtage import json as gjson
from graphtage.printer import Printer


class Stdout:
    """A text stream that is "the standard output" as far as StatusWriter can tell (same file descriptor), but keeps
    what is written to it.  This is what a Printer on a redirected sys.stdout sees."""
    def __init__(self):
        self.parts = []

    def write(self, s):
        self.parts.append(s)
        return len(s)

    def flush(self):
        pass

    def isatty(self):
        return False

    def fileno(self):
        return sys.stdout.fileno()

    def value(self):
        return "".join(self.parts)


def render(quiet: bool, color: bool, use_with: bool) -> str:
    a = gjson.build_tree({"key": "value", "other": 1})
    b = gjson.build_tree({"key": "valve", "other": "one"})
    diff = a.diff(b)
    out = Stdout()
    printer = Printer(out, ansi_color=color, quiet=quiet)
    if not quiet and printer.write_raw:
        # sys.stdout of this process is not a real file (no fileno()), so StatusWriter fell back to raw writes;
        # select the mode it uses for the standard streams explicitly
        printer.write_raw = False
    if use_with:
        with printer:
            gjson.JSONFormatter.DEFAULT_INSTANCE.print(printer, diff)
            printer.write("\n")
    else:
        # the way StatusWriter's docstring allows: no `with` block, but a final flush
        gjson.JSONFormatter.DEFAULT_INSTANCE.print(printer, diff)
        printer.write("\n")
        printer.flush(final=True)
    return out.value()


def main() -> int:
    failed = False
    for color in (True, False):
        quiet_text = render(quiet=True, color=color, use_with=False)
        status_text = render(quiet=False, color=color, use_with=False)
        reference = render(quiet=False, color=color, use_with=True)
        if quiet_text != reference:
            print(f"colour={color}: quiet printer without `with` differs from the reference rendering")
            failed = True
        if status_text != quiet_text:
            failed = True
            print(f"colour={color}: the same diff renders differently with status output enabled "
                  f"({len(status_text.splitlines())} lines) and disabled ({len(quiet_text.splitlines())} lines)")
            for i, (x, y) in enumerate(zip(status_text.splitlines(), quiet_text.splitlines())):
                if x != y:
                    print(f"  first differing line {i}:\n    status on : {x!r}\n    status off: {y!r}")
                    break
    return 1 if failed else 0


if __name__ == "__main__":
    sys.exit(main())
