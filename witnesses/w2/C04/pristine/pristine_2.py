"""PRISTINE code: diffing multisets where the source has a duplicated item never terminates.

The matcher's pre-matching estimate is [2, 4]; after the matching is computed it reports [1, 1] (lower bound AND upper
bound moved below the earlier interval, i.e. the earlier interval did not contain the final cost), and
`repeat_until_tightened` then spins forever because the bounds can never again be "tighter than [2, 4]".
"""
import logging
import signal
import sys

import graphtage
from graphtage import IntegerNode, MultiSetNode, StringNode
from graphtage.printer import DEFAULT_PRINTER

assert graphtage.__file__.startswith('/tmp/wt7/C04'), graphtage.__file__
DEFAULT_PRINTER.quiet = True


class Collect(logging.Handler):
    def __init__(self):
        super().__init__()
        self.count = 0
        self.first = None

    def emit(self, record):
        self.count += 1
        if self.first is None:
            self.first = record.getMessage()


collector = Collect()
bounds_log = logging.getLogger("graphtage.bounds")
bounds_log.addHandler(collector)
bounds_log.propagate = False

a_items, b_items = [1, 1, 2], ["ab", "b"]
a = MultiSetNode([IntegerNode(x) for x in a_items])
b = MultiSetNode([StringNode(x) for x in b_items])
print(f"input: MultiSetNode of IntegerNodes {a_items}  ->  MultiSetNode of StringNodes {b_items}")

edit = a.edits(b)
seq = [edit.bounds()]
matcher_seq = [edit._matcher.bounds()]
print("initial bounds of the MultiSetEdit:", seq[0], " of its matcher:", matcher_seq[0])


class Timeout(Exception):
    pass


def on_alarm(*_):
    raise Timeout()


signal.signal(signal.SIGALRM, on_alarm)
signal.alarm(20)
try:
    steps = 0
    while True:
        progressed = edit.tighten_bounds()
        steps += 1
        seq.append(edit.bounds())
        matcher_seq.append(edit._matcher.bounds())
        print(f"step {steps}: tighten_bounds() -> {progressed}; bounds {seq[-1]}")
        if not progressed:
            break
    signal.alarm(0)
except Timeout:
    print("TIMEOUT: tighten_bounds() did not return within 20 seconds (call number", steps + 1, ")")
    print("bounds of the edit now:   ", edit.bounds())
    print("bounds of the matcher now:", edit._matcher.bounds(), "(before:", matcher_seq[-1], ")")
    print("edit bounds sequence:", " -> ".join(map(str, seq + [edit.bounds()])))
    print(f"graphtage.bounds logged {collector.count} warnings; the first one:")
    print("   ", collector.first)
    sys.exit(1)

print("edit bounds sequence:", " -> ".join(map(str, seq)))
final = edit.bounds()
bad = [s for s in seq if not (s.lower_bound <= final.lower_bound and final.upper_bound <= s.upper_bound)]
if bad or not final.definitive():
    print("C04 violation: final", final, "not inside", bad)
    sys.exit(1)
print("terminated normally; no violation observed")
