"""make_distinct stops early when an item's interval was tightened through another item.

Two scenarios, same root cause:
  A. four plain items, where tightening X also tightens Z (they share a sub-computation);
  B. no hand-made coupling at all: the collection holds an IterativeTighteningSearch together with
     two of the items it searches over (tightening the search tightens its candidates).
In both, every item tightens soundly (ends only move inwards, towards a fixed final cost, and
tighten_bounds() is True exactly when something moved), yet after make_distinct() some pair of
items overlaps while not both are single-valued.
"""
import itertools
import sys

from graphtage.bounds import Bounded, Range, make_distinct
from graphtage.search import IterativeTighteningSearch


class Item(Bounded):
    def __init__(self, name, lo, hi, final):
        self.name, self.lo, self.hi, self.final = name, lo, hi, final
        self.also = []

    def bounds(self):
        return Range(self.lo, self.hi)

    def _step(self):
        if self.lo == self.hi:
            return False
        if self.lo < self.final:
            self.lo += 1
        if self.hi > self.final:
            self.hi -= 1
        return True

    def tighten_bounds(self):
        moved = self._step()
        for other in self.also:
            while other._step():
                pass
        return moved

    def __repr__(self):
        return f"{self.name}[{self.lo},{self.hi}]"


def separated(a, b):
    A, B = a.bounds(), b.bounds()
    return (A.definitive() and B.definitive()) or A.upper_bound < B.lower_bound or B.upper_bound < A.lower_bound


def violations(items):
    return [(a, b) for a, b in itertools.combinations(items, 2) if not separated(a, b)]


failed = False

# --- scenario A -----------------------------------------------------------------------------------
X = Item('X', 0, 10, 8)
Y = Item('Y', 0, 9, 3)
Z = Item('Z', 0, 8, 4)
W = Item('W', 0, 7, 5)
X.also = [Z]           # tightening X also tightens Z
items = [X, Y, Z, W]
make_distinct(*items)
bad = violations(items)
if bad:
    failed = True
    print("A: after make_distinct", items, "these pairs overlap without both being single-valued:")
    for a, b in bad:
        print("   ", a, b)

# --- scenario B -----------------------------------------------------------------------------------
class Named(IterativeTighteningSearch):
    def __repr__(self):
        return f"S{self.bounds()}"

P = Item('P', 0, 5, 2)
Q = Item('Q', 1, 4, 3)
C = Item('C', 7, 7, 7)
S = Named(iter([C, P]))     # a search over C and P; P is also handed to make_distinct on its own
items = [P, Q, S]
make_distinct(*items)
bad = violations(items)
if bad:
    failed = True
    print("B: after make_distinct", items, "these pairs overlap without both being single-valued:")
    for a, b in bad:
        print("   ", a, b)

sys.exit(1 if failed else 0)
