"""With ignore_cycles=True a cyclic structure is converted to a tree holding CyclicReference placeholders, but
pydiff.print_diff (the shipped way to diff Python objects) cannot print such a tree: TypeError."""
import io
import sys

from graphtage import BuildOptions, pydiff
from graphtage.builder import CyclicReference
from graphtage.printer import Printer


def cyclic_list(v):
    a = [v]
    a.append(a)
    return a


def cyclic_dict(v):
    d = {"v": v}
    d["self"] = d
    return d


class Node:
    def __init__(self, v):
        self.v = v
        self.me = self


failed = False
cases = [
    ("list, changed", cyclic_list(1), cyclic_list(2)),
    ("list, unchanged", cyclic_list(1), cyclic_list(1)),
    ("dict, changed", cyclic_dict(1), cyclic_dict(2)),
    ("object, changed", Node(1), Node(2)),
]
for name, a, b in cases:
    for allow_key_edits in (True, False):
        options = BuildOptions(ignore_cycles=True, allow_key_edits=allow_key_edits)
        tree = pydiff.build_tree(a, options)
        assert any(isinstance(n, CyclicReference) for n in tree.dfs()), "no placeholder?"
        out = io.StringIO()
        try:
            pydiff.print_diff(a, b, printer=Printer(out_stream=out, ansi_color=False, quiet=True), options=options)
        except Exception as e:
            print(f"[{name}, allow_key_edits={allow_key_edits}] print_diff raised {type(e).__name__}: {e}")
            failed = True
            continue
        if not out.getvalue().strip():
            print(f"[{name}, allow_key_edits={allow_key_edits}] print_diff printed nothing")
            failed = True
sys.exit(1 if failed else 0)
