"""XML/HTML tail text (text that follows a child element) never reaches the tree, so two documents that differ only
there are reported as identical and the text is absent from the report."""
import io
import sys
import xml.etree.ElementTree as ET

from graphtage import xml as gxml
from graphtage.printer import DEFAULT_PRINTER, Printer

DEFAULT_PRINTER.quiet = True

FROM = '<p>Hello <b>world</b>!</p>'
TO = '<p>Hello <b>world</b>, goodbye</p>'

failures = []
for options in (None,):
    a = gxml.build_tree(ET.fromstring(FROM), options)
    b = gxml.build_tree(ET.fromstring(TO), options)
    edit = a.edits(b)
    while edit.valid and not edit.is_complete() and edit.tighten_bounds():
        pass
    while edit.tighten_bounds():
        pass
    reported = list(a.get_all_edits(b))
    out = io.StringIO()
    with Printer(out_stream=out, ansi_color=False, quiet=True) as p:
        gxml.XMLFormatter.DEFAULT_INSTANCE.print(p, a.diff(b))
    text = out.getvalue()
    if edit.bounds().upper_bound == 0 and not reported:
        failures.append(f"{FROM!r} vs {TO!r}: the documents differ (\"!\" vs \", goodbye\") but the edit costs "
                        f"{edit.bounds()} and no edit is reported")
    if '!' not in text or 'goodbye' not in text:
        failures.append(f"the report contains neither side's tail text: {text!r}")

if failures:
    print("C01 violated (XML tail text is dropped):")
    for f in failures:
        print("  -", f)
    sys.exit(1)
print("ok")
sys.exit(0)
