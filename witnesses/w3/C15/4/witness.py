"""C15: small complete float tables with one-decimal weights get a pairing whose total is larger than that of another
pairing - exactly (Fraction), with math.fsum, and with plain float addition in every order."""
import itertools
import math
import sys
from fractions import Fraction

from graphtage.matching import min_weight_bipartite_matching

TABLES = [
    [[0.4, 1.1, 1.1],
     [0.7, 2.7, 1.4]],
    [[2.4, 0.0, 0.6],
     [3.0, 0.1, 0.2],
     [2.5, 0.1, 0.4]],
    [[0.2, 0.3],
     [0.1, 0.2]],      # here plain float addition ties (0.1 + 0.3 == 0.4); only the exact totals differ
]


def float_totals(xs):
    return {sum(p) for p in itertools.permutations(xs)} | {math.fsum(xs)}


failed = False
for table in TABLES:
    n, m = len(table), len(table[0])
    result = min_weight_bipartite_matching(range(n), range(m), lambda i, j: table[i][j])
    got = [w for _, w in result.values()]
    assert len(got) == min(n, m)
    candidates = [[table[i][p[i]] for i in range(n)] for p in itertools.permutations(range(m), n)]
    best = min(candidates, key=lambda c: sum(map(Fraction, c)))
    if sum(map(Fraction, best)) < sum(map(Fraction, got)):
        strict = max(float_totals(best)) < min(float_totals(got))
        failed = True
        print(f"table {table}: returned weights {got} (float total {sum(got)!r}); weights {best} give {sum(best)!r}; "
              f"exact excess {float(sum(map(Fraction, got)) - sum(map(Fraction, best)))!r}; "
              f"smaller under every float summation order: {strict}")
sys.exit(1 if failed else 0)
