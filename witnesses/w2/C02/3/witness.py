"""C02 witness: with --match-if, two IDENTICAL documents are reported as completely replaced and the command exits 1
(whenever the expression cannot be evaluated on the root node, e.g. the root is a list of the dictionaries it is about)."""
import os, subprocess, sys, tempfile

problems = []


def cli(a, b, *args):
    with tempfile.TemporaryDirectory() as d:
        pa, pb = os.path.join(d, 'a.json'), os.path.join(d, 'b.json')
        open(pa, 'w').write(a)
        open(pb, 'w').write(b)
        p = subprocess.run([sys.executable, '-m', 'graphtage', '--no-status', '--no-color', *args, pa, pb],
                           capture_output=True, text=True)
        return p.returncode, p.stdout


doc = '[{"id": 1, "v": "x"}, {"id": 2, "v": "y"}]'
for args in (("--match-if", "from['id'] == to['id']"),
             ("--match-if", "from['id'] == to['id']", "-e"),
             ("--match-if", "from['id'] == to['id']", "-k")):
    rc, out = cli(doc, doc, *args)
    print(f"CLI {args}: identical list-of-dicts documents: exit {rc}, output {out.strip()[:60]!r}")
    if rc != 0:
        problems.append(f"CLI {args}: identical documents exit {rc}; '->' in output: {'->' in out or 'Replace' in out}")
# a dict root, but an expression about key/value pairs (the shape used in test/test_constraints.py)
doc2 = '{"foo": [1, 2, 3]}'
rc, out = cli(doc2, doc2, "--match-if", "from.key == to.key")
print(f"CLI --match-if 'from.key == to.key': identical dict documents: exit {rc}")
if rc != 0:
    problems.append(f"CLI --match-if 'from.key == to.key': identical documents exit {rc}")
# control: without the option the same files are equal
rc0, _ = cli(doc, doc)
print(f"CLI without --match-if: exit {rc0}")

# library entry point
from graphtage import expressions
from graphtage.constraints import MatchIf
from graphtage.json import build_tree
obj = [{"id": 1}]
t1, t2 = build_tree(obj), build_tree(obj)
for node in t1.dfs():
    MatchIf.apply(node, expressions.parse("from['id'] == to['id']"))
e = t1.edits(t2)
while e.tighten_bounds():
    pass
print(f"library: MatchIf applied, identical trees: {type(e).__name__} cost {e.bounds().upper_bound}")
if e.bounds().upper_bound != 0:
    problems.append(f"library: identical trees cost {e.bounds().upper_bound} once MatchIf is applied to every node")
if problems:
    print("VIOLATION: identical documents are reported as different under --match-if:")
    for p in problems:
        print("  -", p)
    sys.exit(1)
print("ok")
sys.exit(0)
