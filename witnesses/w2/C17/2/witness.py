"""C17 / the search trusts its heap keys and never re-reads an item whose tighten_bounds() returns False.

If an item reaches its final cost without the search itself having made the last tighten_bounds() call
(the caller tightens the best_match it was handed; two consumers share the items; the same object occurs
twice in the collection), the search stops with a non-single-valued bound, or even with a non-minimal item.
"""
import sys
from graphtage.bounds import Range
from graphtage.search import IterativeTighteningSearch


class Item:
    def __init__(self, name, *schedule):
        self.name, self.schedule, self.i = name, schedule, 0

    @property
    def final(self):
        return self.schedule[-1][0]

    def bounds(self):
        return Range(*self.schedule[self.i])

    def tighten_bounds(self):
        if self.i + 1 < len(self.schedule):
            self.i += 1
            return True
        return False

    def __repr__(self):
        return f"{self.name}{list(self.schedule[self.i])}->{self.final}"


def mk():
    a = Item('A', *([(0, u) for u in range(20, 7, -1)] + [(7, 7)]))
    b = Item('B', *([(0, u) for u in range(30, 7, -1)] + [(2, 2)]))
    return a, b


def finish(s):
    n = 0
    while s.tighten_bounds():
        n += 1
        if n > 10000:
            print("does not terminate")
            sys.exit(1)


bad = False

# (i) the caller fully tightens the best_match it was handed, then resumes the search
a, b = mk()
s = IterativeTighteningSearch(iter([a, b]))
s.tighten_bounds()
handed = s.best_match
while handed.tighten_bounds():
    pass
finish(s)
if s.best_match.final != 2 or not s.bounds().definitive() or s.bounds().lower_bound != 2:
    bad = True
    print(f"(i) caller tightened best_match: search ended with best={s.best_match}, bounds={s.bounds()}, "
          f"goal_test={s.goal_test()}; expected best B, bounds [2, 2]")

# (ii) both items tightened by another consumer between two calls
a, b = mk()
s = IterativeTighteningSearch(iter([a, b]))
s.tighten_bounds()
for x in (a, b):
    while x.tighten_bounds():
        pass
finish(s)
if s.best_match.final != 2 or not s.bounds().definitive() or s.bounds().lower_bound != 2:
    bad = True
    print(f"(ii) items tightened elsewhere: search ended with best={s.best_match}, bounds={s.bounds()}; "
          f"expected best B (final cost 2), bounds [2, 2]")

# (iii) no outside call at all: the same object is listed twice
a = Item('A', (0, 10), (0, 9), (7, 7))
s = IterativeTighteningSearch(iter([a, a]))
finish(s)
if not s.bounds().definitive() or s.bounds().lower_bound != 7:
    bad = True
    print(f"(iii) collection [A, A]: search ended with best={s.best_match}, bounds={s.bounds()}, "
          f"goal_test={s.goal_test()}; expected bounds [7, 7]")

sys.exit(1 if bad else 0)
