"""WeightedBipartiteMatcher documents that get_edge may return None ("or None if there is no edge") but cannot handle it."""
import sys, traceback
from graphtage.bounds import ConstantBound
from graphtage.matching import WeightedBipartiteMatcher, min_weight_bipartite_matching

W = [[1, None],
     [None, 2]]
# the underlying routine is fine with this table:
assert {int(k): (int(t), w) for k, (t, w) in
        min_weight_bipartite_matching(range(2), range(2), lambda i, j: W[i][j]).items()} == {0: (0, 1), 1: (1, 2)}

def get_edge(f, t):
    return None if W[f][t] is None else ConstantBound(W[f][t])

problems = []
for name, call in (("matching", lambda m: m.matching),
                   ("bounds", lambda m: m.bounds()),
                   ("tighten_bounds", lambda m: m.tighten_bounds())):
    m = WeightedBipartiteMatcher([0, 1], [0, 1], get_edge)
    try:
        call(m)
    except Exception as e:
        problems.append(f"{name}: {type(e).__name__}: {e}  (at {traceback.extract_tb(e.__traceback__)[-1].name})")
        continue
    got = {f: (t, e.bounds().upper_bound) for f, (t, e) in m.matching.items()}
    if got != {0: (0, 1), 1: (1, 2)}:
        problems.append(f"{name}: matching {got}")
if problems:
    print("VIOLATION: sparse table (missing pairs) crashes WeightedBipartiteMatcher")
    for p in problems:
        print("  " + p)
    sys.exit(1)
print("ok")
