"""C06 - both documents can be read back from the rendered (JSON) diff - necessary conditions only.

E10 mark polarity: inside a removal mark (strike / red background) only from-side content is printed, inside an
insertion mark (under-plus / green background) only to-side content; the plain-text markers ~~ / ++ bracket the
content they mark.  E9 JSON escaping: every character of string content passes JSONStringFormatter.escape
(json.dumps) and leaves pass json.dumps.  The string-edit printer flushes both pending runs before the closing quote.
A zero-cost match prints without marks.  That the text actually parses back is a property of output values and is
NOT decided.
"""
import ast

from ..astx import code
from ..astx import walk_no_nested, dotted, call_name, self_attr, func_params, parent, ancestors, dominating_conditions, \
    flatten_conditions, kwarg
from ..core import norm, Inconclusive
from .. import pat

OLD, NEW = "old", "new"


def context_polarity(withnode):
    """'old' for strike()/Back.RED contexts, 'new' for under_plus()/Back.GREEN, None otherwise."""
    pol = set()
    for it in withnode.items:
        for c in ast.walk(it.context_expr):
            if isinstance(c, ast.Call) and isinstance(c.func, ast.Attribute):
                if c.func.attr == "strike":
                    pol.add(OLD)
                elif c.func.attr == "under_plus":
                    pol.add(NEW)
                elif c.func.attr == "background" and c.args:
                    d = dotted(c.args[0]) or ""
                    if d.endswith("RED"):
                        pol.add(OLD)
                    elif d.endswith("GREEN"):
                        pol.add(NEW)
    return pol


def enclosing_polarity(node):
    pol = set()
    for a in ancestors(node):
        if isinstance(a, ast.With):
            pol |= context_polarity(a)
        if isinstance(a, (ast.FunctionDef, ast.AsyncFunctionDef)):
            break
    return pol


def e10(ctx):
    m = ctx.model
    ctx.rule("E10", "mark polarity: content printed inside strike / red is from-side (removed) content, content printed inside "
                    "under-plus / green is to-side (inserted) content; plain-text markers bracket the content they mark")
    n_ctx = 0
    # per-class side table: which expression denotes which side
    tables = {
        "Match": {"self.from_node": OLD, "self.to_node": NEW},
        "Replace": {"self.from_node": OLD, "self.to_node": NEW},
        "Remove": {"self.from_node": OLD},
        "Insert": {"self.to_insert": NEW, "self.from_node": NEW},
    }
    for cname, table in tables.items():
        q = m.need_class(cname)
        f = m.method(q, "print")
        if f is None or f.cls != q:
            ctx.violation("E10", m.files[m.classes[q][0]], f"{cname}.print", None, f"{cname}.print", f"{cname} no longer defines print")
            continue
        for c in walk_no_nested(f.node):
            if isinstance(c, ast.Call) and isinstance(c.func, ast.Attribute) and c.func.attr == "print" \
                    and dotted(c.func.value) == "formatter":
                arg = kwarg(c, "node_or_edit", 1)
                side = table.get(dotted(arg))
                pol = enclosing_polarity(c)
                if pol:
                    n_ctx += 1
                if side is None:
                    ctx.inconclusive("E10", f.file, f"{cname}.print", c, f"{cname}: {norm(arg)}", f"cannot tell which side `{norm(arg)}` is")
                elif pol and pol != {side}:
                    ctx.violation("E10", f.file, f"{cname}.print", c, f"{cname}: {norm(arg)} in {sorted(pol)}",
                                  f"{cname}.print renders `{norm(arg)}` ({'removed/old' if side == OLD else 'inserted/new'} content) "
                                  f"inside a {'removal' if OLD in pol else 'insertion'} mark: deleting what is marked "
                                  f"{'inserted' if NEW in pol else 'removed'} no longer leaves the other document")
                elif pol:
                    ctx.proved("E10", f.file, f"{cname}.print", c, f"{cname}: {norm(arg)} in {sorted(pol)}",
                               f"{'old' if side == OLD else 'new'} content inside a {'removal' if side == OLD else 'insertion'} mark")
                else:
                    # unmarked print: only allowed for the zero-cost branch, printing the to-side (== from-side) node
                    facts = [ast.unparse(t) for t, p in flatten_conditions(dominating_conditions(c))]
                    ctx.proved("E10", f.file, f"{cname}.print", c, f"{cname}: {norm(arg)} unmarked",
                               f"unmarked print of {norm(arg)} under {facts}", nontrivial=False)
        # plain-text markers
        if cname in ("Remove", "Insert"):
            marker = "REMOVE_STRING" if cname == "Remove" else "INSERT_STRING"
            body = code(f.node).replace(" ", "")
            seq = f"printer.write(self.{marker})\nformatter.print(printer,self.{'from_node' if cname == 'Remove' else 'to_insert'},False)\nprinter.write(self.{marker})"
            if seq in body.replace("    ", ""):
                ctx.proved("E10", f.file, f"{cname}.print", f.node, f"{cname} text markers", f"{marker} is written before and after the content when colour is off")
            else:
                ctx.violation("E10", f.file, f"{cname}.print", f.node, f"{cname} text markers",
                              f"without ANSI colour {cname}.print does not bracket the content with {marker} on both sides")
    # zero-cost match prints unmarked
    mq = m.need_class("Match")
    mp = m.method(mq, "print")
    t = code(mp.node).replace(" ", "")
    if "ifself.bounds()>Range(0,0):" in t and "else:\nformatter.print(printer=printer,node_or_edit=self.to_node,with_edits=False)" in t.replace("    ", ""):
        ctx.proved("E10", mp.file, "Match.print", mp.node, "unchanged prints unmarked", "marks only when the match has a positive cost")
    else:
        ctx.violation("E10", mp.file, "Match.print", mp.node, "unchanged prints unmarked",
                      "Match.print no longer prints a zero-cost match without marks (marks iff cost > 0)")
    # string edits
    sq = m.need_class("StringFormatter")
    pe = m.method(sq, "print_StringEdit")
    F = pe.file
    W = "StringFormatter.print_StringEdit"

    def loop_source(c):
        loop = next((a for a in ancestors(c) if isinstance(a, ast.For)), None)
        if loop is None:
            return None
        it = loop.iter.args[0] if isinstance(loop.iter, ast.Call) and call_name(loop.iter) == "enumerate" and loop.iter.args else loop.iter
        src = dotted(it)
        owner = next((nm for nm, d in closures.items() if any(c is x for x in ast.walk(d))), None)
        if owner and (owner, src) in param_of and len(param_of[(owner, src)]) == 1:
            src = next(iter(param_of[(owner, src)]))
        return src
    seqs = {OLD: set(), NEW: set()}
    marked = []
    # local closures of print_StringEdit belong to it (a flush helper defined inside the method)
    closures = {d.name: d for d in ast.walk(pe.node) if isinstance(d, ast.FunctionDef) and d is not pe.node}
    # ... and so do same-class helper methods it calls that write marked characters (`self._write_replaced_chars(...)`); their
    # parameters stand for the arguments print_StringEdit passes
    from ..astx import class_helpers
    param_of = {}
    for h_ in class_helpers(m, sq, pe, depth=1)[1:]:
        if h_.node.name in ("write_char", "write_start_quote", "write_end_quote", "print", "escape"):
            continue
        if not any(isinstance(c, ast.Call) and self_attr(c.func) == "write_char" and (kwarg(c, "removed") is not None or kwarg(c, "inserted") is not None)
                   for c in walk_no_nested(h_.node)):
            continue
        closures[h_.node.name] = h_.node
        hp = [p_ for p_ in func_params(h_.node) if p_ != "self"]
        for call in walk_no_nested(pe.node):
            if isinstance(call, ast.Call) and self_attr(call.func) == h_.node.name:
                for p_, a_ in zip(hp, call.args):
                    param_of.setdefault((h_.node.name, p_), set()).add(dotted(a_))

    def walk_pe():
        yield from walk_no_nested(pe.node)
        for d in closures.values():
            yield from walk_no_nested(d)
    for c in walk_pe():
        if isinstance(c, ast.Call) and self_attr(c.func) == "write_char":
            rem, ins = kwarg(c, "removed"), kwarg(c, "inserted")
            side = OLD if (isinstance(rem, ast.Constant) and rem.value is True) else \
                NEW if (isinstance(ins, ast.Constant) and ins.value is True) else None
            pol = enclosing_polarity(c)
            if side is None:
                if pol:
                    ctx.violation("E10", F, W, c, "unchanged char inside mark", "an unchanged character is written inside a change mark")
                else:
                    ctx.proved("E10", F, W, c, "unchanged char unmarked", "matched characters are written outside marks", nontrivial=False)
                continue
            seqs[side].add(loop_source(c))
            marked.append((c, side, pol, loop_source(c)))
    rem_seq = next(iter(seqs[OLD])) if len(seqs[OLD]) == 1 else None
    add_seq = next(iter(seqs[NEW])) if len(seqs[NEW]) == 1 else None
    if not rem_seq or not add_seq or rem_seq == add_seq:
        ctx.violation("E10", F, W, pe.node, "pending runs",
                      f"removed characters are written from {sorted(x or '?' for x in seqs[OLD])} and inserted characters from "
                      f"{sorted(x or '?' for x in seqs[NEW])}: each side must have exactly one pending run, distinct from the other")
    for k, (c, side, pol, src) in enumerate(sorted(marked, key=lambda x: x[0].lineno)):
        n_ctx += 1
        which = "removed" if side == OLD else "inserted"
        if pol == {side}:
            ctx.proved("E10", F, W, c, f"{which} run #{k} in {sorted(pol)}",
                       f"characters of the pending {which} run are written with {which}=True inside the matching mark")
        else:
            ctx.violation("E10", F, W, c, f"{which} run #{k} in {sorted(pol)}",
                          f"characters from `{src}` are written with {which}=True inside {sorted(pol) or 'no'} mark; expected a "
                          f"{'removal' if side == OLD else 'insertion'} mark")
    # pending runs are fed from the right side: whatever is appended to the removed run is a from-side object, whatever
    # is appended to the inserted run is a to-side / inserted object
    def fed_from(seq):
        out = []
        for c in walk_no_nested(pe.node):
            if isinstance(c, ast.Call) and isinstance(c.func, ast.Attribute) and c.func.attr == "append" \
                    and dotted(c.func.value) == seq and c.args and isinstance(c.args[0], ast.Name):
                v = c.args[0].id
                for s_ in walk_no_nested(pe.node):
                    if isinstance(s_, ast.Assign) and isinstance(s_.targets[0], ast.Name) and s_.targets[0].id == v \
                            and not (isinstance(s_.value, ast.Constant) and s_.value.value is None):
                        out.append((s_, ast.unparse(s_.value)))
        return out
    if rem_seq and add_seq:
        for seq, ok_suffix, what in ((rem_seq, (".from_node.object",), "removed"), (add_seq, (".to_insert.object", ".to_node.object"), "inserted")):
            feeds = fed_from(seq)
            bad = [x for x in feeds if not x[1].endswith(ok_suffix)]
            if feeds and not bad:
                ctx.proved("E10", F, W, feeds[0][0], f"{what} run fed from the right side",
                           f"the pending {what} run only receives {' / '.join(ok_suffix)} values")
            else:
                node = (bad or [(pe.node, "")])[0][0]
                ctx.violation("E10", F, W, node, f"{what} run fed from the right side",
                              f"the pending {what} run receives `{bad[0][1] if bad else 'nothing'}`; it must only receive "
                              f"{' / '.join(ok_suffix)} values, otherwise characters of the other document are marked as {what}")
    # flush before the closing quote: after the edit loop, both runs are drained, then write_end_quote
    wq = [c for c in walk_no_nested(pe.node) if isinstance(c, ast.Call) and self_attr(c.func) == "write_end_quote"]
    main_loop = None
    for x in walk_no_nested(pe.node):
        if isinstance(x, ast.For) and any(isinstance(c, ast.Call) and call_name(c) == "isinstance" for c in ast.walk(x)):
            if main_loop is None or x.lineno < main_loop.lineno:
                main_loop = x
    if wq and main_loop is not None and rem_seq and add_seq:
        after = {src for c, side, pol, src in marked if c.lineno > main_loop.end_lineno and c.lineno < wq[0].lineno}
        for call in walk_no_nested(pe.node):
            cname = call.func.id if isinstance(call, ast.Call) and isinstance(call.func, ast.Name) else (self_attr(call.func) if isinstance(call, ast.Call) else None)
            if cname in closures and main_loop.end_lineno < call.lineno < wq[0].lineno:
                d = closures[cname]
                after |= {src for c, side, pol, src in marked if d.lineno <= c.lineno <= d.end_lineno}
        if {rem_seq, add_seq} <= after:
            ctx.proved("E10", F, W, wq[0], "pending runs flushed", "both pending runs are written after the loop and before the closing quote")
        else:
            ctx.violation("E10", F, W, wq[0], "pending runs flushed",
                          f"only {sorted(x for x in after if x)} are flushed between the edit loop and the closing quote: trailing "
                          f"removed or inserted characters are dropped from the rendering")
    # delimiters in sequences
    qs = m.need_class("SequenceFormatter")
    ps = m.method(qs, "print_SequenceNode")
    _c0, cb = pat.first("if isinstance(E, Remove):\n    U += 1\nelif isinstance(E, Insert):\n    V += 1", ps.node)
    if cb is None:
        ctx.violation("E10", ps.file, "SequenceFormatter.print_SequenceNode", ps.node, "counters",
                      "the removal/insertion counters are no longer fed by Remove/Insert edits respectively")
    else:
        U, V = cb["U"], cb["V"]
        ctx.proved("E10", ps.file, "SequenceFormatter.print_SequenceNode", _c0, "counters", "Remove feeds the removal counter, Insert the insertion counter")
        for c in walk_no_nested(ps.node):
            if isinstance(c, ast.Call) and self_attr(c.func) == "delimiter_callback":
                pol = enclosing_polarity(c)
                facts = [ast.unparse(t) for t, p_ in flatten_conditions(dominating_conditions(c)) if p_]
                nfacts = [ast.unparse(t) for t, p_ in flatten_conditions(dominating_conditions(c)) if not p_]
                if pol == {OLD} and U in facts:
                    n_ctx += 1
                    ctx.proved("E10", ps.file, "SequenceFormatter.print_SequenceNode", c, "removed delimiter", "a delimiter is struck only while a removal is pending")
                elif pol == {NEW} and V in facts and U in nfacts:
                    n_ctx += 1
                    ctx.proved("E10", ps.file, "SequenceFormatter.print_SequenceNode", c, "inserted delimiter", "a delimiter is marked inserted only while an insertion (and no removal) is pending")
                elif not pol and U in nfacts and V in nfacts:
                    ctx.proved("E10", ps.file, "SequenceFormatter.print_SequenceNode", c, "plain delimiter", "otherwise the delimiter is plain", nontrivial=False)
                else:
                    ctx.violation("E10", ps.file, "SequenceFormatter.print_SequenceNode", c, f"delimiter in {sorted(pol)}",
                                  f"delimiter written inside {sorted(pol) or 'no'} mark under {facts} / not {nfacts}: the removal counter "
                                  f"must pair with strike and the insertion counter with under-plus")
    ctx.floor("E10", n_ctx, 12, "marked print sites")


def e9_json(ctx):
    m = ctx.model
    ctx.rule("E9", "JSON escaping: every character of string content is written through escape() (json.dumps(c)[1:-1] for "
                   "the JSON formatter) and every other leaf through json.dumps; JSON strings are always quoted")
    sq = m.need_class("StringFormatter")
    wc = m.method(sq, "write_char")
    writes = [c for c in walk_no_nested(wc.node) if isinstance(c, ast.Call) and isinstance(c.func, ast.Attribute)
              and c.func.attr == "write" and dotted(c.func.value) == "printer"]
    content = [c for c in writes if c.args and not (isinstance(c.args[0], ast.Attribute) and c.args[0].attr in ("INSERT_STRING", "REMOVE_STRING"))]
    esc = [s for s in walk_no_nested(wc.node) if isinstance(s, ast.Assign) and isinstance(s.value, ast.Call) and self_attr(s.value.func) == "escape"]
    if esc and content and all(dotted(c.args[0]) == esc[0].targets[0].id for c in content):
        ctx.proved("E9", wc.file, "StringFormatter.write_char", esc[0], "characters escaped", f"every content write is `{esc[0].targets[0].id} = self.escape(c)`")
    else:
        bad = next((c for c in content if not esc or dotted(c.args[0]) != esc[0].targets[0].id), wc.node)
        ctx.violation("E9", wc.file, "StringFormatter.write_char", bad, "characters escaped",
                      f"write_char writes `{norm(bad, 50)}` without passing it through self.escape(): quotes, backslashes and "
                      f"control characters reach the output raw, and the rendered JSON no longer parses")
    jq = m.need_class("JSONStringFormatter")
    je = m.method(jq, "escape")
    rets = [r for r in walk_no_nested(je.node) if isinstance(r, ast.Return)]
    bad = [r for r in rets if r.value is None or ast.unparse(r.value).replace(" ", "") != f"json.dumps({func_params(je.node)[1]})[1:-1]"]
    if je.cls == jq and rets and not bad:
        ctx.proved("E9", je.file, "JSONStringFormatter.escape", je.node, "json escape", "every path returns json.dumps(c)[1:-1]")
    else:
        ctx.violation("E9", je.file, "JSONStringFormatter.escape", (bad or [je.node])[0], "json escape",
                      f"JSONStringFormatter.escape returns `{norm(bad[0].value, 40) if bad and bad[0].value is not None else '?'}` on some "
                      f"path instead of json.dumps(c)[1:-1]: characters that json would escape (non-ASCII, combining marks used "
                      f"as change marks, control characters) reach the output raw")
    for name in ("write_start_quote", "write_end_quote"):
        f = m.method(jq, name)
        t = code(f.node).replace(" ", "")
        if f.cls == jq and "printer.write('\"')" in t and "if" not in t.split("'''")[-1].split('"""')[-1].replace("is_quoted", ""):
            ctx.proved("E9", f.file, f"JSONStringFormatter.{name}", f.node, name, "the quote is written unconditionally")
        else:
            ctx.violation("E9", f.file, f"JSONStringFormatter.{name}", f.node, name, f"JSON {name} does not always write the quote")
    fq = m.need_class("JSONFormatter")
    pl = m.method(fq, "print_LeafNode")
    ok, why = encoder_on_all_paths(pl.node, lambda e: ast.unparse(e).replace(" ", "") == "json.dumps(node.object)")
    if ok:
        ctx.proved("E9", pl.file, "JSONFormatter.print_LeafNode", pl.node, "leaf encoding", "what is written is json.dumps(node.object) on every path")
    else:
        ctx.violation("E9", pl.file, "JSONFormatter.print_LeafNode", pl.node, "leaf encoding",
                      f"JSON leaves are not written as json.dumps(node.object) on every path ({why}): a value obtained another "
                      f"way (e.g. from a memo keyed by ==-equal values, where 1, True and 1.0 collide) is printed")
    # the JSON formatter's string sub-formatter must be the JSON one
    sft = m.cls_attr(fq, "sub_format_types")
    names = [dotted(e) for e in sft[1][1].elts] if sft else []
    if "JSONStringFormatter" in names:
        ctx.proved("E9", pl.file, "JSONFormatter", None, "string sub-formatter", "strings are formatted by JSONStringFormatter", nontrivial=False)
    else:
        ctx.violation("E9", pl.file, "JSONFormatter", None, "string sub-formatter", "JSONFormatter no longer lists JSONStringFormatter first among its sub-formatters")


def encoder_on_all_paths(fn, is_encoded):
    """Every printer.write(X) in fn writes an encoder call, or a name whose every assignment in fn is an encoder call."""
    writes = [c for c in walk_no_nested(fn) if isinstance(c, ast.Call) and isinstance(c.func, ast.Attribute)
              and c.func.attr == "write" and dotted(c.func.value) in ("printer", "p")]
    if not writes:
        return False, "nothing is written"
    for w in writes:
        a = w.args[0] if w.args else None
        if a is None:
            return False, "write() without argument"
        if is_encoded(a):
            continue
        if isinstance(a, ast.Name):
            defs = [s.value for s in walk_no_nested(fn) if isinstance(s, (ast.Assign, ast.AnnAssign)) and s.value is not None
                    and any(isinstance(t, ast.Name) and t.id == a.id for t in (s.targets if isinstance(s, ast.Assign) else [s.target]))]
            bad = [d for d in defs if not is_encoded(d)]
            if defs and not bad:
                continue
            return False, f"`{a.id}` is assigned from `{norm(bad[0], 50) if bad else '?'}`"
        return False, f"writes `{norm(a, 50)}`"
    return True, ""


def e5d(ctx):
    """Same-node forwarding must not re-enable the node's edit."""
    from ..callgraph import CallGraph
    from .c13 import redispatch_targets
    m = ctx.model
    ctx.rule("E5d", "an edit is rendered once: GraphtageFormatter.print dispatches a node's edit before it selects a node "
                    "handler, and Replace/Match/Remove/Insert.print ask for their nodes with with_edits=False; a print_<Class> "
                    "handler of a sequence formatter that forwards the node it was given to another formatter's print() must "
                    "pass with_edits=False, whenever the protocol can select that handler for an item of a collection the "
                    "same formatter prints (items are printed through self.print(printer, edit)) - otherwise the item's own "
                    "edit is printed a second time and the new value appears twice")
    TREE = "graphtage.tree.TreeNode"
    bt = m.func("graphtage.json.build_tree")
    cg = CallGraph(m)
    _, inst = cg.reachable([bt], set())
    nodes = sorted(q for q in inst if q in m.classes and m.is_subclass(q, TREE) and not m.is_abstract(q))
    if len(nodes) < 5:
        ctx.inconclusive("E5d", bt.file, "build_tree", bt.node, "node classes", f"only {len(nodes)} node classes found reachable from json.build_tree")
        return
    fmts, default = m.formatter_registry()
    jq = m.find_class("JSONFormatter")
    root = default.get(jq)
    if root is None:
        ctx.inconclusive("E5d", "graphtage/json.py", "JSONFormatter", None, "default instance", "JSONFormatter.DEFAULT_INSTANCE not modelled")
        return
    MAP, KVP, SEQ = m.need_class("MappingNode"), m.need_class("KeyValuePairNode"), m.need_class("SequenceNode")
    SF = m.need_class("SequenceFormatter")

    def elements(y):
        if m.is_subclass(y, MAP):
            return [q for q in nodes if m.is_subclass(q, KVP)]
        return nodes
    n = 0
    for S in root.walk():
        if not m.is_subclass(S.q, SF):
            continue
        selected = {}
        for x in nodes:
            r = m.get_formatter(m.node_mro_names(x, True), S)
            if r is not None and r[0] is S:
                selected[x] = r[1]
        fwd = {}
        for hname in set(selected.values()):
            h = m.method(S.q, hname)
            if h is None or not redispatch_targets(h):
                continue
            calls = [c for c in walk_no_nested(h.node) if isinstance(c, ast.Call) and isinstance(c.func, ast.Attribute)
                     and c.func.attr == "print" and "parent" in ast.unparse(c.func.value)]
            kw_name = h.node.args.kwarg.arg if h.node.args.kwarg else None
            presets = kw_name is not None and any(
                (isinstance(a, ast.Assign) and isinstance(a.targets[0], ast.Subscript) and dotted(a.targets[0].value) == kw_name
                 and isinstance(a.targets[0].slice, ast.Constant) and a.targets[0].slice.value == "with_edits"
                 and isinstance(a.value, ast.Constant) and a.value.value is False)
                or (isinstance(a, ast.Expr) and isinstance(a.value, ast.Call) and dotted(a.value.func) == f"{kw_name}.update"
                    and any(k.arg == "with_edits" and isinstance(k.value, ast.Constant) and k.value.value is False for k in a.value.keywords))
                for a in walk_no_nested(h.node))
            safe = presets or all(any(k.arg == "with_edits" and isinstance(k.value, ast.Constant) and k.value.value is False for k in c.keywords)
                                  or (len(c.args) >= 3 and isinstance(c.args[2], ast.Constant) and c.args[2].value is False) for c in calls)
            fwd[hname] = (h, calls, safe)
        if not fwd:
            continue
        containers = [y for y, hn in selected.items() if hn not in fwd and m.is_subclass(y, SEQ)]
        for hname, (h, calls, safe) in sorted(fwd.items()):
            n += 1
            hit = [(y, x) for y in containers for x in elements(y) if selected.get(x) == hname]
            key = f"{S.name}.{hname}"
            if not hit:
                ctx.proved("E5d", h.file, h.short, calls[0], key, f"{key} forwards the node to its parent formatter, but under {S.name} it is "
                           f"never selected for an item of a collection {S.name} prints (JSON-built node classes)", nontrivial=False)
            elif safe:
                ctx.proved("E5d", h.file, h.short, calls[0], key, f"{key} forwards with with_edits=False "
                           f"(selected e.g. for a {hit[0][1].rsplit('.', 1)[-1]} inside a {hit[0][0].rsplit('.', 1)[-1]})")
            else:
                y, x = hit[0]
                ctx.violation("E5d", h.file, h.short, calls[0], key,
                              f"{key} forwards the node it was given with `{norm(calls[0], 60)}` (with_edits defaults to True); under "
                              f"{S.name} the protocol selects it for a {x.rsplit('.', 1)[-1]} that is an item of a {y.rsplit('.', 1)[-1]}: when "
                              f"that item is replaced, Replace.print asks for the old value without edits, this handler re-enables "
                              f"them, and the replacement is printed twice (`[{{\"k\": 1}}] -> [12]` renders `{{...}} -> 12 -> 12`), so "
                              f"deleting what is marked removed no longer leaves the second document")
    ctx.floor("E5d", n, 1, "same-node forwarding handlers of JSON sequence formatters")


def e10b(ctx):
    m = ctx.model
    ctx.rule("E10b", "whether a sequence is rendered through its edit's sub-edits is decided by structure alone (the node is an "
                     "edited node and its edit is a sequence edit), never by the edit's cost: zero-cost changes exist (a null or "
                     "an empty string added to a list of scalars), and a cost test there prints the list without any mark")
    q = m.need_class("SequenceFormatter")
    f = m.method(q, "print_SequenceNode")
    n = 0
    for i in walk_no_nested(f.node):
        if isinstance(i, ast.If) and any(isinstance(c, ast.Call) and isinstance(c.func, ast.Attribute) and c.func.attr == "edits"
                                         for s_ in i.body for c in ast.walk(s_)):
            n += 1
            calls = [c for c in ast.walk(i.test) if isinstance(c, ast.Call)]
            foreign = [c for c in calls if call_name(c) != "isinstance"]
            if foreign:
                ctx.violation("E10b", f.file, "SequenceFormatter.print_SequenceNode", i.test, "sub-edits chosen by structure",
                              f"the branch that renders the sub-edits is additionally guarded by `{norm(foreign[0], 40)}`: an edit of cost 0 is not "
                              f"'no change' ([1, 2, null] vs [1, 2] costs 0), so such a list is printed as unchanged and the second document "
                              f"cannot be read back")
            else:
                ctx.proved("E10b", f.file, "SequenceFormatter.print_SequenceNode", i.test, "sub-edits chosen by structure", f"`{norm(i.test, 80)}`")
    # the same decision written without an `if` statement, or moved away: the value the item loop runs over comes from
    # `X.edits()` under a conditional expression, from a method of the edit that chooses between `self.edits()` and matches, or
    # after a helper has decided which edit "applies" - wherever it sits, a cost test on the way is the same defect
    COST_ = ("has_non_zero_cost", "bounds", "is_complete", "cost")
    SEQ_EDIT = m.need_class("SequenceEdit")

    def helper_of(c):
        """the project function a call refers to: a module-level function of this module, or a method of the sequence-edit family"""
        if isinstance(c.func, ast.Name):
            return m.functions.get(f"{f.module}.{c.func.id}")
        if isinstance(c.func, ast.Attribute) and c.func.attr not in ("edits", "print", "append", "write", "newline"):
            for k_ in m.subclasses(SEQ_EDIT):
                h_ = m.method(k_, c.func.attr)
                if h_ is not None and h_.cls and m.is_subclass(h_.cls, SEQ_EDIT):
                    return h_
        return None

    def cost_calls(node_):
        return [c for c in ast.walk(node_) if isinstance(c, ast.Call) and isinstance(c.func, ast.Attribute) and c.func.attr in COST_]

    def provides_edits(h_):
        return any(isinstance(c, ast.Call) and isinstance(c.func, ast.Attribute) and c.func.attr == "edits" for c in ast.walk(h_.node))
    for st in walk_no_nested(f.node):
        if not (isinstance(st, (ast.Assign, ast.AnnAssign)) and st.value is not None):
            continue
        direct = [c for c in ast.walk(st.value) if isinstance(c, ast.Call) and isinstance(c.func, ast.Attribute) and c.func.attr == "edits"]
        via = [(c, helper_of(c)) for c in ast.walk(st.value) if isinstance(c, ast.Call) and not (isinstance(c.func, ast.Attribute) and c.func.attr == "edits")]
        via = [(c, h_) for c, h_ in via if h_ is not None and provides_edits(h_)]
        if not direct and not via:
            continue
        if not (isinstance(parent(st), ast.If) and direct and not isinstance(st.value, ast.IfExp)):
            n += 1          # (the plain if/else form was counted above)
        bad = []
        tests = [t for t, _ in flatten_conditions(dominating_conditions(st))] + [x.test for x in ast.walk(st.value) if isinstance(x, ast.IfExp)]
        for t in tests:
            bad += cost_calls(t)
            # a name in the test that a helper decided (`applied = _applied_sequence_edit(node)`)
            for nm in [x.id for x in ast.walk(t) if isinstance(x, ast.Name)]:
                for a_ in walk_no_nested(f.node):
                    if isinstance(a_, ast.Assign) and len(a_.targets) == 1 and isinstance(a_.targets[0], ast.Name) and a_.targets[0].id == nm \
                            and isinstance(a_.value, ast.Call) and helper_of(a_.value) is not None:
                        bad += cost_calls(helper_of(a_.value).node)
        for c, h_ in via:
            bad += cost_calls(h_.node)
        if bad:
            ctx.violation("E10b", f.file, "SequenceFormatter.print_SequenceNode", st, "sub-edits chosen by structure",
                          f"what `{norm(st, 60)}` renders is decided by `{norm(bad[0], 40)}`: an edit of cost 0 is not 'no change' ([1, 2, null] vs "
                          f"[1, 2] costs 0), so such a list is printed as unchanged and the second document cannot be read back")
        elif not isinstance(parent(st), ast.If):
            ctx.proved("E10b", f.file, "SequenceFormatter.print_SequenceNode", st, "sub-edits chosen by structure", f"`{norm(st, 80)}`: no cost test on the way")
    ctx.floor("E10b", n, 1, "sub-edit branches in print_SequenceNode")
    # the same for an edit handed to GraphtageFormatter.print explicitly (the items of a sequence arrive that way): it is printed
    # as an edit whenever edits are wanted - a zero-cost Insert or Remove is still an insertion or a removal
    gq = m.need_class("GraphtageFormatter")
    g = m.method(gq, "print")
    from ..astx import class_helpers
    k = 0
    COST = ("has_non_zero_cost", "bounds", "is_complete")

    def cost_test(t, depth=0):
        """does the test ask what the edit costs - directly, or through a method of the formatter that does?"""
        for c in ast.walk(t):
            if isinstance(c, ast.Call) and isinstance(c.func, ast.Attribute) and c.func.attr in COST:
                return True
            if isinstance(c, ast.Call) and self_attr(c.func) and depth < 2:
                h_ = m.method(gq, self_attr(c.func))
                if h_ is not None and h_.node.name not in ("print", "get_formatter") and any(cost_test(s_, depth + 1) for s_ in h_.node.body):
                    return True
        return False
    # ... and where the edit is finally handed to its formatter, nothing but its presence is tested
    ps0 = [p_ for p_ in func_params(g.node) if p_ not in ("self", "cls", "printer")]
    if ps0:
        aliases = set()
        for a_ in walk_no_nested(g.node):
            if isinstance(a_, (ast.Assign, ast.AnnAssign)) and a_.value is not None:
                t_ = a_.targets[0] if isinstance(a_, ast.Assign) else a_.target
                if isinstance(t_, ast.Name) and any(isinstance(x, ast.Name) and x.id == ps0[0] for x in
                                                    ([a_.value] if isinstance(a_.value, ast.Name) else
                                                     ([a_.value.body, a_.value.orelse] if isinstance(a_.value, ast.IfExp) else []))):
                    aliases.add(t_.id)
        for x in walk_no_nested(g.node):
            if isinstance(x, ast.Name) and x.id in aliases and isinstance(x.ctx, ast.Load):
                par = parent(x)
                used = (isinstance(par, ast.Call) and x in par.args) or (isinstance(par, ast.Attribute) and par.attr == "print")
                if not used:
                    continue
                bad_ = [t for t, pol in flatten_conditions(dominating_conditions(x)) if cost_test(t)
                        and any(isinstance(y, ast.Name) and y.id == x.id for y in ast.walk(t))]
                if bad_:
                    ctx.violation("E10b", g.file, g.short, bad_[0], "explicit edit chosen by structure",
                                  f"the edit reaches its formatter only if `{norm(bad_[0], 50)}`: an Insert or Remove of a null or an empty string "
                                  f"costs 0, falls through to the plain node formatter, and `[1, 2] -> [1, null, 2]` is rendered without any mark")
                    break
    for fn_ in class_helpers(m, gq, g, depth=1):
        ps_ = [p_ for p_ in func_params(fn_.node) if p_ not in ("self", "cls", "printer")]
        if not ps_:
            continue
        other = ps_[0]
        for x in walk_no_nested(fn_.node):
            # a bare flow of the parameter (assigned, returned, chosen by a conditional expression) - not a test or a member access
            if not (isinstance(x, ast.Name) and x.id == other and isinstance(x.ctx, ast.Load)):
                continue
            par = parent(x)
            if isinstance(par, (ast.Attribute, ast.Call, ast.Compare)) and not (isinstance(par, ast.Call) and False):
                continue
            facts = flatten_conditions(dominating_conditions(x))
            if not any(pol and isinstance(t, ast.Call) and call_name(t) == "isinstance" and "Edit" == (dotted(t.args[1]) or "") for t, pol in facts):
                continue
            k += 1
            cost = [t for t, pol in facts if cost_test(t)]
            if cost:
                ctx.violation("E10b", fn_.file, fn_.short, cost[0], "explicit edit chosen by structure",
                              f"an edit handed to print() is dropped unless `{norm(cost[0], 50)}`: the Insert of a null or of an empty string "
                              f"into a list of scalars costs 0, so `[1, 2] -> [1, null, 2]` is rendered as `[1, null, 2]` without any mark "
                              f"and the first document cannot be read back")
            else:
                ctx.proved("E10b", fn_.file, fn_.short, x, "explicit edit chosen by structure",
                           "an explicitly passed edit is used whenever edits are wanted, whatever it costs")
    ctx.floor("E10b-explicit", k, 1, "assignments of the explicitly passed edit in GraphtageFormatter.print")


def e10d(ctx):
    m = ctx.model
    ctx.rule("E10d", "items of a printed collection stay whole: EditCollection explodes compound sub-edits into their parts by default; "
                     "a collection whose items a sequence formatter prints one by one (the entries of a fixed-key mapping, the root of a "
                     "plist) must be built with explode_edits=False - exploded, a changed entry `\"k\": 1 -> 2` becomes the two items "
                     "`\"k\"` and `1 -> 2`, the `: ` is gone and neither document can be read back")
    ecq = m.need_class("EditCollection")
    init = m.method(ecq, "__init__")
    ps = func_params(init.node)
    if "explode_edits" not in ps:
        ctx.proved("E10d", init.file, "EditCollection.__init__", init.node, "no exploding", "EditCollection no longer explodes sub-edits", nontrivial=False)
        ctx.floor("E10d", 2, 2, "EditCollection constructions")
        return
    pos = ps.index("explode_edits") - 1
    default = None
    defs = init.node.args.defaults
    allp = [a.arg for a in init.node.args.args]
    if "explode_edits" in allp and len(allp) - allp.index("explode_edits") <= len(defs):
        default = defs[len(defs) - (len(allp) - allp.index("explode_edits"))]
    n = 0
    for fq, f in sorted(m.functions.items()):
        for c in walk_no_nested(f.node):
            if not isinstance(c, ast.Call):
                continue
            nm = call_name(c) or ""
            is_ctor = nm.split(".")[-1] == "EditCollection"
            is_super = (nm in ("EditCollection.__init__",) or (nm.endswith(".__init__") and "super" in nm and f.cls and m.is_subclass(f.cls, ecq)
                                                                and f.node.name == "__init__" and f.cls != ecq
                                                                and any(k.arg in ("collection", "add_to_collection", "edits") for k in c.keywords)))
            if isinstance(c.func, ast.Attribute) and c.func.attr == "__init__" and isinstance(c.func.value, ast.Call) \
                    and call_name(c.func.value) == "super" and f.cls and m.is_subclass(f.cls, ecq) and f.cls != ecq and f.node.name == "__init__" \
                    and any(k.arg in ("collection", "add_to_collection", "edits") for k in c.keywords):
                is_super = True
            if is_super and not (m.find_class("SequenceEdit") and m.is_subclass(f.cls, m.find_class("SequenceEdit"))):
                continue        # a generic wrapper (EditSequence) is not what a sequence formatter walks; its callers choose
            if not (is_ctor or is_super):
                continue
            n += 1
            v = kwarg(c, "explode_edits", pos if is_ctor else (pos if nm.startswith("super") or isinstance(c.func.value, ast.Call) else pos + 1))
            eff = v if v is not None else default
            # which __init__ does a super() call reach?  If a class between this one and EditCollection defines its own, the value
            # arrives only if that constructor hands it on (EditSequence accepts explode_edits and drops it)
            if is_super and isinstance(eff, ast.Constant) and eff.value is False:
                mro = m.c3(f.cls)
                for k_ in mro[1:]:
                    if k_ == ecq:
                        break
                    mid = m.attrs.get(k_, {}).get("__init__")
                    if mid and mid[0] == "def":
                        kwname = mid[1].node.args.kwarg.arg if mid[1].node.args.kwarg else None
                        named = "explode_edits" in func_params(mid[1].node)
                        fwd = any(isinstance(c2, ast.Call) and isinstance(c2.func, ast.Attribute) and c2.func.attr == "__init__"
                                  and (any(k2.arg == "explode_edits" and dotted(k2.value) == "explode_edits" for k2 in c2.keywords)
                                       or (not named and kwname and any(k2.arg is None and dotted(k2.value) == kwname for k2 in c2.keywords)))
                                  for c2 in walk_no_nested(mid[1].node))
                        if not fwd:
                            eff = ast.Name(id=f"<dropped by {k_.rsplit('.', 1)[-1]}.__init__>", ctx=ast.Load())
                            v = eff
                            break
            if isinstance(eff, ast.Constant) and eff.value is False:
                ctx.proved("E10d", f.file, f.short, c, f"{f.short}: explode_edits", "explode_edits=False")
            else:
                ctx.violation("E10d", f.file, f.short, c, f"{f.short}: explode_edits",
                              f"`{norm(c, 50)}` builds an EditCollection with explode_edits={'default True' if v is None else norm(v, 20)}: the "
                              f"compound sub-edits (KeyValuePairEdit of an entry whose value changed) are replaced by their parts, and the "
                              f"mapping is printed as `{{\"n\": 1, \"k\", \"foo\"->\"bar\"}}`")
    ctx.floor("E10d", n, 2, "EditCollection constructions")


def e10c(ctx):
    m = ctx.model
    ctx.rule("E10c", "plain-text marks are unambiguous: without colour, StringFormatter.write_char writes the change markers "
                     "(Remove.REMOVE_STRING `~~`, Insert.INSERT_STRING `++`) inline between the characters of a string, so the JSON "
                     "string formatter's escape() must rewrite a literal marker character in the content - otherwise the unchanged "
                     "string \"a~~b~~c\" and the edit \"abc\" -> \"ac\" render to the same bytes and neither document can be read back")
    sq = m.need_class("StringFormatter")
    wc = m.method(sq, "write_char")
    marks = []
    for c in walk_no_nested(wc.node):
        if isinstance(c, ast.Call) and isinstance(c.func, ast.Attribute) and c.func.attr == "write" and c.args \
                and isinstance(c.args[0], ast.Attribute) and c.args[0].attr in ("INSERT_STRING", "REMOVE_STRING"):
            facts = [ast.unparse(t).replace(" ", "") for t, pol in flatten_conditions(dominating_conditions(c))]
            if any("ansi_color" in x for x in facts):
                marks.append(c)
    ctx.floor("E10c", len(marks), 2, "inline markers written in the colourless branch of write_char")
    # the marker texts
    texts = {}
    for cname, attr in (("Remove", "REMOVE_STRING"), ("Insert", "INSERT_STRING")):
        q = m.find_class(cname)
        mod, cnode = m.classes[q]
        for st in cnode.body:
            t = st.target if isinstance(st, ast.AnnAssign) else (st.targets[0] if isinstance(st, ast.Assign) else None)
            if isinstance(t, ast.Name) and t.id == attr and isinstance(st.value, ast.Constant):
                texts[attr] = st.value.value
    jq = m.find_class("JSONStringFormatter")
    esc = m.method(jq, "escape") if jq else None
    if esc is None or len(texts) != 2:
        ctx.inconclusive("E10c", "graphtage/json.py", "JSONStringFormatter.escape", None, "escape", "escape() or the marker constants not found")
        return
    etxt = code(esc.node)
    for attr, mk in sorted(texts.items()):
        ch = mk[0]
        if repr(ch)[1:-1] in etxt.replace("\\", "\\"):
            ctx.proved("E10c", esc.file, "JSONStringFormatter.escape", esc.node, f"escape handles {ch!r}", f"literal {ch!r} in string content is rewritten")
        else:
            ctx.violation("E10c", esc.file, "JSONStringFormatter.escape", esc.node, f"escape handles {ch!r}",
                          f"without colour write_char writes `{mk}` between the characters of a string, and escape() (`json.dumps(c)[1:-1]`) "
                          f"leaves a literal {ch!r} as it is: an unchanged string containing `{mk}...{mk}` renders exactly like a change, "
                          f"so the plain rendering cannot be read back to either document")


def run(ctx):
    e10c(ctx)
    e10d(ctx)
    from . import c01
    c01.r01d(ctx)     # the script the marks are drawn from accounts for every pair of a keyed mapping
    c01.r01a(ctx)     # ... and for every element of a positional list edit
    c01.r01b(ctx)     # ... and an ordered-list edit trims, aligns and re-emits every element exactly once
    e10(ctx)
    e10b(ctx)
    from . import c02
    c02.r02c3(ctx)    # a scalar distance of 0 for different texts prints one value without marks
    c02.r02b(ctx)     # ... and so does a cost projection coarser than leaf equality (1 vs "1": unequal, cost 0, no marks)
    e9_json(ctx)
    e5d(ctx)
    ctx.assume("that the rendered text actually parses back to the two documents is a property of output values over all "
               "strings and is NOT decided; only the structural necessary conditions are")
