"""C08 witness: a mapping with a str key and a bytes key of the same text is order-dependent.

json.build_tree() turns the bytes key b'a' into StringNode('a'), which equals the node of the str key 'a'; the two
entries then collide in the intermediate ``dict_items`` and whichever comes LAST in the source mapping wins.  So a
document and its key-permuted copy do not compare as equal, and the cost against a third document depends on key order.
Checked (a) on Python objects through graphtage.json.build_tree and (b) end to end on two YAML files.
"""
import os
import sys
import tempfile

from graphtage import json as gjson
from graphtage import yaml as gyaml
from graphtage.graphtage import BuildOptions
from graphtage.printer import DEFAULT_PRINTER

DEFAULT_PRINTER.quiet = True

STRATEGIES = {
    "auto": dict(allow_key_edits=True, auto_match_keys=True),
    "match": dict(allow_key_edits=True, auto_match_keys=False),
    "none": dict(allow_key_edits=False, auto_match_keys=False),
}


def cost(t1, t2) -> int:
    edit = t1.edits(t2)
    while edit.tighten_bounds():
        pass
    b = edit.bounds()
    assert b.definitive(), b
    return b.upper_bound


failures = []

# (a) Python objects
doc = {'a': 1, b'a': 2}
permuted = {b'a': 2, 'a': 1}
assert doc == permuted  # the same mapping as far as Python is concerned
third = {'a': 1, 'zzz': 2}
for name, strategy in STRATEGIES.items():
    t_doc = gjson.build_tree(doc, BuildOptions(**strategy))
    t_perm = gjson.build_tree(permuted, BuildOptions(**strategy))
    t_third = gjson.build_tree(third, BuildOptions(**strategy))
    c = cost(t_doc, t_perm)
    if c != 0 or t_doc != t_perm:
        failures.append(f"[objects/{name}] {doc!r} vs its key-permuted copy {permuted!r}: cost {c} (expected 0); "
                        f"trees {t_doc!r} / {t_perm!r}")
    c1, c2 = cost(t_doc, t_third), cost(t_perm, t_third)
    if c1 != c2:
        failures.append(f"[objects/{name}] cost against {third!r} is {c1} for {doc!r} but {c2} for the permuted copy")

# (b) YAML files
with tempfile.TemporaryDirectory() as d:
    p1 = os.path.join(d, "doc.yaml")
    p2 = os.path.join(d, "permuted.yaml")
    with open(p1, "w") as f:
        f.write('a: 1\n? !!binary "YQ=="\n: 2\n')
    with open(p2, "w") as f:
        f.write('? !!binary "YQ=="\n: 2\na: 1\n')
    for name, strategy in STRATEGIES.items():
        t1 = gyaml.build_tree(p1, BuildOptions(**strategy))
        t2 = gyaml.build_tree(p2, BuildOptions(**strategy))
        c = cost(t1, t2)
        if c != 0 or t1 != t2:
            failures.append(f"[yaml/{name}] two YAML mappings that differ only in key order: cost {c} (expected 0); "
                            f"trees {t1!r} / {t2!r}")

if failures:
    print("C08 VIOLATION: reordering the keys of a mapping changes the result")
    for f in failures:
        print("  " + f)
    sys.exit(1)
print("ok")
sys.exit(0)
