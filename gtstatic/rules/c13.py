"""C13 - any input type can be rendered in any output format and mode.

E5 static simulation of the formatting protocol (totality of the dispatch table) + hazards in print-phase code:
H1 re-parenting (E4), H2 unconditional raise in a handler, H3 missing attribute on a statically known receiver,
H4 self.parent deeper than the formatter's position, H5 sub_formatters index out of range, H6 copy() of a node
class whose copy_from cannot rebuild it, H7 default formatter instance exists.
"""
import ast
import importlib

from ..astx import code
from ..astx import dotted, call_name, walk_no_nested, parent, self_attr, func_params, terminates, resolve_local, ancestors, \
    flatten_conditions, dominating_conditions
from ..callgraph import CallGraph, diff_entries
from ..core import norm
from .. import nodeshape

TREE = "graphtage.tree.TreeNode"
CONTAINER = "graphtage.tree.ContainerNode"
EDITED = "graphtage.tree.EditedTreeNode"
FORMATTER = "graphtage.formatter.Formatter"
NON_NODE_ATTRS = {"object", "quoted", "allow_key_edits", "auto_match_keys", "allow_list_edits",
                  "allow_list_edits_when_same_length", "start_symbol", "end_symbol", "delimiter", "name"}
CONSTRUCTOR_LAYER = {"__init__", "__new__", "from_dict", "copy_from", "make_key_value_pair_node", "editable_dict",
                     "make_edited"}


def print_phase_entries(m):
    ent = []
    for q in m.subclasses(FORMATTER):
        for name, (kind, v) in m.attrs[q].items():
            if kind == "def":
                ent.append(v)
    for q in m.classes:
        if m.is_subclass(q, FORMATTER):
            continue
        is_edit = m.method(q, "tighten_bounds") is not None or q.endswith(".Edit")
        for name in ("print", "print_parent_context"):
            if name in m.attrs[q] and m.attrs[q][name][0] == "def":
                # edit.print is called by the protocol; print_parent_context by main (-d); node.print only as the
                # protocol's last-resort fallback (added by the caller for classes without a handler)
                if is_edit or (name == "print_parent_context" and m.is_subclass(q, TREE)):
                    ent.append(m.attrs[q][name][1])
    main = m.functions.get("graphtage.__main__.main")
    if main is not None:
        ent.append(main)
    return ent


def dead_fallback_calls(m):
    """`node.print(printer)` in the else-arm of `if formatter is not None` after `formatter = self.get_formatter(node)`:
    dead when the dispatch table is total by handlers."""
    out = []
    gf = m.find_class("GraphtageFormatter")
    f = m.method(gf, "print") if gf else None
    if f is None:
        return out
    for n in walk_no_nested(f.node):
        if isinstance(n, ast.If) and isinstance(n.test, ast.Compare) and isinstance(n.test.ops[0], ast.IsNot) \
                and isinstance(n.test.left, ast.Name) and isinstance(n.test.comparators[0], ast.Constant) \
                and n.test.comparators[0].value is None:
            var = n.test.left.id
            src = [a for a in walk_no_nested(f.node) if isinstance(a, ast.Assign) and isinstance(a.targets[0], ast.Name)
                   and a.targets[0].id == var and isinstance(a.value, ast.Call) and (call_name(a.value) or "").endswith("get_formatter")]
            if src:
                for s in n.orelse:
                    for c in ast.walk(s):
                        if isinstance(c, ast.Call) and isinstance(c.func, ast.Attribute) and c.func.attr == "print":
                            out.append(c)
    return out


# ------------------------------------------------------------------------------------------------ E5 totality
def e5_totality(ctx, inst):
    m = ctx.model
    ctx.rule("E5", "dispatch totality: for every file type's default formatter and every concrete node class (plain "
                   "and Edited...) and edit class, the statically simulated formatting protocol resolves a handler, "
                   "or a concrete node.print / edit.print fallback exists")
    fmts, default = m.formatter_registry()
    fts = m.filetypes()
    roots = {}
    for q, info in fts.items():
        d = info["default_formatter"]
        short = q.rsplit(".", 1)[-1]
        if d is None:
            ctx.violation("H7", m.files[m.classes[q][0]], f"{short}.get_default_formatter", None, "default formatter",
                          f"{short}.get_default_formatter does not return <Formatter>.DEFAULT_INSTANCE of a known class")
            continue
        if d not in default:
            gdf = m.method(q, "get_default_formatter")
            ctx.violation("H7", gdf.file, gdf.short, gdf.node, f"{d.rsplit('.', 1)[-1]}.DEFAULT_INSTANCE",
                          f"{d.rsplit('.', 1)[-1]} has no DEFAULT_INSTANCE (abstract or its constructor needs arguments): "
                          f"get_default_formatter returns None and every print through it fails")
            continue
        roots[d] = default[d]
        ctx.proved("H7", m.files[m.classes[q][0]], f"{short}.get_default_formatter", None, f"{short} default formatter",
                   f"{d.rsplit('.', 1)[-1]}.DEFAULT_INSTANCE exists (nullary-constructible, not abstract)", nontrivial=False)
    node_classes = [q for q in sorted(m.subclasses(TREE)) if not m.is_abstract(q) and q != TREE
                    and not m.is_subclass(q, EDITED)]
    edit_classes = [q for q in sorted(m.classes) if m.method(q, "tighten_bounds") is not None
                    and m.method(q, "on_diff") is not None and not m.is_abstract(q)]
    cells = resolved = 0
    table = {}
    for rq, root in sorted(roots.items()):
        for nq in node_classes:
            for edited in (False, True):
                cells += 1
                names = m.node_mro_names(nq, edited)
                r = m.get_formatter(names, root)
                if r is not None:
                    resolved += 1
                    table[(rq, nq, edited)] = f"{r[0].name}.{r[1]}"
                    continue
                pr = m.method(nq, "print")
                if pr is None or any(dotted(d) and dotted(d).endswith("abstractmethod") for d in pr.node.decorator_list):
                    ctx.violation("E5", m.files[m.classes[nq][0]], nq.rsplit(".", 1)[-1], None,
                                  f"{rq.rsplit('.', 1)[-1]} x {nq.rsplit('.', 1)[-1]}",
                                  f"no formatter in the protocol handles {nq.rsplit('.', 1)[-1]} under "
                                  f"{rq.rsplit('.', 1)[-1]} and the class has no concrete print(): rendering raises")
                else:
                    table[(rq, nq, edited)] = f"{nq.rsplit('.', 1)[-1]}.print (fallback)"
        for eq in edit_classes:
            cells += 1
            names = m.node_mro_names(eq)
            r = m.get_formatter(names, root)
            if r is not None:
                resolved += 1
    ctx.floor("E5", cells, 200, "dispatch cells (default formatter x node/edited/edit class)")
    ctx.proved("E5", "graphtage/formatter.py", "_get_formatter", None, "dispatch table",
               f"{cells} cells simulated; {resolved} resolve to a print_<Class> handler, the rest to a concrete "
               f"node.print / edit.print fallback")
    ctx.extra["dispatch"] = {"cells": cells, "resolved_by_handler": resolved, "roots": sorted(roots),
                             "node_classes": len(node_classes), "edit_classes": len(edit_classes)}
    ctx.extra["fallback_print_classes"] = sorted({k[1] for k, v in table.items() if v.endswith("(fallback)")})
    # structural conformance of _get_formatter with the port
    gf = m.functions.get("graphtage.formatter._get_formatter")
    if gf is None:
        ctx.inconclusive("E5", "graphtage/formatter.py", "_get_formatter", None, "conformance", "_get_formatter not found")
    else:
        src = code(gf.node)
        need = [".mro()", ".__name__}", "print_{", "sub_formatters", ".parent"]
        missing = [x for x in need if x not in src]
        if missing:
            ctx.inconclusive("E5", gf.file, "_get_formatter", gf.node, "conformance",
                             f"_get_formatter no longer has the shape the static port assumes (missing {missing})")
    return roots, node_classes, edit_classes, sorted({k[1] for k, v in table.items() if v.endswith("(fallback)")})


# ------------------------------------------------------------------------------------------------ H1 / E4
def is_node_class(m, q):
    return q in m.classes and m.is_subclass(q, TREE)


def classify_arg(m, f, e, fresh_names, alias_names, params):
    """'fresh' | 'alias' | 'other' for a constructor argument expression."""
    if isinstance(e, ast.Starred):
        return classify_arg(m, f, e.value, fresh_names, alias_names, params)
    if isinstance(e, ast.Constant):
        return "other"
    if isinstance(e, ast.Call):
        fn = e.func
        if isinstance(fn, ast.Attribute) and fn.attr in ("copy", "make_edited", "copy_from"):
            return "fresh"
        r = m.resolve_expr(f.module, fn)
        if r and r[0] and r[0][0] == "class" and is_node_class(m, r[0][1]):
            return "fresh"
        if isinstance(fn, ast.Attribute) and fn.attr in ("from_dict", "make_key_value_pair_node"):
            return "fresh"
        if isinstance(fn, ast.Attribute) and fn.attr in ("children", "values", "items", "keys", "elements"):
            return classify_arg(m, f, fn.value, fresh_names, alias_names, params) if fn.attr != "children" else \
                ("alias" if classify_arg(m, f, fn.value, fresh_names, alias_names, params) in ("alias",) or
                 root_name(fn.value) in params else "other")
        if call_name(e) in ("list", "tuple", "reversed", "sorted", "iter") and e.args:
            return classify_arg(m, f, e.args[0], fresh_names, alias_names, params)
        return "other"
    if isinstance(e, (ast.List, ast.Tuple, ast.Set)):
        kinds = [classify_arg(m, f, x, fresh_names, alias_names, params) for x in e.elts]
        if "alias" in kinds:
            return "alias"
        return "fresh" if kinds and all(k == "fresh" for k in kinds) else "other"
    if isinstance(e, (ast.ListComp, ast.GeneratorExp, ast.SetComp)):
        loopvars = {x.id for g in e.generators for x in ast.walk(g.target) if isinstance(x, ast.Name)}
        itk = [classify_arg(m, f, g.iter, fresh_names, alias_names, params) for g in e.generators]
        inner_alias = set(alias_names)
        if "alias" in itk:
            inner_alias |= loopvars
        return classify_arg(m, f, e.elt, fresh_names, inner_alias, params | (loopvars if "alias" in itk else set()))
    if isinstance(e, ast.DictComp):
        return "other"
    if isinstance(e, ast.Name):
        if e.id in fresh_names:
            return "fresh"
        if e.id in alias_names or e.id in params:
            return "alias"
        return "other"
    if isinstance(e, (ast.Attribute, ast.Subscript)):
        if isinstance(e, ast.Attribute) and e.attr in NON_NODE_ATTRS:
            return "other"
        r = root_name(e)
        if r in alias_names or r in params:
            return "alias"
        if r in fresh_names:
            return "fresh"
        return "other"
    if isinstance(e, ast.IfExp):
        ks = {classify_arg(m, f, e.body, fresh_names, alias_names, params),
              classify_arg(m, f, e.orelse, fresh_names, alias_names, params)}
        return "alias" if "alias" in ks else ("fresh" if ks == {"fresh"} else "other")
    return "other"


def root_name(e):
    while isinstance(e, (ast.Attribute, ast.Subscript, ast.Call)):
        e = e.func if isinstance(e, ast.Call) else e.value
    return e.id if isinstance(e, ast.Name) else None


def h1_reparenting(ctx, reach):
    m = ctx.model
    ctx.rule("H1", "ownership (E4): in print-phase code every node handed to a ContainerNode constructor (which sets "
                   "child.parent) is fresh - constructed here or a .copy()/.make_edited() - never an existing node "
                   "reached through a parameter (TreeNode.parent's setter raises ValueError on re-parenting)")
    n = 0
    for f in sorted(reach.values(), key=lambda f: f.qual):
        if isinstance(f.node, ast.Module) or ".<locals>." in f.qual:
            continue
        if f.node.name in CONSTRUCTOR_LAYER:
            continue
        if any((dotted(d.func if isinstance(d, ast.Call) else d) or "").endswith(("Builder.builder", "Builder.expander"))
               for d in f.node.decorator_list):
            continue   # children handed to registered builders are freshly built by Builder.build_tree
        if f.qual.endswith(".build_tree") or f.node.name in ("default_builder", "build_tree"):
            continue
        params = {p for p in func_params(f.node)}
        # names bound to node-valued aliases of parameters / to fresh nodes
        fresh, alias = set(), set()
        for _ in range(3):
            for s in walk_no_nested(f.node):
                if isinstance(s, (ast.Assign, ast.AnnAssign)) and s.value is not None:
                    tg = s.targets[0] if isinstance(s, ast.Assign) else s.target
                    if isinstance(tg, ast.Name):
                        k = classify_arg(m, f, s.value, fresh, alias, params)
                        if k == "fresh":
                            fresh.add(tg.id)
                        elif k == "alias":
                            alias.add(tg.id)
                elif isinstance(s, ast.For):
                    k = classify_arg(m, f, s.iter, fresh, alias, params)
                    for x in ast.walk(s.target):
                        if isinstance(x, ast.Name) and k == "alias":
                            alias.add(x.id)
        # lists that only ever receive fresh nodes via append
        appended = {}
        for s in walk_no_nested(f.node):
            if isinstance(s, ast.Call) and isinstance(s.func, ast.Attribute) and s.func.attr in ("append", "extend", "add") \
                    and isinstance(s.func.value, ast.Name) and s.args:
                appended.setdefault(s.func.value.id, []).append(classify_arg(m, f, s.args[0], fresh, alias, params))
        for name, kinds in appended.items():
            if "alias" in kinds:
                alias.add(name)
                fresh.discard(name)
        for c in walk_no_nested(f.node):
            if not isinstance(c, ast.Call):
                continue
            r = m.resolve_expr(f.module, c.func)
            target = None
            if r and r[0] and r[0][0] == "class" and r[0][1] in m.classes and m.is_subclass(r[0][1], CONTAINER):
                target = r[0][1].rsplit(".", 1)[-1]
            elif isinstance(c.func, ast.Attribute) and c.func.attr in ("from_dict", "make_key_value_pair_node"):
                target = f"{norm(c.func.value, 30)}.{c.func.attr}"
            if target is None:
                continue
            n += 1
            bad = []
            for a in list(c.args) + [k.value for k in c.keywords]:
                if classify_arg(m, f, a, fresh, alias, params) == "alias":
                    bad.append(a)
            if bad:
                ctx.violation("H1", f.file, f.short, c, f"{target}({norm(bad[0], 40)})",
                              f"{target}(...) is constructed while printing with `{norm(bad[0], 50)}`, a node that "
                              f"already belongs to the tree being printed: the container sets child.parent and "
                              f"TreeNode.parent's setter raises ValueError (parent already assigned)",
                              path=[f"also aliased: {norm(b, 50)}" for b in bad[1:]] or None)
            else:
                ctx.proved("H1", f.file, f.short, c, f"{target}(...)",
                           "all node arguments are fresh (constructed here or copies)")
    ctx.floor("H1", n, 4, "ContainerNode constructions in print-phase code")


# ------------------------------------------------------------------------------------------------ H2..H6
def handler_hazards(ctx, reach, roots):
    m = ctx.model
    ctx.rule("H2", "no print_<Class> handler raises unconditionally; NotImplementedError is raised only by Edit.print "
                   "(the one place the protocol catches it)")
    ctx.rule("H3", "attributes read from statically known receivers exist: colorama Fore/Back/Style constants, "
                   "self.<method>() in formatter classes, self.parent.<method>() on the parent's class")
    ctx.rule("H4", "self.parent chains are no deeper than the formatter's position in every sub-formatter tree, and "
                   "self.sub_formatters[i] is within sub_format_types")
    fmts, default = m.formatter_registry()
    # positions of every formatter class in the trees (depth, parent class chain)
    positions = {}
    used = set(roots) | {f.q for f in fmts}
    for fn_ in m.functions.values():
        for nn in ast.walk(fn_.node):
            if isinstance(nn, ast.Attribute) and nn.attr == "DEFAULT_INSTANCE":
                k = m.resolve_class(fn_.module, nn.value)
                if k:
                    used.add(k)
    for rq, root in default.items():
        if rq not in used:
            continue   # DEFAULT_INSTANCE of a partial formatter that nothing references is never printed through
        for fi in root.walk():
            chain, p = [], fi.parent
            while p is not None:
                chain.append(p.q)
                p = p.parent
            positions.setdefault(fi.q, []).append(chain)
    try:
        ansi = importlib.import_module("colorama.ansi")
        col = {"Fore": ansi.Fore, "Back": ansi.Back, "Style": ansi.Style}
    except Exception:
        col = {}
    n_h2 = n_h3 = n_h4 = 0
    print_phase = [f for f in reach.values() if not isinstance(f.node, ast.Module)]
    for f in sorted(print_phase, key=lambda f: f.qual):
        is_fmt = bool(f.cls and m.is_subclass(f.cls, FORMATTER))
        name = f.node.name
        # H2
        if is_fmt and name.startswith("print_"):
            n_h2 += 1
            first_raise = next((s for s in f.node.body if isinstance(s, ast.Raise)), None)
            # unconditional: a top-level raise that every call reaches - only straight-line statements come before it (what
            # follows it is dead code)
            if first_raise is not None and all(isinstance(s, (ast.Expr, ast.Assign, ast.AnnAssign, ast.AugAssign, ast.Pass))
                                               for s in f.node.body[:f.node.body.index(first_raise)]):
                ctx.violation("H2", f.file, f.short, first_raise, "unconditional raise",
                              f"handler {f.short} raises unconditionally; the protocol selects it and rendering fails")
            else:
                ctx.proved("H2", f.file, f.short, f.node, "handler body", "handler does not raise unconditionally",
                           nontrivial=False)
        # H3
        for nnode in walk_no_nested(f.node):
            if isinstance(nnode, ast.Attribute) and isinstance(nnode.value, ast.Name) and nnode.value.id in col \
                    and isinstance(nnode.ctx, ast.Load):
                r = m.lookup(f.module, nnode.value.id)
                if r and r[0] in ("ext",) and ("colorama" in r[1]) or (r and r[0] == "import" and False):
                    pass
                # the name must come from colorama / printer re-export
                n_h3 += 1
                if not hasattr(col[nnode.value.id], nnode.attr):
                    ctx.violation("H3", f.file, f.short, nnode, f"{nnode.value.id}.{nnode.attr}",
                                  f"colorama.{nnode.value.id} has no attribute {nnode.attr!r}: AttributeError when this "
                                  f"code is reached while rendering")
                else:
                    ctx.proved("H3", f.file, f.short, nnode, f"{nnode.value.id}.{nnode.attr}", "constant exists",
                               nontrivial=False)
            if is_fmt and isinstance(nnode, ast.Call) and isinstance(nnode.func, ast.Attribute):
                fn = nnode.func
                if isinstance(fn.value, ast.Name) and fn.value.id == "self":
                    n_h3 += 1
                    if m.cls_attr(f.cls, fn.attr) is None and not _instance_attr(m, f.cls, fn.attr):
                        ctx.violation("H3", f.file, f.short, nnode, f"self.{fn.attr}()",
                                      f"{f.cls.rsplit('.', 1)[-1]} has no method or attribute {fn.attr!r}")
                # self.parent[.parent].X(...)
                chain = []
                v = fn.value
                while isinstance(v, ast.Attribute) and v.attr == "parent":
                    chain.append(v)
                    v = v.value
                if chain and isinstance(v, ast.Name) and v.id == "self":
                    depth = len(chain)
                    n_h4 += 1
                    poss = []
                    for k in m.subclasses(f.cls):
                        poss += [(k, c) for c in positions.get(k, [])]
                    if not poss:
                        ctx.proved("H4", f.file, f.short, nnode, norm(fn, 50),
                                   "class is never instantiated in a formatter tree", nontrivial=False)
                        continue
                    bad = [(k, c) for k, c in poss if len(c) < depth]
                    # standalone DEFAULT_INSTANCE of a partial formatter has no parent, but is only used if referenced
                    bad_tree = [(k, c) for k, c in bad if len(c) > 0 or not m.const(k, "is_partial", False)]
                    if bad_tree:
                        k, c = bad_tree[0]
                        ctx.violation("H4", f.file, f.short, nnode, norm(fn, 50),
                                      f"`{norm(fn.value, 40)}` climbs {depth} level(s) but {k.rsplit('.', 1)[-1]} sits at "
                                      f"depth {len(c)} under {[x.rsplit('.', 1)[-1] for x in c]}: parent is None there")
                    else:
                        missing = []
                        for k, c in poss:
                            if len(c) >= depth:
                                target = c[depth - 1]
                                if m.cls_attr(target, fn.attr) is None:
                                    missing.append((k, target))
                        if missing:
                            k, target = missing[0]
                            ctx.violation("H3", f.file, f.short, nnode, norm(fn, 50),
                                          f"{target.rsplit('.', 1)[-1]} (the parent reached from {k.rsplit('.', 1)[-1]}) "
                                          f"has no method {fn.attr!r}")
                        else:
                            ctx.proved("H4", f.file, f.short, nnode, norm(fn, 50),
                                       f"parent chain of depth {depth} exists at all {len(poss)} tree position(s) and "
                                       f"defines {fn.attr}()")
            if is_fmt and isinstance(nnode, ast.Subscript) and isinstance(nnode.value, ast.Attribute) \
                    and nnode.value.attr == "sub_formatters" and self_attr(nnode.value) == "sub_formatters":
                n_h4 += 1
                idx = nnode.slice
                sft = m.cls_attr(f.cls, "sub_format_types")
                size = len(sft[1][1].elts) if sft and sft[1][0] == "assign" and isinstance(sft[1][1], (ast.List, ast.Tuple)) else 0
                if isinstance(idx, ast.Constant) and isinstance(idx.value, int):
                    if -size <= idx.value < size:
                        ctx.proved("H4", f.file, f.short, nnode, norm(nnode), f"index {idx.value} < {size} sub-formatters")
                    else:
                        ctx.violation("H4", f.file, f.short, nnode, norm(nnode),
                                      f"self.sub_formatters[{idx.value}] but the class declares {size} sub_format_types: IndexError")
    ctx.floor("H2", n_h2, 40, "print_<Class> handlers examined")
    ctx.floor("H3", n_h3, 30, "statically known receivers examined")
    ctx.floor("H4", n_h4, 5, "self.parent / sub_formatters uses examined")


def _instance_attr(m, q, name):
    for k in m.c3(q):
        mod, c = m.classes[k]
        for n in ast.walk(c):
            if isinstance(n, ast.Attribute) and isinstance(n.ctx, ast.Store) and self_attr(n) == name:
                return True
    return False


ROOT = 99        # redispatch depth: "the root formatter", however far up


def _decos(fn):
    return {(dotted(d.func) if isinstance(d, ast.Call) else dotted(d)) or "" for d in fn.decorator_list}


def redispatch_targets(handler, model=None, names=None, _depth=0):
    """If a handler forwards the *same* node to another formatter's print (`self.parent.print(*args, **kwargs)`,
    `self.parent.print(printer, node)`), return the list of parent-chain depths it forwards to.  With a model and the class
    names of the node being printed, a hand-over to another handler of the same formatter (`self.print_SequenceNode(printer,
    node)`, not super()) is followed into that handler when the isinstance tests on the way allow it for this class."""
    out = []
    params = func_params(handler.node)
    passthrough = set(params[1:])
    if handler.node.args.vararg:
        passthrough.add("*" + handler.node.args.vararg.arg)
    if model is not None and names is not None and handler.cls and _depth < 2:
        for c in walk_no_nested(handler.node):
            if isinstance(c, ast.Call) and self_attr(c.func) and self_attr(c.func).startswith("print_") and self_attr(c.func) != handler.node.name:
                argn = [("*" + a.value.id if isinstance(a, ast.Starred) and isinstance(a.value, ast.Name) else (a.id if isinstance(a, ast.Name) else None))
                        for a in c.args]
                if not argn or not all(a is not None and a in passthrough for a in argn):
                    continue
                feasible = True
                for t, pol in flatten_conditions(dominating_conditions(c)):
                    if isinstance(t, ast.Call) and call_name(t) == "isinstance" and len(t.args) == 2 and isinstance(t.args[0], ast.Name) \
                            and t.args[0].id in passthrough:
                        ts = t.args[1].elts if isinstance(t.args[1], ast.Tuple) else [t.args[1]]
                        holds = any((dotted(x) or "").rsplit(".", 1)[-1] in names for x in ts)
                        if holds != pol:
                            feasible = False
                if not feasible:
                    continue
                h2 = model.method(handler.cls, self_attr(c.func))
                if h2 is not None:
                    out += redispatch_targets(h2, model, names, _depth + 1)
    # locals that hold the edit of the node being handled (`edit = node.edit if node.edited else None`)
    def _is_node_edit(a):
        return isinstance(a, ast.Attribute) and a.attr == "edit" and isinstance(a.value, ast.Name) and a.value.id in passthrough
    edit_locals = set()
    for a_ in walk_no_nested(handler.node):
        if isinstance(a_, ast.Assign) and len(a_.targets) == 1 and isinstance(a_.targets[0], ast.Name):
            vals_ = [a_.value.body, a_.value.orelse] if isinstance(a_.value, ast.IfExp) else [a_.value]
            if any(_is_node_edit(v_) for v_ in vals_):
                edit_locals.add(a_.targets[0].id)

    def is_edit(a):
        return _is_node_edit(a) or (isinstance(a, ast.Name) and a.id in edit_locals)

    def receiver_depth(v, hops=0):
        """number of parent steps from this formatter to the formatter `v` denotes; ROOT for `<anything of self>.root`; None if
        it is not this formatter or one of its ancestors.  A property of the formatter class is read through its return."""
        depth = 0
        while isinstance(v, ast.Attribute) and v.attr == "parent":
            depth += 1
            v = v.value
        if isinstance(v, ast.Name) and v.id == "self":
            return depth
        if isinstance(v, ast.Attribute) and v.attr == "root":
            b = v.value
            while isinstance(b, (ast.Attribute, ast.Subscript)):
                b = b.value
            return ROOT if isinstance(b, ast.Name) and b.id == "self" else None
        if isinstance(v, ast.Attribute) and isinstance(v.value, ast.Name) and v.value.id == "self" and model is not None and handler.cls and hops < 2:
            pr = model.method(handler.cls, v.attr)
            if pr is not None and "property" in _decos(pr.node):
                rets = [r.value for r in walk_no_nested(pr.node) if isinstance(r, ast.Return) and r.value is not None]
                if len(rets) == 1:
                    d = receiver_depth(rets[0], hops + 1)
                    return None if d is None else (ROOT if d == ROOT else d + depth)
        return None
    for c in walk_no_nested(handler.node):
        if not (isinstance(c, ast.Call) and isinstance(c.func, ast.Attribute) and c.func.attr == "print"):
            continue
        # `edit.print(self, printer)`: the edit renders itself with this formatter - what `self.print(printer, edit)` falls back to
        if is_edit(c.func.value) and c.args and isinstance(c.args[0], ast.Name) and c.args[0].id == "self":
            out.append(0)
            continue
        depth = receiver_depth(c.func.value)
        if depth is None:
            continue
        if depth == 0 or depth == ROOT:
            # `self.print(printer, node.edit)`: the edit of the very node being handled goes back into this formatter's own
            # protocol (or into the root's, which looks the handler up from the top again), whose Match/compound printing hands the
            # node (still carrying that edit) to the same lookup again
            if any(is_edit(a) for a in c.args) and not any(k.arg == "with_edits" for k in c.keywords):
                out.append(depth)
            if depth == 0:
                continue
        args = []
        for a in c.args:
            args.append("*" + a.value.id if isinstance(a, ast.Starred) and isinstance(a.value, ast.Name) else
                        (a.id if isinstance(a, ast.Name) else None))
        # the node is forwarded unchanged if every argument is a parameter of the handler (or *args)
        if args and all(a is not None and a in passthrough for a in args):
            # must be unconditional-ish: not under an isinstance narrowing of the node
            out.append(depth)
    return out


ACCEPTED_FORMATTER_RAISES = {
    ("Formatter.print", "NotImplementedError"): "abstract method of the base class; every concrete formatter overrides it",
    ("PyObjFormatter.print_Call", "NotImplementedError"): "keyword arguments of a call: ASTBuilder builds an empty CallKeywords for every call "
                                                         "(fickling's reconstruction of pickles never emits keywords), so the branch is not reached from files",
}


def h2b(ctx):
    m = ctx.model
    ctx.rule("H2b", "formatters do not refuse values: a method of a formatter class raises only where this table accepts it (two entries, "
                    "each with its reason) - a handler or helper that raises when the value it is printing has some property (a "
                    "non-finite float, an odd character) ends the rendering of every document that contains such a value")
    F = m.need_class("Formatter")
    n = 0
    for fq, f in sorted(m.functions.items()):
        if not (f.cls and m.is_subclass(f.cls, F)):
            continue
        for r in walk_no_nested(f.node):
            if not isinstance(r, ast.Raise):
                continue
            n += 1
            exc = call_name(r.exc) if isinstance(r.exc, ast.Call) else (dotted(r.exc) if r.exc is not None else "re-raise")
            in_handler = any(isinstance(a_, ast.ExceptHandler) for a_ in ancestors(r))
            if (f.short, exc) in ACCEPTED_FORMATTER_RAISES or (r.exc is None and in_handler):
                ctx.proved("H2b", f.file, f.short, r, f"{f.short}: raise {exc}", ACCEPTED_FORMATTER_RAISES.get((f.short, exc), "re-raise inside a handler"),
                           nontrivial=False)
                continue
            conds = [norm(t, 50) for t, pol in flatten_conditions(dominating_conditions(r))]
            ctx.violation("H2b", f.file, f.short, r, f"{f.short}: raise {exc}",
                          f"`{norm(r, 60)}` in a formatter method" + (f" (when {' and '.join(conds)})" if conds else "") +
                          ": the loaders produce values of every kind the test can speak about (json and yaml read NaN and Infinity), so a "
                          "document containing one cannot be rendered in this format, in any mode, with or without differences")
    ctx.floor("H2b", n, 1, "raise statements in formatter classes")


def e5_cycles(ctx, roots, node_classes):
    m = ctx.model
    ctx.rule("E5c", "no dispatch cycle: when the handler the protocol selects for a class merely forwards the same node "
                    "to a parent formatter, the parent's lookup for that class must not select the same handler again "
                    "(otherwise rendering recurses until RecursionError)")
    n = 0
    reported = set()
    for rq, root in sorted(roots.items()):
        for inst in root.walk():
            for nq in node_classes:
                for edited in (False, True):
                    names = m.node_mro_names(nq, edited)
                    seen = []
                    cur = inst
                    while True:
                        r = m.get_formatter(names, cur)
                        if r is None:
                            break
                        owner, hname = r
                        h = m.method(owner.q, hname)
                        key = (owner.path(), hname)
                        if key in seen:
                            rk = (h.qual, nq.rsplit(".", 1)[-1])
                            if rk not in reported:
                                reported.add(rk)
                                ctx.violation("E5c", h.file, h.short, h.node, f"cycle {h.short} x {nq.rsplit('.', 1)[-1]}",
                                              f"under {rq.rsplit('.', 1)[-1]} the protocol selects {h.short} for "
                                              f"{'Edited' if edited else ''}{nq.rsplit('.', 1)[-1]}; that handler only forwards the node to "
                                              f"its parent formatter, whose lookup selects {h.short} again: infinite "
                                              f"recursion (RecursionError) whenever such a node is rendered",
                                              path=[f"{a} -> {b}" for a, b in seen + [key]])
                            break
                        seen.append(key)
                        if h is None:
                            break
                        depths = redispatch_targets(h, m, set(names))
                        if not depths:
                            break
                        nxt = owner
                        for _ in range(depths[0]):
                            if depths[0] == ROOT and nxt is not None and nxt.parent is None:
                                break
                            nxt = nxt.parent if nxt is not None else None
                        if nxt is None:
                            break
                        n += 1
                        cur = nxt
    ctx.floor("E5c", n, 10, "forwarding steps followed")
    if not reported:
        ctx.proved("E5c", "graphtage/formatter.py", "_get_formatter", None, "no dispatch cycles",
                   f"{n} forwarding steps followed over all (formatter position, class) cells; none returns to its origin")


def h8_overrides(ctx):
    m = ctx.model
    ctx.rule("H8", "an override of a formatter/printer protocol method accepts every call its base accepts: at least "
                   "the same positional parameters and every keyword name (or *args/**kwargs) - callers pass "
                   "with_edits=, is_first=, is_last=, removed=, inserted= by keyword")
    n = 0
    bases = [FORMATTER, "graphtage.printer.Printer", "graphtage.printer.ANSIContext"]
    for b in bases:
        if b not in m.classes:
            continue
        for q in sorted(m.subclasses(b, strict=True)):
            for name, (kind, v) in sorted(m.attrs[q].items()):
                if kind != "def" or name.startswith("__"):
                    continue
                base_def = None
                for k in m.c3(q)[1:]:
                    if name in m.attrs[k] and m.attrs[k][name][0] == "def":
                        base_def = m.attrs[k][name][1]
                        break
                if base_def is None or base_def is v:
                    continue
                if name.startswith("print_"):
                    continue    # handlers are selected per class, not substituted for one another
                n += 1
                a, ba = v.node.args, base_def.node.args
                if a.vararg and a.kwarg:
                    ctx.proved("H8", v.file, v.short, v.node, f"{v.short} signature", "accepts *args, **kwargs", nontrivial=False)
                    continue
                names = [x.arg for x in a.posonlyargs + a.args + a.kwonlyargs]
                bnames = [x.arg for x in ba.posonlyargs + ba.args + ba.kwonlyargs]
                missing = [x for x in bnames if x not in names] if not a.kwarg else []
                fewer_pos = (len(a.args) < len(ba.args)) and not a.vararg
                # renamed positional parameters are fine positionally; only keyword-called ones matter
                kw_called = {"with_edits", "is_first", "is_last", "removed", "inserted", "printer", "node_or_edit", "for_child"}
                missing_kw = [x for x in missing if x in kw_called]
                if fewer_pos or missing_kw:
                    ctx.violation("H8", v.file, v.short, v.node, f"{v.short} signature",
                                  f"{v.short}({', '.join(names[1:])}) overrides {base_def.short}({', '.join(bnames[1:])}) but "
                                  f"accepts {'fewer positional arguments' if fewer_pos else ''}"
                                  f"{' and ' if fewer_pos and missing_kw else ''}{'no ' + str(missing_kw) + ' keyword' if missing_kw else ''}: "
                                  f"callers that pass these (e.g. formatter.print(..., with_edits=False) from Match/Insert/"
                                  f"Remove.print) raise TypeError when this formatter is selected")
                else:
                    ctx.proved("H8", v.file, v.short, v.node, f"{v.short} signature", f"compatible with {base_def.short}")
    ctx.floor("H8", n, 15, "overrides of protocol methods")


def h9_palettes(ctx):
    m = ctx.model
    ctx.rule("H9", "colour-family agreement: a function whose parameter is annotated AnsiFore/AnsiBack/AnsiStyle looks the "
                   "value up in the matching colorama palette (Fore/Back/Style) only")
    fam = {"AnsiFore": "Fore", "AnsiBack": "Back", "AnsiStyle": "Style"}
    n = 0
    for f in sorted(m.functions.values(), key=lambda f: f.qual):
        if f.module != "graphtage.printer" or ".<locals>." in f.qual:
            continue
        anns = {a.arg: dotted(a.annotation) for a in f.node.args.args if a.annotation is not None and dotted(a.annotation) in fam}
        if len(set(anns.values())) != 1:
            continue
        want = fam[next(iter(anns.values()))]
        used = {x.id for x in walk_no_nested(f.node) if isinstance(x, ast.Name) and x.id in fam.values() and isinstance(x.ctx, ast.Load)}
        if not used:
            continue
        n += 1
        wrong = sorted(used - {want})
        if wrong:
            node = next(x for x in walk_no_nested(f.node) if isinstance(x, ast.Name) and x.id in wrong)
            ctx.violation("H9", f.file, f.short, node, f"{f.short} palette",
                          f"{f.short} receives an {next(iter(anns.values()))} but looks it up in `{wrong[0]}`: no constant of "
                          f"that palette equals a {want} code, so the lookup fails (ValueError: unknown colour) as soon "
                          f"as such a colour is used")
        else:
            ctx.proved("H9", f.file, f.short, f.node, f"{f.short} palette", f"uses {want} only")
    ctx.floor("H9", n, 2, "palette lookups")


def _lookup_domain(fn, palette):
    """Names X such that the lookup function fn answers for `<palette>.X`: direct `color == <palette>.X` comparisons, and
    `color == getattr(<palette>, EXPR)` inside `for name in (<constants>)`, EXPR evaluated for every name (constants,
    name, name.upper()/lower(), f-strings and + of those).  None if some comparison cannot be evaluated."""
    dom = set()

    def ev(e, env):
        if isinstance(e, ast.Constant) and isinstance(e.value, str):
            return e.value
        if isinstance(e, ast.Name) and e.id in env:
            return env[e.id]
        if isinstance(e, ast.Call) and isinstance(e.func, ast.Attribute) and e.func.attr in ("upper", "lower") and not e.args:
            v = ev(e.func.value, env)
            return None if v is None else getattr(v, e.func.attr)()
        if isinstance(e, ast.JoinedStr):
            out = ""
            for part in e.values:
                v = part.value if isinstance(part, ast.Constant) else (ev(part.value, env) if isinstance(part, ast.FormattedValue) and part.format_spec is None else None)
                if v is None:
                    return None
                out += v
            return out
        if isinstance(e, ast.BinOp) and isinstance(e.op, ast.Add):
            a, b = ev(e.left, env), ev(e.right, env)
            return None if a is None or b is None else a + b
        return None
    for c in walk_no_nested(fn):
        if not (isinstance(c, ast.Compare) and len(c.ops) == 1 and isinstance(c.ops[0], ast.Eq)):
            continue
        for side in (c.left, c.comparators[0]):
            if isinstance(side, ast.Attribute) and dotted(side.value) == palette:
                dom.add(side.attr)
            elif isinstance(side, ast.Call) and call_name(side) == "getattr" and len(side.args) == 2 and dotted(side.args[0]) == palette:
                loops = [a for a in ancestors(side) if isinstance(a, ast.For) and isinstance(a.target, ast.Name)
                         and isinstance(a.iter, (ast.Tuple, ast.List)) and all(isinstance(x, ast.Constant) for x in a.iter.elts)]
                envs = [{}]
                for lp in loops:
                    envs = [dict(e_, **{lp.target.id: x.value}) for e_ in envs for x in lp.iter.elts]
                for env in envs:
                    v = ev(side.args[1], env)
                    if v is None:
                        return None
                    dom.add(v)
    return dom


def h9b(ctx):
    m = ctx.model
    ctx.rule("H9b", "writer / reader agreement on colours: every colour constant the package hands to a printer (`Fore.X`, `Back.X` "
                    "anywhere outside the lookup functions themselves) is one the HTML printer's lookup (HTMLANSIContext.get_fore / "
                    "get_back) answers for - otherwise the same document prints in a terminal and raises 'Unknown ANSI color' "
                    "with --html and colour on")
    hq = m.need_class("HTMLANSIContext")
    doms = {}
    for pal, meth in (("Fore", "get_fore"), ("Back", "get_back")):
        f = m.method(hq, meth)
        if f is None:
            ctx.inconclusive("H9b", "graphtage/printer.py", f"HTMLANSIContext.{meth}", None, f"{meth} domain", f"{meth} not found")
            return
        d = _lookup_domain(f.node, pal)
        if not d:
            ctx.inconclusive("H9b", f.file, f.short, f.node, f"{meth} domain", f"cannot evaluate which {pal} constants {meth} answers for")
            return
        doms[pal] = (d, f)
    n = 0
    for fq, f in sorted(m.functions.items()):
        if f.cls == hq and f.node.name in ("get_fore", "get_back"):
            continue
        for x in walk_no_nested(f.node):
            if isinstance(x, ast.Attribute) and isinstance(x.ctx, ast.Load) and dotted(x.value) in doms and x.attr.isupper() \
                    and not x.attr.startswith("RESET"):
                r = m.resolve_expr(f.module, x.value)
                if not (r and r[0] and r[0][0] == "ext" and "colorama" in r[0][1]):
                    continue
                n += 1
                d, lf = doms[dotted(x.value)]
                if x.attr in d:
                    ctx.proved("H9b", f.file, f.short, x, f"{dotted(x.value)}.{x.attr}", f"{lf.short} answers for it")
                else:
                    ctx.violation("H9b", f.file, f.short, x, f"{dotted(x.value)}.{x.attr}",
                                  f"{f.short} colours its output with `{dotted(x.value)}.{x.attr}`, which {lf.short} does not know "
                                  f"(it answers for {sorted(d)}): rendering through an HTMLPrinter with colour on raises "
                                  f"ValueError('Unknown ANSI color') where the terminal printer works")
    ctx.floor("H9b", n, 30, "colour constants handed to printers")


def h12(ctx):
    m = ctx.model
    ctx.rule("H12", "the two files need not be of one kind: every edits(self, node) of a node class tests the kind of `node` before it "
                    "builds an edit that reads kind-specific members of it (siblings all do: `isinstance(node, ListNode)` ... else "
                    "Replace); a mapping's test must imply that the other node's members are key/value pairs; and the key pre-match "
                    "of MultiSetEdit reads `.key` of a member only under an isinstance test of that same member")
    TREE = "graphtage.tree.TreeNode"
    n = 0
    for q in sorted(set(m.subclasses(TREE)) | {TREE}):
        fn = m.method(q, "edits")
        if fn is None or fn.cls != q or m.is_abstract(q) and not fn.node.body:
            continue
        ps = func_params(fn.node)
        if len(ps) < 2:
            continue
        other = ps[1]
        body = [s_ for s_ in fn.node.body if not (isinstance(s_, ast.Expr) and isinstance(s_.value, ast.Constant))]
        if len(body) == 1 and isinstance(body[0], (ast.Raise, ast.Pass)):
            continue
        short = q.rsplit(".", 1)[-1]
        # kind-specific constructions: calls passing `other` to a project class / method other than Replace / Match
        specific = []
        for c in walk_no_nested(fn.node):
            if isinstance(c, ast.Call) and any(dotted(a) == other for a in list(c.args) + [k.value for k in c.keywords]):
                nm = (call_name(c) or "").rsplit(".", 1)[-1]
                if nm in ("Replace", "Match", "isinstance", "frozenset", "len", "type", "str", "levenshtein_distance"):
                    continue
                specific.append(c)
        for c in specific:
            n += 1
            facts = flatten_conditions(dominating_conditions(c))
            kinds = [t for t, pol in facts if pol and isinstance(t, ast.Call) and call_name(t) == "isinstance" and dotted(t.args[0]) == other]
            kinds += [t.operand for t, pol in facts if not pol and isinstance(t, ast.UnaryOp) and isinstance(t.operand, ast.Call)
                      and call_name(t.operand) == "isinstance" and dotted(t.operand.args[0]) == other]
            neg = [t for t, pol in facts if not pol and isinstance(t, ast.Call) and call_name(t) == "isinstance" and dotted(t.args[0]) == other]
            if not kinds and not neg:
                ctx.violation("H12", fn.file, f"{short}.edits", c, f"{short}.edits kind test",
                              f"`{norm(c, 60)}` is built from `{other}` without any isinstance test of it: comparing a {short} with a node "
                              f"of another kind (an XML file against a JSON file) reads members the other node does not have and "
                              f"raises AttributeError, where every sibling class answers with a Replace")
                continue
            # a mapping that hands the other node to a key-aware edit must know that the other node holds key/value pairs
            if m.is_subclass(q, m.need_class("MappingNode")) and kinds:
                kq = m.resolve_class(fn.module, kinds[0].args[1])
                if kq and not m.is_subclass(kq, m.need_class("MappingNode")):
                    ctx.violation("H12", fn.file, f"{short}.edits", kinds[0], f"{short}.edits kind test",
                                  f"`{norm(kinds[0], 50)}` admits any {kq.rsplit('.', 1)[-1]}: a plain set (a pickled set against a pickled "
                                  f"dict) is then diffed as a mapping, and the key handling reads `.key` of members that are not key/value "
                                  f"pairs (AttributeError) or calls KeyValuePairNode.edits with one (RuntimeError)")
                    continue
            ctx.proved("H12", fn.file, f"{short}.edits", c, f"{short}.edits kind test", f"built only under `{norm((kinds or neg)[0], 50)}`")
    # key reads in MultiSetEdit
    mq = m.need_class("MultiSetEdit")
    init = m.method(mq, "__init__")
    for a in walk_no_nested(init.node):
        if isinstance(a, ast.Attribute) and a.attr == "key" and isinstance(a.value, ast.Name) and isinstance(a.ctx, ast.Load):
            n += 1
            v = a.value.id
            facts = flatten_conditions(dominating_conditions(a))
            ok = any(pol and isinstance(t, ast.Call) and call_name(t) == "isinstance" and dotted(t.args[0]) == v
                     and "KeyValuePairNode" in ast.unparse(t.args[1]) for t, pol in facts)
            if ok:
                ctx.proved("H12", init.file, "MultiSetEdit.__init__", a, f"{v}.key guarded", f"`{v}.key` is read only when `{v}` is a key/value pair")
            else:
                ctx.violation("H12", init.file, "MultiSetEdit.__init__", a, f"{v}.key guarded",
                              f"`{v}.key` is read although no isinstance test of `{v}` dominates it (the inner loop re-tests the outer "
                              f"variable): a member of the other collection that is not a key/value pair raises AttributeError")
    ctx.floor("H12", n, 8, "kind-specific constructions and key reads")


def h13(ctx):
    m = ctx.model
    ctx.rule("H13", "bytes are strings all the way down or not at all: BasicBuilder registers `bytes` with the StringNode builder (pickles "
                    "are full of bytes), so everything that takes a StringNode's object apart must cope with bytes.  "
                    "string_edit_distance builds one StringNode per element by iterating the object - for bytes the elements are ints, "
                    "and StringNode.edits then calls len() on an int (TypeError in every output format), sizes become the number of "
                    "decimal digits, and the YAML string formatter tests `'\\n' in <bytes>`")
    bq = m.find_class("BasicBuilder")
    reg = False
    if bq:
        for name, (kind, fn) in m.attrs[bq].items():
            if kind == "def" and any("bytes" in ast.unparse(d) for d in fn.node.decorator_list) and "StringNode(" in code(fn.node):
                reg = True
    sed = m.functions.get("graphtage.graphtage.string_edit_distance")
    if not reg or sed is None:
        ctx.proved("H13", "graphtage/builder.py", "BasicBuilder", None, "bytes are not StringNodes", "no builder wraps bytes in a StringNode", nontrivial=False)
        return
    comps = [c for c in walk_no_nested(sed.node) if isinstance(c, (ast.ListComp, ast.GeneratorExp)) and "StringNode(" in ast.unparse(c.elt)]
    ctx.floor("H13", len(comps), 1, "per-element StringNode constructions in string_edit_distance")
    handles = "bytes" in code(sed.node).split('"""')[-1]
    for c in comps:
        if handles:
            ctx.proved("H13", sed.file, "string_edit_distance", c, f"elements of `{norm(c.generators[0].iter, 10)}`", "bytes arguments are split into one-byte strings")
        else:
            ctx.violation("H13", sed.file, "string_edit_distance", c, f"elements of `{norm(c.generators[0].iter, 10)}`",
                          f"`{norm(c, 50)}` iterates its argument: for a bytes value (a pickled b'abc') the elements are ints, so the "
                          f"character nodes wrap 97, 98, 99 - StringNode.edits calls len() on them (TypeError: object of type 'int' has "
                          f"no len()), and two pickles whose bytes values differ cannot be compared or rendered in any format or mode")


def h6_copy(ctx, reach):
    m = ctx.model
    ctx.rule("H6", "copy() is reachable while printing (formatter fallbacks copy children); every concrete node class "
                   "that relies on TreeNode.copy_from (`self.__class__(*children)`) must have an __init__ that accepts "
                   "the shape of children()")
    uses = [f for f in reach.values() if not isinstance(f.node, ast.Module)
            and any(isinstance(n, ast.Call) and isinstance(n.func, ast.Attribute) and n.func.attr == "copy" and not n.args
                    for n in walk_no_nested(f.node))
            and f.cls and m.is_subclass(f.cls, FORMATTER)]
    if not uses:
        ctx.proved("H6", "-", "-", None, "no copy() in formatters", "no formatter copies nodes", nontrivial=False)
        return
    where = ", ".join(sorted(u.short for u in uses))
    k = 0
    for q, ok, detail in nodeshape.copy_from_problems(m):
        k += 1
        mod, c = m.classes[q]
        short = q.rsplit(".", 1)[-1]
        if ok:
            ctx.proved("H6", m.files[mod], f"{short}.copy_from", c, f"{short}.copy_from arity", detail)
        else:
            ctx.violation("H6", m.files[mod], f"{short}.copy_from", c, f"{short}.copy_from arity",
                          detail + f"; copy() is called on arbitrary children while printing in {where}")
    ctx.floor("H6", k, 5, "node classes relying on TreeNode.copy_from")


# ------------------------------------------------------------------------------------------------ H10 / H11
PARTIAL_REMOVALS = {"remove": "raises KeyError/ValueError when the element is absent",
                    "pop": "raises KeyError when the key is absent (no default given)"}


def _partial_release(m, fi):
    """(field, op) if the method's body removes its parameter from a self container with an operation that raises when
    the element is absent (set.remove / list.remove / dict.pop without default / del self.F[p])."""
    ps = [p for p in func_params(fi.node) if p != "self"]
    for n in walk_no_nested(fi.node):
        if isinstance(n, ast.Call) and isinstance(n.func, ast.Attribute) and n.func.attr in PARTIAL_REMOVALS \
                and self_attr(n.func.value) and len(n.args) == 1 and isinstance(n.args[0], ast.Name) and n.args[0].id in ps \
                and not n.keywords:
            return self_attr(n.func.value), n.func.attr
        if isinstance(n, ast.Delete):
            for t in n.targets:
                if isinstance(t, ast.Subscript) and self_attr(t.value) and isinstance(t.slice, ast.Name) and t.slice.id in ps:
                    return self_attr(t.value), "del"
    return None


def _field_views(m, q, field):
    """Names under which instances of q expose the container `field`: the field itself and properties returning it."""
    out = {field}
    for k in m.c3(q):
        if k not in m.attrs:
            continue
        for name, (kind, v) in m.attrs[k].items():
            if kind == "def" and any(dotted(d) == "property" for d in v.node.decorator_list):
                rets = [r for r in walk_no_nested(v.node) if isinstance(r, ast.Return) and r.value is not None]
                if rets and all(self_attr(r.value) == field for r in rets):
                    out.add(name)
    return out


def h10_release(ctx, cg):
    m = ctx.model
    ctx.rule("H10", "release only what was acquired: a context manager whose __exit__ calls a release method that raises on an "
                    "absent element (set.remove, dict.pop without default, del) must restrict the released elements to those "
                    "its own __enter__ newly added - `for X in <own> - <snapshot>` with the snapshot copied from the shared "
                    "container before the adds - or guard each release with a membership test; printing contexts nest "
                    "(Edit.print -> formatter -> sub-edit print), so an unconditional release of the same mark raises on "
                    "the outer exit")
    n = 0
    for q in sorted(m.classes):
        a = m.attrs[q]
        if not ("__enter__" in a and "__exit__" in a and a["__enter__"][0] == "def" and a["__exit__"][0] == "def"):
            continue
        en, ex = a["__enter__"][1], a["__exit__"][1]
        short = q.rsplit(".", 1)[-1]
        # releases registered on entry and run on exit (`self._undo.callback(self.writer.remove, mark)` ... `self._undo.close()`)
        for c in walk_no_nested(en.node):
            if not (isinstance(c, ast.Call) and isinstance(c.func, ast.Attribute) and c.func.attr in ("callback", "push", "register") and c.args
                    and isinstance(c.args[0], ast.Attribute) and self_attr(c.args[0].value)):
                continue
            holder = self_attr(c.args[0].value)
            hq = cg.attr_type(q, holder)
            target = m.method(hq, c.args[0].attr) if hq else None
            pr = _partial_release(m, target) if target is not None else None
            if pr is None:
                continue
            n += 1
            field, op = pr
            views = _field_views(m, hq, field)
            arg = c.args[1] if len(c.args) > 1 else None
            fresh = any(isinstance(t, ast.Compare) and len(t.ops) == 1 and isinstance(t.ops[0], (ast.In, ast.NotIn)) and arg is not None
                        and norm(t.left) == norm(arg) and isinstance(t.comparators[0], ast.Attribute) and t.comparators[0].attr in views
                        and (isinstance(t.ops[0], ast.NotIn) == pol) for t, pol in flatten_conditions(dominating_conditions(c)))
            tshort = target.qual.rsplit(".", 2)[-2] + "." + target.qual.rsplit(".", 1)[-1]
            if fresh:
                ctx.proved("H10", en.file, en.short, c, f"{short}: self.{holder}.{c.args[0].attr}", "the release is registered only for elements that were absent on entry")
            else:
                ctx.violation("H10", en.file, en.short, c, f"{short}: self.{holder}.{c.args[0].attr}",
                              f"{short}.__enter__ registers {tshort} (`self.{field}.{op}(...)`, {PARTIAL_REMOVALS.get(op, 'raises when absent')}) "
                              f"to run on exit for every element, also for those an enclosing context of the same kind had already added and "
                              f"will release again; nested contexts for the same mark occur when an edit prints a sub-edit inside its own "
                              f"strike/underline context (CSV leaf cells, coloured full diff)")
        for c in walk_no_nested(ex.node):
            if not (isinstance(c, ast.Call) and isinstance(c.func, ast.Attribute) and self_attr(c.func.value)
                    and len(c.args) == 1):
                continue
            holder = self_attr(c.func.value)
            hq = cg.attr_type(q, holder)
            target = m.method(hq, c.func.attr) if hq else None
            if target is None:
                continue
            pr = _partial_release(m, target)
            if pr is None:
                continue
            n += 1
            field, op = pr
            views = _field_views(m, hq, field)
            arg = c.args[0]
            # enclosing for-loop whose target is the released element
            loop = parent(c)
            while loop is not None and not (isinstance(loop, ast.For) and isinstance(loop.target, ast.Name)
                                            and isinstance(arg, ast.Name) and loop.target.id == arg.id):
                loop = parent(loop)
            ok = False
            why = ""
            # (a) membership guard
            g = parent(c)
            while g is not None and g is not ex.node:
                if isinstance(g, ast.If) and isinstance(g.test, ast.Compare) and len(g.test.ops) == 1 \
                        and isinstance(g.test.ops[0], ast.In) and norm(g.test.left) == norm(arg) \
                        and isinstance(g.test.comparators[0], ast.Attribute) and g.test.comparators[0].attr in views:
                    ok, why = True, "each release is guarded by a membership test"
                g = parent(g)
            # (b) domain is own - snapshot
            dom = resolve_local(ex.node, loop.iter) if loop is not None else None
            if not ok and loop is not None and isinstance(dom, ast.BinOp) and isinstance(dom.op, ast.Sub) \
                    and self_attr(dom.right):
                snap = self_attr(dom.right)
                own = norm(dom.left)
                assigns = [s for s in en.node.body if isinstance(s, (ast.Assign, ast.AnnAssign))
                           and any(self_attr(t) == snap for t in (s.targets if isinstance(s, ast.Assign) else [s.target]))]
                def is_copy(v):
                    v = resolve_local(en.node, v)
                    if isinstance(v, ast.Call) and dotted(v.func) in ("set", "frozenset", "list", "tuple", "dict") and len(v.args) == 1:
                        v = v.args[0]
                    elif isinstance(v, ast.Call) and isinstance(v.func, ast.Attribute) and v.func.attr == "copy" and not v.args:
                        v = v.func.value
                    else:
                        return False
                    return isinstance(v, ast.Attribute) and v.attr in views and self_attr(v.value) == holder
                adds = [i for i, s in enumerate(en.node.body) for k in ast.walk(s)
                        if isinstance(k, ast.Call) and isinstance(k.func, ast.Attribute) and self_attr(k.func.value) == holder
                        and k.func.attr not in views]
                first_add = min(adds) if adds else len(en.node.body)
                good = [s for s in assigns if s.value is not None and is_copy(s.value) and en.node.body.index(s) < first_add]
                if good and len(good) == len(assigns):
                    ok, why = True, (f"released elements are `{own} - self.{snap}`; self.{snap} is a copy of the shared "
                                     f"container taken in __enter__ before anything is added")
                elif assigns:
                    why = (f"self.{snap} is not a copy of self.{holder}'s container taken before the adds in __enter__")
                else:
                    why = f"self.{snap} is never assigned in __enter__"
            if ok:
                ctx.proved("H10", ex.file, ex.short, c, f"{short}: self.{holder}.{c.func.attr}", why)
            else:
                tshort = target.qual.rsplit(".", 2)[-2] + "." + target.qual.rsplit(".", 1)[-1]
                ctx.violation("H10", ex.file, ex.short, c, f"{short}: self.{holder}.{c.func.attr}",
                              f"{short}.__exit__ calls {tshort}, which performs `self.{field}.{op}(...)` "
                              f"({PARTIAL_REMOVALS.get(op, 'raises when absent')}), for elements that an enclosing context "
                              f"of the same kind may already have added and will release again"
                              + (f": {why}" if why else ": the released set is not reduced by a snapshot taken on entry") +
                              "; nested contexts for the same mark occur when an edit prints a sub-edit inside its own "
                              "strike/underline context (CSV leaf cells, coloured full diff)")
    ctx.floor("H10", n, 1, "context managers releasing through a partial removal")


ENCODER_DOMAINS = {
    # encoder -> (module whose source states the domain, function holding the type switch)
    "plistlib.dumps": ("plistlib", "write_value"),
    "json.dumps": ("json.encoder", "_iterencode"),
}
TOTAL_ENCODERS = {"yaml.dump": "the default Dumper represents arbitrary objects", "str": "total", "repr": "total",
                  "html.escape": "applied to str(...)"}
LEAF_EXEMPT = {"CyclicReference": "created only for identity cycles in object graphs handed to the builder by library users; "
                                  "the CLI's only use of the builder is the pickle AST, which is a tree"}


def _encoder_domain(enc):
    """Type names the encoder's type switch accepts, read from the library source (isinstance tests and `is` constants)."""
    from .. import extlib
    modname, fname = ENCODER_DOMAINS[enc]
    path = extlib.source_of(modname)
    if path is None:
        return None
    tree = ast.parse(open(path, encoding="utf-8").read())
    dom = set()
    found = False
    for f in ast.walk(tree):
        if isinstance(f, ast.FunctionDef) and f.name == fname:
            found = True
            subject = f.args.args[-1].arg if f.args.args[0].arg == "self" and len(f.args.args) == 2 else f.args.args[0].arg
            for n in ast.walk(f):
                if isinstance(n, ast.Call) and dotted(n.func) == "isinstance" and len(n.args) == 2 \
                        and isinstance(n.args[0], ast.Name) and n.args[0].id == subject:
                    t = n.args[1]
                    for e in (t.elts if isinstance(t, ast.Tuple) else [t]):
                        dom.add((dotted(e) or "").rsplit(".", 1)[-1])
                if isinstance(n, ast.Compare) and isinstance(n.left, ast.Name) and n.left.id == subject \
                        and isinstance(n.ops[0], ast.Is) and isinstance(n.comparators[0], ast.Constant):
                    v = n.comparators[0].value
                    dom.add("NoneType" if v is None else type(v).__name__)
    return dom if found else None


def _leaf_object_types(m, q):
    """Static type names of `.object` for a leaf class, from the argument its __init__ hands to LeafNode.__init__."""
    init = m.attrs[q].get("__init__")
    if not init or init[0] != "def":
        return None
    fn = init[1].node
    for c in walk_no_nested(fn):
        if isinstance(c, ast.Call) and isinstance(c.func, ast.Attribute) and c.func.attr == "__init__" \
                and isinstance(c.func.value, ast.Call) and dotted(c.func.value.func) == "super" and c.args:
            a = c.args[0]
            if isinstance(a, ast.Constant):
                return {"NoneType" if a.value is None else type(a.value).__name__}
            if isinstance(a, ast.Name):
                for p in fn.args.args:
                    if p.arg == a.id and p.annotation is not None:
                        ann = p.annotation
                        if isinstance(ann, ast.Subscript) and dotted(ann.value) in ("Union", "typing.Union", "Optional", "typing.Optional"):
                            elts = ann.slice.elts if isinstance(ann.slice, ast.Tuple) else [ann.slice]
                            out = {dotted(e) for e in elts if dotted(e)}
                            if dotted(ann.value).endswith("Optional"):
                                out.add("NoneType")
                            return out
                        if dotted(ann):
                            return {dotted(ann)}
            if isinstance(a, ast.Call) and dotted(a.func):
                return {dotted(a.func).rsplit(".", 1)[-1]}
    return None


def _object_encoders(m, fi, pname, depth=0):
    """Encoders that receive `<pname>.object` (or, inside a helper, the parameter it was passed as) in function fi."""
    out = []

    def is_obj(e, var):
        if var is None:
            return isinstance(e, ast.Attribute) and e.attr == "object" and isinstance(e.value, ast.Name) and e.value.id == pname
        return isinstance(e, ast.Name) and e.id == var

    def scan(fi, var, depth):
        for c in walk_no_nested(fi.node):
            if not isinstance(c, ast.Call):
                continue
            hit = [i for i, a in enumerate(c.args) if is_obj(a, var)]
            if not hit:
                continue
            r = m.resolve_expr(fi.module, c.func)
            name = r[0][1] if r and r[0] and r[0][0] == "ext" else None
            if name not in ENCODER_DOMAINS and name not in TOTAL_ENCODERS and isinstance(c.func, ast.Attribute) and c.func.attr == "encode" \
                    and isinstance(c.func.value, ast.Name):
                # `_ENC = json.JSONEncoder(...)` at module level, `_ENC.encode(x)`: json.dumps(x, ...) with the constructor's keywords
                for st_ in m.mods[fi.module].body:
                    if isinstance(st_, ast.Assign) and len(st_.targets) == 1 and dotted(st_.targets[0]) == c.func.value.id and isinstance(st_.value, ast.Call):
                        r2 = m.resolve_expr(fi.module, st_.value.func)
                        n2 = r2[0][1] if r2 and r2[0] and r2[0][0] == "ext" else None
                        if n2 in ("json.JSONEncoder", "json.encoder.JSONEncoder"):
                            name = "json.dumps"
                            c2 = ast.Call(func=c.func, args=c.args, keywords=st_.value.keywords)
                            ast.copy_location(c2, c)
                            c2._parent = getattr(c, "_parent", None)
                            c = c2
            if name in ENCODER_DOMAINS or name in TOTAL_ENCODERS:
                out.append((name, c, fi))
            elif isinstance(c.func, ast.Attribute) and dotted(c.func.value) in ("self", "cls") and fi.cls and depth < 2:
                h = m.method(fi.cls, c.func.attr)
                if h is not None:
                    ps = [p for p in func_params(h.node) if p not in ("self", "cls")]
                    idx = hit[0]
                    if idx < len(ps):
                        save = var
                        scan_helper(h, ps[idx], depth + 1)

    def scan_helper(h, v, depth):
        nonlocal_var = v
        for c in walk_no_nested(h.node):
            if isinstance(c, ast.Call) and any(isinstance(a, ast.Name) and a.id == nonlocal_var for a in c.args):
                r = m.resolve_expr(h.module, c.func)
                name = r[0][1] if r and r[0] and r[0][0] == "ext" else None
                if name in ENCODER_DOMAINS or name in TOTAL_ENCODERS:
                    out.append((name, c, h))
    scan(fi, None, depth)
    return out


def h11_leaf_domains(ctx, roots):
    m = ctx.model
    ctx.rule("H11", "encoder domain: when the handler the protocol selects for a leaf class hands node.object to a library "
                    "encoder whose type switch (read from the library's source) ends in `raise TypeError`, the static type of "
                    "that leaf class's object (the argument its constructor passes to LeafNode.__init__) is one the switch "
                    "accepts")
    leaf = m.find_class("LeafNode")
    n = 0
    domains = {}
    seen = set()
    for rq, root in sorted(roots.items()):
        for nq in sorted(m.subclasses(leaf, strict=True)):
            short = nq.rsplit(".", 1)[-1]
            if m.is_abstract(nq) or m.is_subclass(nq, EDITED):
                continue
            types = _leaf_object_types(m, nq)
            if types is None:
                continue
            for edited in (False, True):
                r = m.get_formatter(m.node_mro_names(nq, edited), root)
                if r is None:
                    continue
                h = m.method(r[0].q, r[1])
                if h is None:
                    continue
                ps = [p for p in func_params(h.node) if p != "self"]
                if len(ps) < 2:
                    continue
                for enc, call, where in _object_encoders(m, h, ps[1]):
                    key = (h.qual, nq, enc)
                    if key in seen:
                        continue
                    seen.add(key)
                    n += 1
                    hs = f"{r[0].name}.{r[1]}"
                    if enc in TOTAL_ENCODERS:
                        ctx.proved("H11", where.file, where.short, call, f"{short} -> {enc}", f"{hs} hands {short}.object to {enc}: {TOTAL_ENCODERS[enc]}", nontrivial=False)
                        continue
                    if enc not in domains:
                        domains[enc] = _encoder_domain(enc)
                    dom = domains[enc]
                    if dom is None:
                        ctx.inconclusive("H11", where.file, where.short, call, f"{short} -> {enc}", f"cannot read the type switch of {enc} from the library source")
                        continue
                    partial = sorted((t, ENCODER_VALUE_PARTIAL[(enc, t)]) for t in types if ENCODER_VALUE_PARTIAL.get((enc, t)))
                    if partial and short not in LEAF_EXEMPT:
                        t_, why_ = partial[0]
                        ctx.violation("H11", where.file, where.short, call, f"{short} -> {enc} (values)",
                                      f"the protocol selects {hs} for {short} under {rq.rsplit('.', 1)[-1]}; it hands node.object ({t_}) to {enc}, "
                                      f"which accepts the type but not every value: {why_} - a document containing such a value cannot "
                                      f"be rendered in this format")
                    for kw_ in call.keywords:
                        narrow = ENCODER_KW_PARTIAL.get((enc, kw_.arg))
                        if narrow is None:
                            continue
                        val_, t_, why_ = narrow
                        if t_ not in types:
                            continue
                        if isinstance(kw_.value, ast.Constant) and kw_.value.value is not val_:
                            continue            # the keyword restates the encoder's total default
                        ctx.violation("H11", where.file, where.short, call, f"{short} -> {enc} ({kw_.arg})",
                                      f"the protocol selects {hs} for {short} under {rq.rsplit('.', 1)[-1]}; it hands node.object ({t_}) to "
                                      f"{enc} with {kw_.arg}={ast.unparse(kw_.value)}, under which the encoder rejects some values of that "
                                      f"type: {why_} - the loaders produce such values, so a document containing one cannot be rendered")
                    bad = sorted(t for t in types if t not in dom)
                    if short in LEAF_EXEMPT:
                        ctx.note(f"H11: {short} -> {enc} not decided: {LEAF_EXEMPT[short]}")
                        continue
                    if bad:
                        ctx.violation("H11", where.file, where.short, call, f"{short} -> {enc}",
                                      f"the protocol selects {hs} for {short} under {rq.rsplit('.', 1)[-1]}; it hands node.object "
                                      f"(static type {'/'.join(sorted(types))}) to {enc}, whose type switch in "
                                      f"{ENCODER_DOMAINS[enc][0]}.{ENCODER_DOMAINS[enc][1]} accepts only {sorted(dom)} and raises "
                                      f"TypeError otherwise: rendering a document containing {'/'.join(bad)} in this format fails")
                    else:
                        ctx.proved("H11", where.file, where.short, call, f"{short} -> {enc}",
                                   f"{hs}: {'/'.join(sorted(types))} is accepted by {enc}'s type switch")
    ctx.floor("H11", n, 8, "(handler, leaf class, encoder) triples")


def h6b_copy_rewrap(ctx):
    m = ctx.model
    ctx.rule("H6b", "copy_from adopts the copies it is given: TreeNode.copy() hands copy_from the already copied children, each "
                    "with its own sub-nodes attached; a copy_from that takes those sub-nodes apart (`child.key`, `child.value`, "
                    "...) and feeds them to another container constructor / from_dict re-parents nodes that already have a parent, "
                    "and the parent setter raises ValueError - copy() is reached while printing (container fallbacks copy children)")
    n = 0
    for q in sorted(m.subclasses(CONTAINER)):
        own = m.attrs[q].get("copy_from")
        if not own or own[0] != "def":
            continue
        f = own[1]
        ps = func_params(f.node)
        if len(ps) < 2:
            continue
        kids = ps[1]
        n += 1
        elems = set()
        for g in walk_no_nested(f.node):
            if isinstance(g, (ast.GeneratorExp, ast.ListComp, ast.DictComp, ast.SetComp)):
                for gen in g.generators:
                    if dotted(gen.iter) == kids and isinstance(gen.target, ast.Name):
                        elems.add(gen.target.id)
            if isinstance(g, ast.For) and dotted(g.iter) == kids and isinstance(g.target, ast.Name):
                elems.add(g.target.id)
        bad = None
        for c in walk_no_nested(f.node):
            if not isinstance(c, ast.Call):
                continue
            nm = call_name(c) or ""
            builds = nm.endswith("from_dict") or nm.endswith("make_key_value_pair_node") or (m.resolve_class(f.module, c.func) and
                                                                                             m.is_subclass(m.resolve_class(f.module, c.func), CONTAINER))
            if not builds:
                continue
            for x in ast.walk(c):
                # values (not dict keys used for lookup only) built from sub-nodes of the given children
                if isinstance(x, ast.DictComp) and isinstance(x.value, ast.Attribute) and isinstance(x.value.value, ast.Name) and x.value.value.id in elems:
                    if nm.endswith("from_dict") or nm.endswith("make_key_value_pair_node"):
                        bad = (c, x.value)
                if isinstance(x, ast.Attribute) and isinstance(x.value, ast.Name) and x.value.id in elems and any(x is a for a in c.args) \
                        and not nm.endswith("__class__"):
                    bad = (c, x)
        short = q.rsplit(".", 1)[-1]
        if bad:
            c, x = bad
            ctx.violation("H6b", f.file, f"{short}.copy_from", c, f"{short}.copy_from re-wraps adopted nodes",
                          f"`{norm(c, 70)}` builds new containers around `{norm(x, 20)}`, a sub-node of a child that TreeNode.copy() already "
                          f"copied and attached: the node has a parent, the new container's constructor assigns another one, and "
                          f"TreeNode.parent's setter raises ValueError - e.g. under -k, when a formatter falls back to copying the "
                          f"children of a container it has no handler for")
        else:
            ctx.proved("H6b", f.file, f"{short}.copy_from", f.node, f"{short}.copy_from re-wraps adopted nodes", "the given copies are adopted as they are", nontrivial=False)
    ctx.floor("H6b", n, 3, "copy_from overrides of container nodes")


# (encoder, static type) pairs for which the encoder raises on SOME values of that type (read from the library source:
# plistlib._escape raises ValueError for control characters, _PlistWriter.write_value raises OverflowError for ints
# outside [-2**63, 2**64))
ENCODER_KW_PARTIAL = {
    # (encoder, keyword) -> (value under which the domain shrinks, affected static type, what happens)
    ("json.dumps", "allow_nan"): (False, "float", "ValueError 'Out of range float values are not JSON compliant' for nan / inf / -inf "
                                                  "(json.encoder.floatstr; json.loads accepts NaN, Infinity and 1e999, yaml accepts .nan/.inf)"),
}
ENCODER_VALUE_PARTIAL = {
    ("plistlib.dumps", "str"): "ValueError: strings can't contain control characters (plistlib._escape)",
    ("plistlib.dumps", "bytes"): None,
    ("plistlib.dumps", "int"): "OverflowError for integers outside [-2**63, 2**64) (plistlib._PlistWriter.write_value)",
}


def run(ctx):
    m = ctx.model
    ctx.extra = {}
    cg = CallGraph(m)
    ent, inst = diff_entries(m)
    _, inst = cg.reachable(ent, inst)
    roots, node_classes, edit_classes, fallback = e5_totality(ctx, inst)
    ents = print_phase_entries(m)
    dead = []
    if not fallback:
        dead = dead_fallback_calls(m)
    else:
        for q in fallback:
            pr = m.method(q, "print")
            if pr is not None:
                ents.append(pr)
    cg2 = CallGraph(m, dead_calls=dead)
    reach, _ = cg2.reachable(ents, inst)
    ctx.extra["print_phase_functions"] = len(reach)
    ctx.extra["dead_fallback_calls"] = len(dead)
    h1_reparenting(ctx, reach)
    handler_hazards(ctx, reach, roots)
    e5_cycles(ctx, roots, node_classes)
    h8_overrides(ctx)
    h9_palettes(ctx)
    h9b(ctx)
    h12(ctx)
    h13(ctx)
    h2b(ctx)
    # recorded defects of the builders that end a comparison with a traceback for valid input of a supported type
    from .c18 import r18d, r18i
    r18d(ctx)         # a YAML document with a recursive alias (`&l [1, 2, *l]`) recurses until RecursionError
    r18i(ctx)         # a pickled dict with two tuple keys cannot be sorted while it is loaded
    h10_release(ctx, cg)
    h11_leaf_domains(ctx, roots)
    h6_copy(ctx, reach)
    h6b_copy_rewrap(ctx)
    ctx.assume("value-dependent failures inside third-party encoders (yaml.dump, plistlib.dumps, json.dumps on exotic "
               "objects) are not decided")
    ctx.assume("the engine's model of the formatting protocol (_get_formatter port) - validated against the runtime in "
               "the thorough tier's model cross-check")
