"""C19 witness 3: get_item() refuses to subscript a class (a generic alias / __class_getitem__ reads private attributes),
but Operator.TERNARY_CONDITIONAL is `lambda a, b: b[bool(a)]` -- a raw subscript of whatever stands right of '?'.
`1 ? C` therefore performs C[True]: it reads C.__class_getitem__ (plus __parameters__/__module__/__qualname__ for
typing.Generic classes) and hands a types.GenericAlias to the expression.
Secondary channel with the same effect (separate site): str.translate(C) subscripts its argument in C code."""
import sys
import types
import typing
from graphtage.expressions import parse

READS = []


class Meta(type):
    def __getattribute__(cls, name):
        if name.startswith('_'):
            READS.append(name)
        return super().__getattribute__(name)


class C(metaclass=Meta):
    _secret = 42


T = typing.TypeVar('T')


class G(typing.Generic[T], metaclass=Meta):
    _secret = 42


env = {'C': C, 'G': G}
bad = []

# control: the direct subscript is refused without touching the class
READS.clear()
try:
    parse('C[1]').eval(locals=env)
    bad.append("control: C[1] was not refused")
except TypeError:
    pass
if READS:
    bad.append(f"control: C[1] read {READS}")

for expr in ('1 ? C', '0 ? C', '1 ? G'):
    READS.clear()
    try:
        parse(expr).eval(locals=env)
    except Exception:
        pass
    reads = [r for r in READS if r != '__class__']
    if reads:
        bad.append(f"evaluating {expr!r} read private attribute(s) {sorted(set(reads))} of the class")

# without any tripwire: the guard of get_item is bypassed, the expression obtains list[True]
try:
    parse('list[1]').eval()
    refused = False
except TypeError:
    refused = True
try:
    r = parse('1 ? list').eval()
except Exception as e:
    r = e
if refused and isinstance(r, types.GenericAlias):
    bad.append(f"'list[1]' is refused but '1 ? list' evaluates to the generic alias {r!r}")

# secondary channel (C code of str.translate subscripts the class)
READS.clear()
try:
    parse('"a".translate(C)').eval(locals=env)
except Exception:
    pass
reads = [r for r in READS if r != '__class__']
if reads:  # informational only: a different site (C code), it does not decide the exit status
    print(f"note (secondary channel): evaluating '\"a\".translate(C)' read {sorted(set(reads))} of the class")

if bad:
    for b in bad:
        print("VIOLATION:", b)
    sys.exit(1)
print("ok")
sys.exit(0)
