#!/venv/bin/python
"""Write a copy of /repo/graphtage in which every function's local variables are renamed (suffix _r): a behaviour-
preserving rewrite used to test that the checks do not depend on local spellings.  usage: alpha_rename.py <dest-root>"""
import ast, glob, os, shutil, sys


sys.path.insert(0, os.path.dirname(os.path.dirname(os.path.abspath(__file__))))
from gtstatic.refactors import alpha_rename_source


def main(dest):
    if os.path.exists(os.path.join(dest, "graphtage")):
        shutil.rmtree(os.path.join(dest, "graphtage"))
    shutil.copytree("/repo/graphtage", os.path.join(dest, "graphtage"), ignore=shutil.ignore_patterns("__pycache__"))
    for p in glob.glob(os.path.join(dest, "graphtage", "*.py")):
        out = alpha_rename_source(open(p).read())
        compile(out, p, "exec")
        open(p, "w").write(out)


if __name__ == "__main__":
    main(sys.argv[1])
