"""C13 witness: an integer of more than 4300 decimal digits (written as a hex literal in YAML / JSON5, or pickled)
makes every comparison die with an uncaught ValueError, whatever the output format or mode.

Exits 1 when a run of the command line ends in a traceback, 0 otherwise."""
import os
import pickle
import subprocess
import sys
import tempfile

HEX_A = '0x' + 'f' * 4000      # about 4817 decimal digits; int(s, 16) is not subject to CPython's digit limit
HEX_B = '0x' + 'e' * 4000


def graphtage(*argv):
    p = subprocess.run([sys.executable, '-m', 'graphtage', '--no-status', *argv], capture_output=True, text=True,
                       errors='replace')
    return p.returncode, p.stdout, p.stderr


def main():
    failures = []
    with tempfile.TemporaryDirectory() as d:
        def w(name, data, mode='w'):
            path = os.path.join(d, name)
            with open(path, mode) as f:
                f.write(data)
            return path
        ya = w('a.yaml', f'k: {HEX_A}\n')
        yb = w('b.yaml', f'k: {HEX_B}\n')
        ja = w('a.json5', '{k: ' + HEX_A + '}')
        pa = w('a.pkl', pickle.dumps({'k': int(HEX_A, 16)}), 'wb')
        runs = [
            ('yaml, identical, default format', [ya, ya]),
            ('yaml, identical, -f json', [ya, ya, '-f', 'json']),
            ('yaml, different, full diff', [ya, yb]),
            ('yaml, different, edit list', [ya, yb, '-e']),
            ('yaml, different, edit digest, -f xml', [ya, yb, '-d', '-f', 'xml']),
            ('json5, identical', [ja, ja]),
            ('pickle, identical', [pa, pa]),
        ]
        for label, argv in runs:
            rc, out, err = graphtage(*argv)
            if 'Traceback (most recent call last)' in err or rc not in (0, 1):
                last = [line for line in err.strip().splitlines() if line.strip()][-1] if err.strip() else ''
                failures.append(f'{label}: exit status {rc}; {last[:160]}')
    if failures:
        print('VIOLATION: a document holding one large integer cannot be compared/rendered:')
        for f in failures:
            print('  -', f)
        return 1
    print('ok: all runs completed without an internal error')
    return 0


if __name__ == '__main__':
    sys.exit(main())
