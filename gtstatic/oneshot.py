"""E11 - one-shot iterators are consumed once.

`filter`, `map`, `zip`, `iter`, `reversed`, `enumerate`, the itertools functions and generator expressions give an object
that can be walked a single time.  Bound to a local and then iterated inside a loop that does not also contain the
binding, the second round of that loop sees it empty: candidates are skipped silently (pairings are missed, sub-edits
are not counted).  The rule is purely structural and is shared by the properties whose pairing / counting code it protects.
"""
import ast

from .astx import walk_no_nested, call_name, ancestors, dotted

ONE_SHOT = {"filter", "map", "zip", "iter", "reversed", "enumerate", "chain", "islice", "takewhile", "dropwhile", "starmap",
            "zip_longest", "compress", "filterfalse", "accumulate", "groupby", "product", "permutations", "combinations"}
CONSUMERS = {"list", "tuple", "set", "frozenset", "sorted", "sum", "any", "all", "max", "min", "dict", "Counter", "HashableCounter",
             "extend", "update", "join"}


def _is_one_shot(e):
    if isinstance(e, ast.GeneratorExp):
        return True
    if isinstance(e, ast.Call):
        nm = (call_name(e) or "").rsplit(".", 1)[-1]
        return nm in ONE_SHOT
    return False


def _loops_around(n, stop):
    out = []
    for a in ancestors(n):
        if a is stop:
            break
        if isinstance(a, (ast.For, ast.While, ast.ListComp, ast.SetComp, ast.DictComp, ast.GeneratorExp)):
            out.append(a)
    return out


POSITIVE = """
def sample(xs, ys):
    keep = filter(None, ys)
    for x in xs:
        for y in keep:
            pass
"""
NEGATIVE = """
def sample(xs, ys):
    for x in xs:
        keep = filter(None, ys)
        for y in keep:
            pass
    once = zip(xs, ys)
    return [a for a, b in once]
"""


def scan(fn):
    """[(verdict, node, name, binding, loop)] for every use of a locally bound one-shot iterator in function node fn."""
    out = []
    binds = {}
    for a in walk_no_nested(fn):
        if isinstance(a, (ast.Assign, ast.AnnAssign)) and a.value is not None:
            t = a.targets[0] if isinstance(a, ast.Assign) else a.target
            if isinstance(t, ast.Name):
                binds.setdefault(t.id, []).append(a)
    for name, defs in binds.items():
        shots = [d for d in defs if _is_one_shot(d.value)]
        if not shots or len(shots) != len(defs):
            continue        # also bound to re-iterable values: not decided
        for use in walk_no_nested(fn):
            it = None
            if isinstance(use, ast.For) and dotted(use.iter) == name:
                it = use.iter
            elif isinstance(use, ast.comprehension) and dotted(use.iter) == name:
                it = use.iter
            elif isinstance(use, ast.Call) and (call_name(use) or "").rsplit(".", 1)[-1] in CONSUMERS \
                    and any(dotted(x) == name for x in use.args):
                it = use
            if it is None:
                continue
            # loops that enclose the use but none of the bindings
            use_loops = _loops_around(it, fn)
            if isinstance(use, ast.For):
                use_loops = [l for l in use_loops if l is not use]
            def_loops = {id(l) for d in shots for l in _loops_around(d, fn)}
            outer = [l for l in use_loops if id(l) not in def_loops]
            # a comprehension's own first generator evaluates its iterable once
            outer = [l for l in outer if not (isinstance(l, (ast.ListComp, ast.SetComp, ast.DictComp, ast.GeneratorExp))
                                              and l.generators and l.generators[0] is use)]
            out.append(("bad" if outer else "ok", it, name, shots[0], outer[0] if outer else None))
    return out


def e11(ctx, modules=None):
    from .astx import _set_parents
    from .core import Inconclusive
    m = ctx.model
    ctx.rule("E11", "one-shot iterators (filter / map / zip / reversed / itertools / generator expressions) bound to a local are not "
                    "walked inside a loop that does not also create them: from the second round on they are empty and the "
                    "candidates they held are skipped silently")
    # the expected count on a healthy tree is zero, so the rule carries its own positive and negative example
    pos = scan(_set_parents(ast.parse(POSITIVE)).body[0])
    neg = scan(_set_parents(ast.parse(NEGATIVE)).body[0])
    if [v for v, *_ in pos] != ["bad"] or any(v == "bad" for v, *_ in neg) or len(neg) != 2:
        raise Inconclusive("E11 self-test: the embedded positive / negative examples are not judged as expected")
    n = bad = 0
    scanned = 0
    for fq, f in sorted(m.functions.items()):
        if modules is not None and f.module not in modules:
            continue
        scanned += 1
        for verdict, it, name, shot, lp in scan(f.node):
            n += 1
            if verdict == "bad":
                bad += 1
                ctx.violation("E11", f.file, f.short, it, f"one-shot `{name}` walked in a loop",
                              f"`{name}` is bound once to `{ast.unparse(shot.value)[:70]}` (line {shot.lineno}), an iterator that "
                              f"can be walked a single time, but it is iterated inside the loop at line {lp.lineno} which runs "
                              f"repeatedly without re-creating it: from the second round on it is empty, so the candidates it held "
                              f"are never considered again")
            else:
                ctx.proved("E11", f.file, f.short, it, f"one-shot `{name}`", "consumed in the scope that creates it, once per creation")
    if not bad:
        ctx.proved("E11", "graphtage/", "-", None, "no re-walked one-shot iterator",
                   f"{scanned} functions scanned, {n} uses of locally bound one-shot iterators, none inside an outer loop "
                   f"(embedded positive and negative examples judged as expected)")
    ctx.floor("E11", scanned, 500, "functions scanned for one-shot iterators")
