"""C04 witness: MultiSetEdit.bounds() charges the LARGEST surplus members of the bigger collection (to both ends of the
interval), whichever members the matching actually leaves unmatched.  When the matching pairs a big member, the
interval - from the initial one to the final single value - does not contain the cost of the edits the object lists.

{"abcdefghijklmnop": 1, "x": 2, "y": 3} -> {"abcdefghijklmnoq": 1}   (default options)
  listed edits: rename the long key (2) + remove "x": 2 (5) + remove "y": 3 (5) = 12
  bounds():     [25, 57] -> [27, 43] -> [27, 27]

Exit status 1 when the violation shows, 0 otherwise.
"""
import logging
import sys

logging.disable(logging.CRITICAL)

from graphtage import IntegerNode, MultiSetNode, StringNode
from graphtage import json as gjson
from graphtage.printer import DEFAULT_PRINTER
from graphtage.tree import explode_edits

DEFAULT_PRINTER.quiet = True

problems = []


def check(name, from_tree, to_tree):
    edit = from_tree.edits(to_tree)
    history = [edit.bounds()]
    steps = 0
    while edit.tighten_bounds():
        history.append(edit.bounds())
        steps += 1
        if steps > 10000:
            problems.append(f"{name}: no convergence")
            return
    final = edit.bounds()
    history.append(final)
    listed = list(explode_edits(edit))
    for leaf in listed:
        while leaf.tighten_bounds():
            pass
    script_cost = sum(leaf.bounds().upper_bound for leaf in listed)
    reported = sum(e.bounds().upper_bound for e in from_tree.get_all_edits(to_tree))
    outside = [str(h) for h in history if not (h.lower_bound <= script_cost <= h.upper_bound)]
    if outside:
        problems.append(
            f"{name}: {type(edit).__name__} lists edits costing {script_cost} (get_all_edits: {reported}), but its "
            f"intervals {[str(h) for h in history]} exclude that value (final single value {final})"
        )


# 1. through the JSON builder, default options (dictionaries with key edits)
check(
    "json dict, removal surplus",
    gjson.build_tree({"abcdefghijklmnop": 1, "x": 2, "y": 3}),
    gjson.build_tree({"abcdefghijklmnoq": 1}),
)
check(
    "json dict, insertion surplus",
    gjson.build_tree({"abcdefghijklmnoq": 1}),
    gjson.build_tree({"abcdefghijklmnop": 1, "x": 2, "y": 3}),
)
# 2. a plain multiset (no repeated members anywhere)
check(
    "multiset of strings",
    MultiSetNode([StringNode("abcdefghijklmnop"), StringNode("x"), StringNode("y")]),
    MultiSetNode([StringNode("abcdefghijklmnoq")]),
)

if problems:
    print("C04 violated (MultiSetEdit charges the largest surplus members, not the unmatched ones):")
    for p in problems:
        print("  -", p)
    sys.exit(1)
print("no violation observed")
sys.exit(0)
