"""C05 ("... and never raises an internal error"): refining or listing the edit between two byte strings raises
TypeError, whatever the order of the calls; only bounds() / is_complete() / valid can be asked."""
import sys
import traceback

from graphtage import StringNode, pydiff
from graphtage.printer import DEFAULT_PRINTER

DEFAULT_PRINTER.quiet = True


def drive(make_trees, order):
    a, b = make_trees()
    edit = a.edits(b)
    for op in order:
        if op == "bounds":
            edit.bounds()
        elif op == "complete":
            edit.is_complete()
        elif op == "valid":
            _ = edit.valid
        elif op == "tighten":
            while edit.tighten_bounds():
                pass
        elif op == "nonzero":
            edit.has_non_zero_cost()
        elif op == "diff":
            a.diff(b)
        elif op == "all_edits":
            list(a.get_all_edits(b))
    return edit.bounds()


def main() -> int:
    pairs = {
        "pydiff.build_tree(b'abc') / pydiff.build_tree(b'abd')":
            lambda: (pydiff.build_tree(b"abc"), pydiff.build_tree(b"abd")),
        "pydiff.build_tree({'k': b'hello'}) / pydiff.build_tree({'k': b'hallo'})":
            lambda: (pydiff.build_tree({"k": b"hello"}), pydiff.build_tree({"k": b"hallo"})),
        "StringNode(b'xyz') / StringNode(b'xaz')":
            lambda: (StringNode(b"xyz"), StringNode(b"xaz")),
    }
    orders = [("bounds", "complete", "valid"), ("tighten",), ("bounds", "tighten"), ("nonzero",), ("diff",),
              ("all_edits",)]
    failed = False
    for name, make in pairs.items():
        for order in orders:
            try:
                drive(make, order)
            except Exception as e:  # an internal error: TypeError from len() of an int
                failed = True
                tb = traceback.extract_tb(e.__traceback__)[-1]
                print(f"{name}: calls {order} raised {type(e).__name__}: {e} "
                      f"({tb.filename.split('/')[-1]}:{tb.lineno} in {tb.name})")
    return 1 if failed else 0


if __name__ == "__main__":
    sys.exit(main())
