"""C04 witness: an alternative that prices itself out ("remove the old node, insert the new one") widens to
(-inf, +inf), and the search that contains it stops on an interval that is not a single value.

candidates for  "hello world" -> "help the world":
    1. the node's own edit (StringEdit, cost 7)
    2. EditSequence(Remove(old), Insert(new))   (cost 11+1 + 14+1 = 27)
"""
import logging
import sys

logging.disable(logging.CRITICAL)

from graphtage import StringNode
from graphtage.edits import EditSequence, Insert, PossibleEdits, Remove
from graphtage.printer import DEFAULT_PRINTER

DEFAULT_PRINTER.quiet = True

problems = []


def nodes():
    return StringNode("hello world"), StringNode("help the world")


def drive(name, bounded, expected=None):
    print(f"{name}: initial {bounded.bounds()}")
    for step in range(1, 500):
        before = bounded.bounds()
        progressed = bounded.tighten_bounds()
        after = bounded.bounds()
        print(f"  step {step}: tighten_bounds() -> {progressed}, {before} -> {after}")
        if after.lower_bound < before.lower_bound or after.upper_bound > before.upper_bound:
            problems.append(f"{name} step {step}: the interval widened from {before} to {after}")
        if progressed and after == before:
            problems.append(f"{name} step {step}: progress reported, but the interval stayed {after}")
        if not progressed:
            if not after.definitive():
                problems.append(f"{name} step {step}: no progress reported on the non-definitive interval {after}")
            break
    if expected is not None and bounded.bounds().definitive() and bounded.bounds().upper_bound != expected:
        problems.append(f"{name}: final bounds {bounded.bounds()}, expected {expected}")


# the remove-and-insert alternative on its own
old, new = nodes()
remove_insert_cost = Remove(old, old).bounds().upper_bound + Insert(new, old).bounds().upper_bound
drive("EditSequence(Remove, Insert)", EditSequence(old, new, iter([Remove(old, old), Insert(new, old)])),
      expected=remove_insert_cost)

# the search over both alternatives
old, new = nodes()
direct = old.edits(new)
while direct.tighten_bounds():
    pass
optimum = direct.bounds().upper_bound
old, new = nodes()
search = PossibleEdits(old, new, iter([
    old.edits(new),
    EditSequence(old, new, iter([Remove(old, old), Insert(new, old)]))
]))
drive("PossibleEdits", search, expected=optimum)
print(f"optimum {optimum}; PossibleEdits ends at {search.bounds()}, best possibility {search.best_possibility()!r} "
      f"with bounds {search.best_possibility().bounds() if search.best_possibility() is not None else None}")

if problems:
    print("C04 VIOLATED:")
    for p in problems:
        print("  - " + p)
    sys.exit(1)
print("ok")
sys.exit(0)
