"""CLI: python -m gtstatic <PROPERTY> [--tier quick|thorough] [--repo DIR] [--no-write] [--explain REPORT]"""
import argparse
import importlib
import json
import os
import sys
import time

from . import core
from .model import Model


def run_rules(prop, repo, tier, quiet=False):
    model = Model(repo)
    ctx = core.Ctx(prop, model, tier, quiet)
    mod = importlib.import_module(f"gtstatic.rules.{prop.lower()}")
    try:
        mod.run(ctx)
    except core.Inconclusive as e:
        ctx.inconclusive("engine", "-", "-", None, str(e), f"analysis does not recognise the code shape: {e}")
    return ctx


def main(argv=None):
    ap = argparse.ArgumentParser(prog="gtstatic")
    ap.add_argument("prop", nargs="?")
    ap.add_argument("--tier", default=os.environ.get("VERIF_TIER", "quick"), choices=["quick", "thorough"])
    ap.add_argument("--repo", default=core.DEFAULT_REPO)
    ap.add_argument("--no-write", action="store_true")
    ap.add_argument("--explain")
    ap.add_argument("--replay")
    a = ap.parse_args(argv)
    if a.explain or a.replay:
        with open(a.explain or a.replay) as f:
            rep = json.load(f)
        print(f"property {rep['property']} ({rep['tier']}) on {rep['repo']}")
        for v in rep["violations"]:
            print(f"  rule {v['rule']} at {v['where']} in {v['function']}\n    {v['detail']}\n    key: {v['key']}")
            for s in v.get("path", []):
                print(f"    path: {s}")
        if a.explain:
            return 0
        a.prop = rep["property"]
    if not a.prop:
        ap.error("property id required")
    seed = int(os.environ.get("VERIF_SEED", "0") or 0)
    t0 = time.time()

    def go():
        ctx = run_rules(a.prop.upper(), a.repo, a.tier)
        if a.tier == "thorough":
            from . import thorough
            thorough.extend(ctx)
        code, text = core.finish(ctx, t0, seed=seed, write=not a.no_write)
        print(text)
        return code
    return core.guarded(go)


if __name__ == "__main__":
    sys.stdout.flush()
    code = main()
    sys.stdout.flush()
    os._exit(code if isinstance(code, int) else 2)
