"""C04 witness: a fixed-key dictionary entry whose value is a chain of AST Subscript nodes.

`{'k': a[1][1]...[1]}` -> `{'k': a[None][None]...[None]}` (12 subscripts), parsed with the public
graphtage.pydiff.ast_to_tree and BuildOptions(allow_key_edits=False).
The FixedKeyDictNodeEdit starts at a finite interval, then reports (-inf, +inf) and finally answers
tighten_bounds() == False on a non-definitive interval.
"""
import ast
import logging
import signal
import sys

logging.disable(logging.CRITICAL)

from graphtage import BuildOptions
from graphtage.pydiff import ast_to_tree
from graphtage.printer import DEFAULT_PRINTER

DEFAULT_PRINTER.quiet = True

N = 12
opts = BuildOptions(allow_key_edits=False)
tree_a = ast_to_tree(ast.parse("{'k': a" + "[1]" * N + "}"), opts)
tree_b = ast_to_tree(ast.parse("{'k': a" + "[None]" * N + "}"), opts)
dict_a, dict_b = tree_a.children()[0], tree_b.children()[0]

problems = []


def on_alarm(signum, frame):
    raise TimeoutError()


signal.signal(signal.SIGALRM, on_alarm)

# 0. the cost the engine itself settles on for the only entry of the dictionary
value_edit = list(dict_a)[0].value.edits(list(dict_b)[0].value)
while value_edit.tighten_bounds():
    pass
value_cost = value_edit.bounds().upper_bound
print(f"final cost of the value edit ({type(value_edit).__name__}): {value_edit.bounds()}")

# 1. the dictionary edit on its own
edit = dict_a.edits(dict_b)
history = [edit.bounds()]
print(f"{type(edit).__name__}: initial bounds {history[0]}")
if not (history[0].lower_bound <= value_cost <= history[0].upper_bound):
    problems.append(f"the initial interval {history[0]} of the dictionary edit does not contain the cost {value_cost} "
                    f"of its only entry")
signal.alarm(20)
try:
    for step in range(1, 200):
        before = edit.bounds()
        progressed = edit.tighten_bounds()
        after = edit.bounds()
        history.append(after)
        print(f"  step {step}: tighten_bounds() -> {progressed}, bounds {before} -> {after}")
        if after.lower_bound < before.lower_bound or after.upper_bound > before.upper_bound:
            problems.append(f"step {step}: the interval widened from {before} to {after}")
        if progressed and after == before:
            problems.append(f"step {step}: progress reported but the interval is unchanged ({after})")
        if not progressed:
            if not after.definitive():
                problems.append(f"step {step}: no progress reported on the non-definitive interval {after}")
            break
except TimeoutError:
    problems.append("tightening the dictionary edit did not finish within 20 seconds")
finally:
    signal.alarm(0)

# 2. the enclosing module edit (what TreeNode.diff() refines) must finish as well
module_edit = tree_a.edits(tree_b)
signal.alarm(20)
try:
    steps = 0
    while module_edit.tighten_bounds():
        steps += 1
    if not module_edit.bounds().definitive():
        problems.append(f"module edit stopped at the non-definitive interval {module_edit.bounds()}")
except TimeoutError:
    problems.append(f"{type(module_edit).__name__}.tighten_bounds() of the enclosing module did not return within "
                    f"20 seconds (bounds now {module_edit.bounds()})")
finally:
    signal.alarm(0)

if problems:
    print("C04 VIOLATED:")
    for p in problems:
        print("  - " + p)
    sys.exit(1)
print("ok")
sys.exit(0)
