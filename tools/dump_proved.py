#!/venv/bin/python
"""Print every PROVED instance (rule, function, detail) of one or all properties, for auditing what is claimed."""
import sys, os
sys.path.insert(0, os.path.dirname(os.path.dirname(os.path.abspath(__file__))))
from gtstatic.__main__ import run_rules
props = sys.argv[1:] or ["C%02d" % i for i in range(1, 21) if i != 11]
for p in props:
    ctx = run_rules(p, "/repo", "quick", quiet=True)
    print(f"== {p}")
    for i in ctx.instances:
        if i.verdict == "PROVED":
            print(f"  {i.rule:6} {i.func}: {i.detail[:230]}")
