"""C13 witness 2: two pickles whose bytes values differ cannot be compared in any output format or mode.

Exit status: 1 if the internal error shows, 0 otherwise.
"""
import os
import pickle
import subprocess
import sys
import tempfile

HERE = os.path.dirname(os.path.abspath(__file__))


def graphtage(*args):
    p = subprocess.run([sys.executable, "-m", "graphtage", "--no-status", *args], capture_output=True, text=True)
    return p.returncode, p.stdout, p.stderr


def main():
    failures = []
    with tempfile.TemporaryDirectory(dir=HERE) as d:
        a, b, c = (os.path.join(d, n) for n in ("a.pkl", "b.pkl", "c.pkl"))
        with open(a, "wb") as f:
            pickle.dump([b"abc"], f, protocol=4)
        with open(b, "wb") as f:
            pickle.dump([b"abd"], f, protocol=4)
        with open(c, "wb") as f:
            pickle.dump(["abd"], f, protocol=4)   # bytes -> str of the same length
        for other, label in ((b, "bytes vs bytes"), (c, "bytes vs str")):
            for opts in (("-f", "json"), ("-f", "pickle"), ("-f", "pickle", "-e"), ("-f", "xml", "-d"),
                         ("-f", "plist", "--html")):
                rc, out, err = graphtage(a, other, *opts)
                if rc not in (0, 1) or "Traceback" in err:
                    last = err.strip().splitlines()[-1] if err.strip() else ""
                    failures.append(f"{label}: graphtage a.pkl other.pkl {' '.join(opts)} -> rc={rc}: {last}")
    if failures:
        print("VIOLATION: pickles with differing bytes values cannot be diffed/rendered")
        for f in failures:
            print("  " + f)
        return 1
    print("ok: differing bytes values are diffed and rendered")
    return 0


if __name__ == "__main__":
    sys.exit(main())
