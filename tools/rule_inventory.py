#!/venv/bin/python
"""Print, per property, the rules that ran on /repo with their instance counts and verdicts (for DESIGN.md 10.11)."""
import sys, os, collections
sys.path.insert(0, os.path.dirname(os.path.dirname(os.path.abspath(__file__))))
from gtstatic.__main__ import run_rules
from gtstatic import core
props = sys.argv[1:] or ["C%02d" % i for i in range(1, 21) if i != 11]
print("| id | rules: instances (P proved / K known finding) | floors |")
print("|---|---|---|")
for p in props:
    ctx = run_rules(p, "/repo", "quick", quiet=True)
    core.apply_known(ctx, core.load_known())
    per = collections.OrderedDict()
    for i in ctx.instances:
        d = per.setdefault(i.rule, collections.Counter())
        d[i.verdict] += 1
    cells = []
    for r, c in per.items():
        bits = [f"{c.get(core.PROVED, 0)}P"]
        if c.get(core.KNOWN, 0): bits.append(f"{c[core.KNOWN]}K")
        if c.get(core.VIOLATION, 0): bits.append(f"{c[core.VIOLATION]}V!")
        if c.get(core.INCONCLUSIVE, 0): bits.append(f"{c[core.INCONCLUSIVE]}?")
        cells.append(f"{r} {'/'.join(bits)}")
    print(f"| {p} | {', '.join(cells)} | {len(ctx.floors)} |")
