"""C05 - results do not depend on how the edit API is driven or on status settings.

R05a freed-state typestate (E2); R05b status-dependent code is effect-free; R05c one-shot iterators are replayable.
"""
import ast

from ..astx import self_attr, dotted, walk_no_nested, parent, call_name, assigned_names, flatten_conditions, \
    dominating_conditions
from ..core import norm
from ..typestate import ClassAnalysis, NN

PRINT_MODULES = {"graphtage.printer", "graphtage.progress", "graphtage.__main__", "graphtage.debug"}
STATE_ATTRS = {"quiet", "ansi_color"}
STATE_CALLS = {"isatty"}


def bounded_classes(m):
    """Classes implementing the Bounded/Edit protocol (define or inherit tighten_bounds and bounds)."""
    out = []
    for q in m.classes:
        if m.method(q, "tighten_bounds") is not None and m.method(q, "bounds") is not None:
            out.append(q)
    return out


def r05a(ctx):
    m = ctx.model
    ctx.rule("R05a", "typestate of lazily freed fields: every dereference of a field that some method sets to None "
                     "is non-null on all paths, for any order of public calls")
    scope = set(bounded_classes(m))
    fields_in_scope = set()
    nsites = 0
    analysed = []
    for q in sorted(m.classes):
        ca = ClassAnalysis(m, q)
        if not ca.fields:
            continue
        ca.analyse()
        short = q.rsplit(".", 1)[-1]
        if q not in scope:
            bad = [s for s in ca.sites if not s["ok"]]
            ctx.note(f"R05a out of scope (not a Bounded/Edit class): {short} nullable={sorted(ca.fields)} "
                     f"derefs={len(ca.sites)} unguarded={len(bad)} (preconditions of that class; see DESIGN A.3)")
            continue
        analysed.append(short)
        # only report sites in methods this class defines or inherits from an in-scope class once (by owner)
        grouped = {}
        for s in ca.sites:
            owner = ca.owner.get(s["method"], q)
            if owner != q and owner in scope and any(f in ClassAnalysis(m, owner).fields for f in [s["field"]]):
                # the defining class is analysed on its own; a subclass re-analysis matters only if it overrides
                if not (ca.own - {"__init__"}):
                    continue
            fields_in_scope.add((short, s["field"]))
            nsites += 1
            file = m.files[m.classes[owner][0]]
            func = f"{owner.rsplit('.', 1)[-1]}.{s['method']}"
            if s["ok"]:
                ctx.proved("R05a", file, func, s["node"], f"{s['field']}:{norm(s['node'], 60)}",
                           f"dereference of self.{s['field']} is non-null on all paths")
            else:
                grouped.setdefault((file, func, s["field"]), []).append(s)
        for (file, func, field), sites in grouped.items():
            meth = func.split(".", 1)[1]
            entry = ca.entry.get(meth)
            path = []
            if meth.startswith("_") and not meth.startswith("__") and entry is not None and entry.get(field) != NN:
                for (caller, line), st in sorted(ca.entry_sources.get(meth, {}).items()):
                    if st.get(field) != NN:
                        path.append(f"entered from {short}.{caller} line {line} with self.{field} maybe-None")
            for s in sites[1:]:
                path.append(f"also unguarded: line {s['node'].lineno}: {norm(s['node'], 60)}")
            s0 = sites[0]
            ctx.violation("R05a", file, func, s0["node"], f"{field}:{norm(s0['node'], 60)}",
                          f"self.{field} may be None here (freed by {sorted(k for k, v in ca.may_nullify.items() if field in v)}) "
                          f"and is dereferenced: {norm(s0['node'], 80)}; {len(sites)} unguarded read(s) in this method",
                          path=path or None)
    ctx.floor("R05a", len(fields_in_scope), 3, "freed fields in Bounded/Edit classes")
    ctx.floor("R05a-sites", nsites, 15, "dereference sites of freed fields")
    ctx.extra = getattr(ctx, "extra", {})
    ctx.extra["R05a_classes"] = analysed
    ctx.extra["R05a_fields"] = sorted(f"{c}.{f}" for c, f in fields_in_scope)


# ---------------------------------------------------------------------------------------------- R05b
def state_sources(fn):
    """Expressions that read printer/status state inside fn."""
    out = []
    for n in walk_no_nested(fn):
        if isinstance(n, ast.Attribute) and n.attr in STATE_ATTRS and isinstance(n.ctx, ast.Load):
            out.append(n)
        elif isinstance(n, ast.Call) and isinstance(n.func, ast.Attribute) and n.func.attr in STATE_CALLS:
            out.append(n)
    return out


def effect_of_stmt(s, effectful_self_methods):
    """List of (node, why) effects on edit state / control flow in a statement subtree."""
    eff = []
    for n in walk_no_nested(s):
        if isinstance(n, (ast.Return, ast.Break, ast.Continue, ast.Raise, ast.Yield, ast.YieldFrom)):
            eff.append((n, f"control transfer `{type(n).__name__.lower()}`"))
        elif isinstance(n, (ast.Attribute, ast.Subscript)) and isinstance(getattr(n, "ctx", None), (ast.Store, ast.Del)):
            d = dotted(n if isinstance(n, ast.Attribute) else n.value)
            if d and d.startswith("self."):
                eff.append((n, f"store to {d}"))
        elif isinstance(n, ast.Call) and isinstance(n.func, ast.Attribute):
            a = n.func.attr
            if a in ("tighten_bounds", "edits", "on_diff", "remove_best", "search", "pop", "push", "append",
                     "clear", "decrease_key"):
                recv = dotted(n.func.value) or norm(n.func.value, 40)
                if a in ("append", "pop", "push", "clear") and not recv.startswith("self"):
                    continue
                eff.append((n, f"state-changing protocol call .{a}() on {recv}"))
            elif self_attr(n.func) in effectful_self_methods:
                eff.append((n, f"call of self.{a}() which writes edit state"))
    return eff


def r05b(ctx):
    m = ctx.model
    ctx.rule("R05b", "code of the comparison engine that is control- or data-dependent on printer/status state "
                     "(quiet, ansi_color, isatty) is effect-free: no return/break/raise, no store to self, no "
                     "state-changing protocol call")
    n_src = 0
    for f in sorted(m.functions.values(), key=lambda f: f.qual):
        if f.module in PRINT_MODULES or ".<locals>." in f.qual:
            continue
        name = f.node.name
        if name == "print" or name.startswith(("print_", "write", "_print", "item_newline", "context")):
            continue
        if f.cls and m.is_subclass(f.cls, "graphtage.formatter.Formatter"):
            continue
        srcs = state_sources(f.node)
        if not srcs:
            continue
        n_src += len(srcs)
        # methods of the same class that write self state (one level, closed transitively)
        eff_methods = set()
        if f.cls:
            defs = {k: v[1].node for k, v in m.attrs[f.cls].items() if v[0] == "def"}
            changed = True
            while changed:
                changed = False
                for k, node in defs.items():
                    if k in eff_methods:
                        continue
                    for n in walk_no_nested(node):
                        if isinstance(n, (ast.Attribute, ast.Subscript)) and isinstance(getattr(n, "ctx", None), ast.Store):
                            d = dotted(n if isinstance(n, ast.Attribute) else n.value)
                            if d and d.startswith("self."):
                                eff_methods.add(k)
                                changed = True
                                break
                        if isinstance(n, ast.Call) and self_attr(n.func) in eff_methods:
                            eff_methods.add(k)
                            changed = True
                            break
        # taint: names assigned under state-dependent control or from state-dependent values
        tainted = set()
        tests = []   # (stmt, test) control statements whose test is state dependent

        def dep(e):
            for n in ast.walk(e):
                if n in srcs:
                    return True
                if isinstance(n, ast.Name) and isinstance(n.ctx, ast.Load) and n.id in tainted:
                    return True
            return False
        for _ in range(5):
            before = (len(tainted), len(tests))
            for n in walk_no_nested(f.node):
                if isinstance(n, (ast.If, ast.While)) and dep(n.test) and n not in [t[0] for t in tests]:
                    tests.append((n, n.test))
                if isinstance(n, ast.IfExp) and dep(n.test) and n not in [t[0] for t in tests]:
                    tests.append((n, n.test))
                if isinstance(n, (ast.Assign, ast.AnnAssign, ast.AugAssign)) and n.value is not None and dep(n.value):
                    for t in (n.targets if isinstance(n, ast.Assign) else [n.target]):
                        for x in ast.walk(t):
                            if isinstance(x, ast.Name) and isinstance(x.ctx, ast.Store):
                                tainted.add(x.id)
                        if isinstance(t, ast.Subscript) and isinstance(t.value, ast.Name):
                            tainted.add(t.value.id)    # container[...] = tainted value
            for st, _ in tests:
                if isinstance(st, (ast.If, ast.While)):
                    for b in st.body + st.orelse:
                        for nm in assigned_names(b):
                            if "." not in nm:
                                tainted.add(nm)
            if (len(tainted), len(tests)) == before:
                break
        func = f.short
        if not tests:
            for s in srcs:
                ctx.proved("R05b", f.file, func, s, norm(s), "status state is read but controls nothing here",
                           nontrivial=False)
        for st, test in tests:
            effs = []
            # short-circuit: an effectful operand evaluated only if a state-dependent operand allows it
            for bo in ast.walk(test):
                if isinstance(bo, ast.BoolOp):
                    seen_dep = False
                    for v in bo.values:
                        if seen_dep:
                            effs += [(n_, w + " (in a short-circuit test)") for n_, w in effect_of_stmt(ast.Expr(value=v), eff_methods)]
                        if dep(v):
                            seen_dep = True
            if isinstance(st, (ast.If, ast.While)):
                for b in st.body + st.orelse:
                    effs += effect_of_stmt(b, eff_methods)
            if effs:
                node, why = effs[0]
                ctx.violation("R05b", f.file, func, node, f"{norm(test, 60)} => {norm(node, 60)}",
                              f"{why} is control-dependent on status/printer state `{norm(test, 60)}` "
                              f"(line {st.lineno}); results may differ between quiet/non-quiet or colour settings",
                              path=[f"line {n.lineno}: {w}" for n, w in effs[1:6]] or None)
            else:
                ctx.proved("R05b", f.file, func, st, norm(test, 80),
                           "status-dependent branch only computes display values (no control transfer, no store to "
                           "self, no state-changing protocol call)")
    ctx.floor("R05b", n_src, 1, "printer-state reads in engine code")


# ---------------------------------------------------------------------------------------------- R05c
def r05c(ctx):
    m = ctx.model
    ctx.rule("R05c", "values taken from a one-shot iterator field by next() are retained (pushed into a replay "
                     "buffer or re-chained) on every path, so scripts can be listed repeatedly")
    n = 0
    for q in bounded_classes(m):
        mod, cls = m.classes[q]
        own = [s for s in cls.body if isinstance(s, ast.FunctionDef)]
        for fn in own:
            for st in walk_no_nested(fn):
                if not (isinstance(st, (ast.Assign, ast.AnnAssign)) and isinstance(st.value, ast.Call)
                        and call_name(st.value) == "next" and st.value.args
                        and self_attr(st.value.args[0])):
                    continue
                field = self_attr(st.value.args[0])
                tgt = st.targets[0] if isinstance(st, ast.Assign) else st.target
                if not isinstance(tgt, ast.Name):
                    continue
                v = tgt.id
                n += 1
                func = f"{q.rsplit('.', 1)[-1]}.{fn.name}"
                lst = parent(st)
                body = None
                for fld in ("body", "orelse", "finalbody"):
                    b = getattr(lst, fld, None)
                    if isinstance(b, list) and st in b:
                        body = b[b.index(st) + 1:]
                bad = _paths_without_retain(body or [], v, field)
                if bad:
                    ctx.violation("R05c", m.files[mod], func, bad[0], f"next(self.{field})",
                                  f"`{v} = next(self.{field})` consumes the one-shot iterator but on the path ending "
                                  f"at line {bad[0].lineno} the value is neither stored in a buffer nor re-chained; "
                                  f"a later edits()/best_match would not see it again")
                else:
                    ctx.proved("R05c", m.files[mod], func, st, f"next(self.{field})",
                               f"every path after `{v} = next(self.{field})` retains {v}")
    ctx.floor("R05c", n, 2, "next(self.<iterator field>) sites in Bounded/Edit classes")


def _retains(s, v, field):
    for n in ast.walk(s):
        if isinstance(n, ast.Call):
            args = list(n.args) + [k.value for k in n.keywords]
            if any(isinstance(a, ast.Name) and a.id == v for a in args):
                if isinstance(n.func, ast.Attribute) and (n.func.attr in ("append", "push", "add", "_add")
                                                           or self_attr(n.func) is not None):
                    if self_attr(n.func) in ("_is_tightened",):
                        continue
                    return True
        if isinstance(n, ast.Assign) and any(self_attr(t) == field for t in n.targets):
            if any(isinstance(x, ast.Name) and x.id == v for x in ast.walk(n.value)):
                return True
    return False


def _paths_without_retain(stmts, v, field, retained=False):
    """Return the terminating nodes of paths that end without retaining v (syntactic path enumeration)."""
    bad = []
    for i, s in enumerate(stmts):
        if isinstance(s, ast.If):
            rest = stmts[i + 1:]
            for branch in (s.body, s.orelse):
                bad += _paths_without_retain(branch + rest, v, field, retained)
            return bad
        if isinstance(s, (ast.Continue, ast.Break)):
            # the value is dropped for good unless it was retained; dropping is sound only for a candidate that is STRICTLY
            # worse than something held (upper < lower); `dominates()` / `<=` also drops a candidate that ties with the optimum
            if not retained:
                conds = [ast.unparse(t).replace(" ", "") for t, pol in flatten_conditions(dominating_conditions(s)) if pol]
                strict = conds and all(("upper_bound<" in c_ and "lower_bound" in c_ and "<=" not in c_ and ".dominates(" not in c_) or v not in c_
                                       for c_ in conds) and any(v in c_ for c_ in conds)
                if not strict:
                    bad.append(s)
            return bad
        if isinstance(s, (ast.Return, ast.Raise)):
            if not retained and not (isinstance(s, ast.Return) and s.value is not None and _retains(s, v, field)):
                if isinstance(s, ast.Raise):
                    return bad
                bad.append(s)
            return bad
        if _retains(s, v, field):
            retained = True
    if not retained and stmts:
        bad.append(stmts[-1])
    elif not retained:
        pass
    return bad


def r05d(ctx):
    m = ctx.model
    ctx.rule("R05d", "WeightedBipartiteMatcher.matching solves the assignment only after _make_edges_distinct() has run "
                     "unconditionally (listing sub-edits before refining must give the same pairing as refining first)")
    q = m.need_class("WeightedBipartiteMatcher")
    f = m.method(q, "matching")
    from ..astx import block_of

    def preds(node, fn_node):
        """unconditional `self._make_edges_distinct()` statements earlier in the block of `node` or in an enclosing block"""
        out, cur = [], node
        while not isinstance(cur, ast.stmt):
            cur = parent(cur)
        while cur is not None and cur is not fn_node:
            lst, idx = block_of(cur) if isinstance(cur, ast.stmt) else (None, None)
            if lst is not None:
                out += [x for x in lst[:idx] if isinstance(x, ast.Expr) and isinstance(x.value, ast.Call)
                        and self_attr(x.value.func) == "_make_edges_distinct"]
            cur = parent(cur)
        return out
    # the property and the methods of the class it calls (for their effect or for their value), two levels: (function, chain of
    # call sites that lead to it)
    region, frontier = [(f, [])], [(f, [])]
    for _ in range(2):
        nxt = []
        for g, chain in frontier:
            for c in walk_no_nested(g.node):
                hname = self_attr(c.func) if isinstance(c, ast.Call) else None
                h = m.method(q, hname) if hname and hname not in ("_make_edges_distinct", "matching") else None
                if h is not None and all(h is not g2 for g2, _ in region):
                    region.append((h, chain + [(c, g)]))
                    nxt.append((h, chain + [(c, g)]))
        frontier = nxt
    solve = [(c, g, chain) for g, chain in region for c in walk_no_nested(g.node)
             if isinstance(c, ast.Call) and (call_name(c) or "").endswith("min_weight_bipartite_matching")]
    ctx.floor("R05d", len(solve), 1, "solver calls in WeightedBipartiteMatcher.matching and the methods it calls")
    for c, g, chain in solve:
        pre = preds(c, g.node) + [x for site, owner in chain for x in preds(site, owner.node)]
        if pre:
            ctx.proved("R05d", f.file, "WeightedBipartiteMatcher.matching", c, "distinct before solve",
                       "self._make_edges_distinct() is called unconditionally before the solver on the way to it")
        else:
            anyc = [x for g2, _ in region for x in walk_no_nested(g2.node) if isinstance(x, ast.Call) and self_attr(x.func) == "_make_edges_distinct"]
            how = f"it is only called under a condition (line {anyc[0].lineno})" if anyc else "it is never called"
            ctx.violation("R05d", f.file, "WeightedBipartiteMatcher.matching", c, "distinct before solve",
                          f"the assignment is solved on the edges' current upper bounds but _make_edges_distinct() does not "
                          f"necessarily run first ({how}): calling edits() before refining yields a different (non-optimal) "
                          f"pairing than refining first")


def r05e(ctx):
    m = ctx.model
    ctx.rule("R05e", "the two library drivers refine an edit under the same condition: TreeNode.diff and "
                     "TreeNode.get_all_edit_contexts both loop `while edit.valid and not edit.is_complete() and "
                     "edit.tighten_bounds()` (so the annotated tree and the flat edit list come from the same refinement)")
    tn = m.need_class("TreeNode")
    tests = {}
    for name in ("diff", "get_all_edit_contexts"):
        f = m.method(tn, name)
        def refine_loops(fn_node):
            return [x for x in walk_no_nested(fn_node) if isinstance(x, ast.While) and any(
                isinstance(c, ast.Call) and isinstance(c.func, ast.Attribute) and c.func.attr == "tighten_bounds" for c in ast.walk(x.test))]
        # (position in f, loop): own loops, and the loops of helpers f calls (a module-level function or a method of the class)
        cands = [(x.lineno, x) for x in refine_loops(f.node)]
        for c in walk_no_nested(f.node):
            if not isinstance(c, ast.Call):
                continue
            h = None
            if isinstance(c.func, ast.Name):
                r_ = m.resolve_expr(f.module, c.func)
                h = m.functions.get(r_[0][1]) if r_ and r_[0] and r_[0][0] == "func" else None
            elif self_attr(c.func):
                h = m.method(tn, self_attr(c.func))
            if h is not None and h.node is not f.node and h.node.name not in ("diff", "get_all_edit_contexts", "get_all_edits"):
                cands += [(c.lineno, x) for x in refine_loops(h.node)]
        cands.sort(key=lambda t: t[0])
        tests[name] = (f, cands[0][1] if cands else None)
    if all(v[1] is not None for v in tests.values()):
        def shape(wn):
            recv = next((dotted(c.func.value) for c in ast.walk(wn.test) if isinstance(c, ast.Call)
                         and isinstance(c.func, ast.Attribute) and c.func.attr == "tighten_bounds"), "edit")
            return ast.unparse(wn.test).replace(" ", "").replace("(", "").replace(")", "").replace(recv + ".", "E.")
        a, b = (shape(v[1]) for v in tests.values())
        f, w = tests["get_all_edit_contexts"]
        want = "E.validandnotE.is_completeandE.tighten_bounds"
        if a == b == want:
            ctx.proved("R05e", f.file, "TreeNode.get_all_edit_contexts", w, "driver loops agree", f"both drivers loop while `{norm(w.test)}`")
        else:
            ctx.violation("R05e", f.file, "TreeNode.get_all_edit_contexts", w, "driver loops agree",
                          f"TreeNode.diff refines while `{a}` but get_all_edit_contexts while `{b}` (expected `{want}` in both): the "
                          f"diff tree and the flat list of edits are produced from differently refined edits, so their scripts or "
                          f"totals can differ")
    else:
        ctx.inconclusive("R05e", "graphtage/tree.py", "TreeNode", None, "driver loops", "refinement loop not found in diff / get_all_edit_contexts")


def r05f(ctx):
    m = ctx.model
    ctx.rule("R05f", "listing is re-entrant: EditCollection expands its sub-edits lazily from ONE shared iterator, which "
                     "tighten_bounds() and every edits() generator advance; a generator must therefore yield from the shared "
                     "collection by position after each expansion - yielding the value _expand_edits() handed to itself skips "
                     "whatever others expanded while it was suspended")
    q = m.need_class("EditCollection")
    f = m.method(q, "edits")
    ys = [y for y in walk_no_nested(f.node) if isinstance(y, ast.Yield) and y.value is not None]
    yf = [y for y in walk_no_nested(f.node) if isinstance(y, ast.YieldFrom)]
    ctx.floor("R05f", len(ys) + len(yf), 1, "yields of EditCollection.edits")
    direct = []
    for y in ys:
        v = y.value
        if isinstance(v, ast.Name):
            defs = [a for a in walk_no_nested(f.node) if isinstance(a, ast.Assign) and isinstance(a.targets[0], ast.Name) and a.targets[0].id == v.id]
            if any(isinstance(a.value, ast.Call) and self_attr(a.value.func) == "_expand_edits" for a in defs):
                direct.append(y)
        elif isinstance(v, ast.Call) and self_attr(v.func) == "_expand_edits":
            direct.append(y)
    snapshot = [y for y in yf if "self._sub_edits" in ast.unparse(y.value) and "islice" not in ast.unparse(y.value)]
    if direct or (snapshot and any(isinstance(c, ast.Call) and self_attr(c.func) == "_expand_edits" for c in walk_no_nested(f.node))):
        node = (direct or snapshot)[0]
        ctx.violation("R05f", f.file, "EditCollection.edits", node, "yield by position",
                      f"edits() yields `{norm(node.value, 40)}` - what it expanded itself - after a one-off pass over self._sub_edits; "
                      f"tighten_bounds() and other edits() iterators pull from the same self._edit_iter, so the sub-edits they "
                      f"expand in between are never yielded: `for s in e.edits(): e.tighten_bounds()` lists 2 of 5 sub-edits")
    else:
        ctx.proved("R05f", f.file, "EditCollection.edits", f.node, "yield by position",
                   "every yielded sub-edit is read from self._sub_edits by position; _expand_edits() is only used to grow it")


def run(ctx):
    r05a(ctx)
    r05e(ctx)
    r05b(ctx)
    r05c(ctx)
    r05d(ctx)
    from .c03 import r03d
    r03d(ctx)
    from .c04 import r04d
    r04d(ctx)    # a non-definitive cached interval makes results depend on the order bounds()/tighten_bounds() are called
    r05f(ctx)
    from .c04 import r04i
    r04i(ctx)    # the interval reported while the sub-edit iterator is open depends on what was refined first (and can invert)
    from .c13 import h13
    h13(ctx)     # byte strings raise an internal error in whatever order they are refined or listed
    from .c03 import r03h
    r03h(ctx)    # a matcher that collapses equal elements gives a cost (and termination) that depends on the call order
    ctx.assume("sub-edits hold no reference to the edit that owns them (calls on other objects do not change self's fields)")
    ctx.assume("CPython semantics of None dereference; third-party objects (numpy arrays, tqdm) are not freed behind the engine's back")
