"""C18 witness: TreeNode.copy() of a tree built from a Python object is "==" to the original but is not the same
tree: StringNode.quoted and KeyValuePairNode.allow_key_edits fall back to their defaults, so the copy of an object
tree prints differently from the tree it was copied from."""
import io
import sys

from graphtage import BuildOptions, KeyValuePairNode, StringNode
from graphtage import pydiff
from graphtage.printer import Printer


class Person:
    def __init__(self):
        self.name = "Ann"
        self.tags = {"a": 1}


def render(tree) -> str:
    out = io.StringIO()
    printer = Printer(out_stream=out, ansi_color=False, quiet=True)
    pydiff.PyDiffFormatter.DEFAULT_INSTANCE.print(printer, tree)
    printer.flush(final=True)
    return out.getvalue().strip()


def flags(tree):
    ret = []
    for node in tree.dfs():
        if isinstance(node, StringNode):
            ret.append((repr(node), "quoted", node.quoted))
        elif isinstance(node, KeyValuePairNode):
            ret.append((type(node).__name__, "allow_key_edits", node.allow_key_edits))
    return ret


bad = []
for allow_key_edits in (True, False):
    tree = pydiff.build_tree(Person(), BuildOptions(allow_key_edits=allow_key_edits))
    dup = tree.copy()
    if dup != tree:
        bad.append(f"allow_key_edits={allow_key_edits}: copy is not even == to the original")
    before, after = render(tree), render(dup)
    print(f"allow_key_edits={allow_key_edits}\n   original prints as: {before}\n   copy     prints as: {after}")
    if before != after:
        bad.append(f"allow_key_edits={allow_key_edits}: the copy prints differently: {before!r} vs {after!r}")
    for f_orig, f_copy in zip(flags(tree), flags(dup)):
        if f_orig != f_copy:
            bad.append(f"allow_key_edits={allow_key_edits}: {f_orig[0]}.{f_orig[1]} was {f_orig[2]}, is {f_copy[2]} "
                       f"in the copy")

if bad:
    print("\n".join(bad))
    sys.exit(1)
sys.exit(0)
