"""C12 witness: XML that uses a namespace (a prefixed or default-namespaced tag, or a prefixed attribute such as the
ubiquitous xml:lang) is printed with ElementTree's internal "{uri}local" names, which is not XML: the loader
rejects the printed text. Tags, attribute values and text are plain alphanumeric."""
import os
import sys
import tempfile
from io import StringIO

import graphtage
from graphtage.printer import Printer


def load(ft, text):
    fd, path = tempfile.mkstemp(suffix='.xml')
    try:
        with os.fdopen(fd, 'wb') as f:
            f.write(text.encode('utf-8'))
        return ft.build_tree(path)
    finally:
        os.unlink(path)


def main():
    ft = graphtage.FILETYPES_BY_TYPENAME['xml']
    bad = []
    for src in (
        '<a xml:lang="en">hello</a>',
        '<x:a xmlns:x="abc">hello</x:a>',
        '<a xmlns="abc"><b>hello</b></a>',
        '<a xmlns:x="abc" x:b="c" />',
    ):
        tree = load(ft, src)
        out = StringIO()
        ft.get_default_formatter().print(Printer(out_stream=out, ansi_color=False, quiet=True), tree)
        printed = out.getvalue()
        try:
            again = load(ft, printed)
        except Exception as e:
            bad.append(f'{src!r}: printed {printed!r} is rejected by the loader: {type(e).__name__}: {e}')
            continue
        if not (tree == again and again == tree):
            bad.append(f'{src!r}: printed {printed!r}; reloaded tree differs')
    if bad:
        print('VIOLATION: namespaced XML does not survive print + reload')
        for b in bad:
            print('  ' + b)
        return 1
    print('ok')
    return 0


if __name__ == '__main__':
    sys.exit(main())
