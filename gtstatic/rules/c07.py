"""C07 - diffing is a pure, deterministic function of its inputs.

R07a hash-order taint (E3); R07b nondeterministic primitives (who-may-call + reachability); R07c inputs are not written.
"""
import ast

from ..astx import dotted, self_attr, walk_no_nested, parent, call_name, func_params, kwarg, flatten_conditions, dominating_conditions
from ..callgraph import CallGraph, diff_entries
from ..core import norm

SET_ANN = ("Set", "set", "FrozenSet", "frozenset", "typing.Set", "typing.FrozenSet", "AbstractSet", "MutableSet")
INSENSITIVE = {"len", "sorted", "min", "max", "sum", "any", "all", "set", "frozenset", "bool", "hash", "isinstance",
               "Counter", "HashableCounter", "OrderedCounter"}
ORDER_CALLS = {"list", "tuple", "next", "iter", "enumerate", "zip", "reversed", "map", "filter", "chain",
               "itertools.chain", "deque", "str", "repr", "print"}
COMMUTATIVE_METHODS = {"add", "remove", "discard", "update"}
COPY_CONSTRUCTORS = {"Counter", "HashableCounter", "OrderedCounter", "dict", "list", "set", "copy", "deepcopy", "OrderedDict"}


def ann_is_set(a):
    return a is not None and ast.unparse(a).split("[")[0].strip("'\"") in SET_ANN


class SetTyping:
    """Which expressions are statically hash-ordered collections (set / frozenset)."""

    def __init__(self, model):
        self.m = model
        self.set_attrs = {}      # attr name -> where first seen (project wide, by name)
        self.set_returning = set()
        for f in model.functions.values():
            if ann_is_set(f.node.returns):
                self.set_returning.add(f.node.name)
            for n in walk_no_nested(f.node):
                if isinstance(n, (ast.Assign, ast.AnnAssign)):
                    tg = n.targets[0] if isinstance(n, ast.Assign) else n.target
                    if isinstance(tg, ast.Attribute):
                        if (n.value is not None and self.ctor(n.value)) or \
                                (isinstance(n, ast.AnnAssign) and ann_is_set(n.annotation)):
                            self.set_attrs.setdefault(tg.attr, f"{f.file}:{n.lineno}")

        # ... and functions that return a set whatever they are annotated with (`-> Collection[TreeNode]`): every function of
        # that name returns, on every value-returning path, an expression that is set-typed
        by_name = {}
        for f in model.functions.values():
            by_name.setdefault(f.node.name, []).append(f)
        for _ in range(2):
            for nm, fs in by_name.items():
                if nm in self.set_returning or nm.startswith("__"):
                    continue
                good = True
                for f in fs:
                    rets = [r for r in walk_no_nested(f.node) if isinstance(r, ast.Return) and r.value is not None]
                    if not rets or any(isinstance(y, (ast.Yield, ast.YieldFrom)) for y in walk_no_nested(f.node)):
                        good = False
                        break
                    loc = self.locals_of(f.node)
                    if not all(self.is_set(r.value, loc) for r in rets):
                        good = False
                        break
                if good:
                    self.set_returning.add(nm)

    @staticmethod
    def ctor(e):
        if isinstance(e, (ast.Set, ast.SetComp)):
            return True
        if isinstance(e, ast.Call) and isinstance(e.func, ast.Name) and e.func.id in ("set", "frozenset"):
            return True
        if isinstance(e, ast.BinOp) and isinstance(e.op, (ast.BitOr, ast.BitAnd, ast.Sub, ast.BitXor)):
            return SetTyping.ctor(e.left) or SetTyping.ctor(e.right)
        return False

    def bind_arguments(self, model):
        """One interprocedural step: a parameter is set-typed if some call site (resolved by the callee's name, for methods called
        on self and for plain names) hands it a set-typed argument."""
        self.param_sets = {}
        by_name = {}
        for f in model.functions.values():
            by_name.setdefault(f.node.name, []).append(f)
        for _ in range(2):
            for f in model.functions.values():
                loc = self.locals_of(f.node)
                for c in walk_no_nested(f.node):
                    if not isinstance(c, ast.Call):
                        continue
                    nm = c.func.attr if isinstance(c.func, ast.Attribute) and isinstance(c.func.value, ast.Name) and c.func.value.id in ("self", "cls") \
                        else (c.func.id if isinstance(c.func, ast.Name) else None)
                    cands = by_name.get(nm, []) if nm else []
                    if len(cands) != 1:
                        continue
                    ps = [a.arg for a in cands[0].node.args.posonlyargs + cands[0].node.args.args if a.arg not in ("self", "cls")]
                    for i_, a_ in enumerate(c.args):
                        if i_ < len(ps) and not isinstance(a_, ast.Starred) and self.is_set(a_, loc):
                            self.param_sets.setdefault(cands[0].qual, set()).add(ps[i_])
                    for k_ in c.keywords:
                        if k_.arg and self.is_set(k_.value, loc):
                            self.param_sets.setdefault(cands[0].qual, set()).add(k_.arg)
        self._qual_of = {id(f.node): f.qual for f in model.functions.values()}

    def locals_of(self, fn):
        loc = set()
        a = fn.args
        for arg in a.posonlyargs + a.args + a.kwonlyargs:
            if ann_is_set(arg.annotation):
                loc.add(arg.arg)
        loc |= getattr(self, "param_sets", {}).get(getattr(self, "_qual_of", {}).get(id(fn)), set())
        for _ in range(3):
            for n in walk_no_nested(fn):
                if isinstance(n, (ast.Assign, ast.AnnAssign)) :
                    tg = n.targets[0] if isinstance(n, ast.Assign) else n.target
                    if isinstance(tg, ast.Name) and ((n.value is not None and self.is_set(n.value, loc))
                                                     or (isinstance(n, ast.AnnAssign) and ann_is_set(n.annotation))):
                        loc.add(tg.id)
        return loc

    def is_set(self, e, loc):
        if self.ctor(e):
            return True
        if isinstance(e, ast.Name):
            return e.id in loc
        if isinstance(e, ast.Attribute):
            return e.attr in self.set_attrs or e.attr in self.set_returning
        if isinstance(e, ast.Call):
            fn = e.func
            if isinstance(fn, ast.Attribute) and fn.attr in self.set_returning:
                return True
            if isinstance(fn, ast.Attribute) and fn.attr in ("union", "intersection", "difference",
                                                             "symmetric_difference", "copy") \
                    and self.is_set(fn.value, loc):
                return True
            if isinstance(fn, ast.Name) and fn.id in self.set_returning and fn.id not in ("set",):
                return False
        if isinstance(e, ast.BinOp) and isinstance(e.op, (ast.Sub, ast.BitOr, ast.BitAnd, ast.BitXor)):
            if self.is_set(e.left, loc) or self.is_set(e.right, loc):
                return True
            # set algebra on dict views (d.keys() - e.keys()) produces a plain set
            return any(isinstance(x, ast.Call) and isinstance(x.func, ast.Attribute) and x.func.attr in ("keys", "items")
                       and not x.args for x in (e.left, e.right))
        if isinstance(e, ast.IfExp):
            return self.is_set(e.body, loc) or self.is_set(e.orelse, loc)
        return False


def body_commutative(body, loopvars):
    """A loop body whose effect does not depend on iteration order."""
    for st in body:
        if isinstance(st, ast.Expr) and isinstance(st.value, ast.Call) and isinstance(st.value.func, ast.Attribute) \
                and st.value.func.attr in COMMUTATIVE_METHODS:
            continue
        if isinstance(st, ast.AugAssign) and isinstance(st.op, (ast.BitXor, ast.Add, ast.BitOr, ast.BitAnd, ast.Mult)) \
                and not isinstance(st.value, (ast.List, ast.Tuple, ast.JoinedStr)) \
                and not (isinstance(st.value, ast.Constant) and isinstance(st.value.value, str)):
            continue
        if isinstance(st, ast.If) and body_commutative(st.body, loopvars) and body_commutative(st.orelse, loopvars):
            continue
        if isinstance(st, (ast.Pass, ast.Continue)):
            continue
        if isinstance(st, ast.Assert):
            continue
        return False
    return True


def consumer_insensitive(node):
    """Is the iteration result consumed by an order-insensitive function (directly, or through generator wrappers)?"""
    p = parent(node)
    hops = 0
    cur = node
    while p is not None and hops < 4:
        if isinstance(p, ast.Call) and cur in p.args:
            name = call_name(p)
            if name in INSENSITIVE:
                return True
            if name in ("map", "filter", "list", "tuple", "iter", "enumerate"):
                cur, p = p, parent(p)
                hops += 1
                continue
            return False
        if isinstance(p, (ast.GeneratorExp, ast.ListComp)) and any(g.iter is cur for g in p.generators):
            cur, p = p, parent(p)
            hops += 1
            continue
        if isinstance(p, ast.comprehension):
            cur, p = p, parent(p)
            continue
        if isinstance(p, (ast.SetComp,)):
            return True
        if isinstance(p, ast.Compare) and all(isinstance(o, (ast.In, ast.NotIn, ast.Eq, ast.NotEq)) for o in p.ops):
            return True
        return False
    return False


def r07a(ctx, reach):
    m = ctx.model
    ctx.rule("R07a", "no hash-ordered collection (set/frozenset) is iterated into an order-sensitive sink in code "
                     "reachable from diff/print/CLI entry points")
    ty = SetTyping(m)
    ty.bind_arguments(m)
    n_src = n_sites = 0
    for f in sorted(m.functions.values(), key=lambda f: f.qual):
        if ".<locals>." in f.qual:
            continue
        loc = ty.locals_of(f.node)
        live = f.qual in reach
        func = f.short
        for n in ast.walk(f.node):
            if ty.ctor(n) and not isinstance(n, ast.BinOp):
                n_src += 1
            site = None
            if isinstance(n, ast.For) and ty.is_set(n.iter, loc):
                tv = {x.id for x in ast.walk(n.target) if isinstance(x, ast.Name)}
                if body_commutative(n.body, tv):
                    n_sites += 1
                    ctx.proved("R07a", f.file, func, n, f"for {norm(n.target)} in {norm(n.iter, 50)}",
                               "loop over a set whose body only performs commutative updates")
                    continue
                site = (n, n.iter, "a `for` loop whose body is order-sensitive (yields/appends/writes)")
            elif isinstance(n, ast.Call):
                fn = n.func
                nm = call_name(n)
                if isinstance(fn, ast.Attribute) and fn.attr == "join" and n.args and ty.is_set(n.args[0], loc):
                    site = (n, n.args[0], "str.join (concatenation order = hash order)")
                elif nm in ORDER_CALLS and any(ty.is_set(a, loc) for a in n.args):
                    arg = [a for a in n.args if ty.is_set(a, loc)][0]
                    if consumer_insensitive(n):
                        n_sites += 1
                        ctx.proved("R07a", f.file, func, n, norm(n, 60),
                                   "set materialised but consumed by an order-insensitive function")
                        continue
                    site = (n, arg, f"{nm}() materialises the set in hash order")
                elif isinstance(fn, ast.Attribute) and fn.attr == "pop" and not n.args and ty.is_set(fn.value, loc):
                    site = (n, fn.value, "set.pop() returns an arbitrary (hash-ordered) element")
                elif any(isinstance(a, ast.Starred) and ty.is_set(a.value, loc) for a in n.args):
                    arg = [a.value for a in n.args if isinstance(a, ast.Starred) and ty.is_set(a.value, loc)][0]
                    if nm not in INSENSITIVE:
                        site = (n, arg, "star-argument expansion of a set (argument order = hash order)")
            elif isinstance(n, ast.YieldFrom) and ty.is_set(n.value, loc):
                site = (n, n.value, "`yield from` a set")
            elif isinstance(n, (ast.GeneratorExp, ast.ListComp, ast.DictComp)):
                for g in n.generators:
                    if ty.is_set(g.iter, loc):
                        if consumer_insensitive(n) or isinstance(parent(n), ast.Call) and call_name(parent(n)) in INSENSITIVE:
                            n_sites += 1
                            ctx.proved("R07a", f.file, func, n, norm(n, 60),
                                       "comprehension over a set consumed by an order-insensitive function")
                        else:
                            site = (n, g.iter, "a list/generator/dict comprehension that preserves hash order")
            if site is None:
                continue
            node, src, why = site
            n_sites += 1
            if not live:
                ctx.proved("R07a", f.file, func, node, norm(node, 60),
                           f"order-sensitive use of set `{norm(src, 40)}` but the function is unreachable from every "
                           f"diff/print/CLI entry point (call-graph reachability with RTA)")
                continue
            ctx.violation("R07a", f.file, func, node, norm(src, 50),
                          f"hash-ordered collection `{norm(src, 50)}` flows into {why}; the result depends on "
                          f"PYTHONHASHSEED / allocation order")
    ctx.floor("R07a", n_src, 8, "set/frozenset construction sites in the package")
    ctx.floor("R07a-sites", n_sites, 3, "iterations of set-typed values examined")
    # built-in positive example: the rule must fire on a known-bad snippet on every run
    probe = ast.parse("def f(xs):\n    s = set(xs)\n    for x in s:\n        yield x\n")
    fn = probe.body[0]
    for n in ast.walk(probe):
        for c in ast.iter_child_nodes(n):
            c._parent = n
    loc = ty.locals_of(fn)
    hit = any(isinstance(n, ast.For) and ty.is_set(n.iter, loc) and not body_commutative(n.body, set())
              for n in ast.walk(fn))
    if not hit:
        ctx.inconclusive("R07a", "-", "selftest", None, "positive-example", "built-in positive example did not fire")


# ------------------------------------------------------------------------------------------------ R07b
NONDET_MODULES = {"random", "time", "uuid", "secrets", "datetime"}
NONDET_CALLS = {"os.urandom", "os.getpid", "os.times"}
ENGINE_EXEMPT_MODULES = {"graphtage.progress", "graphtage.printer", "graphtage.debug", "graphtage.version"}


def r07b(ctx, reach):
    m = ctx.model
    ctx.rule("R07b", "nondeterministic primitives (id()/hash() in ordering comparisons or sort keys, random, time, "
                     "uuid, os.urandom) are unreachable from diff/print/CLI entry points")
    n = 0
    for f in sorted(m.functions.values(), key=lambda f: f.qual):
        if ".<locals>." in f.qual:
            continue
        for node in ast.walk(f.node):
            bad = None
            if isinstance(node, ast.Compare) and any(isinstance(o, (ast.Lt, ast.Gt, ast.LtE, ast.GtE)) for o in node.ops):
                for side in [node.left] + node.comparators:
                    for c in ast.walk(side):
                        if isinstance(c, ast.Call) and call_name(c) in ("id", "hash"):
                            bad = (node, f"ordering comparison on {call_name(c)}() - an address/seed dependent value")
            elif isinstance(node, ast.Call):
                nm = call_name(node) or ""
                for k in node.keywords:
                    if k.arg == "key" and isinstance(k.value, ast.Name) and k.value.id in ("id", "hash"):
                        bad = (node, f"sort key {k.value.id}")
                root = nm.split(".")[0]
                if nm in NONDET_CALLS:
                    bad = (node, f"call of {nm}")
                elif root in NONDET_MODULES and "." in nm and f.module not in ENGINE_EXEMPT_MODULES:
                    r = m.lookup(f.module, root)
                    if r and r[0] == "module" and r[1] in NONDET_MODULES:
                        bad = (node, f"call of {nm}")
            if not bad:
                continue
            n += 1
            node, why = bad
            if f.qual in reach:
                ctx.violation("R07b", f.file, f.short, node, norm(node, 70),
                              f"{why} is reachable from a diff/print/CLI entry point; output may differ between runs")
            else:
                ctx.proved("R07b", f.file, f.short, node, norm(node, 70),
                           f"{why}, but the function is unreachable from every diff/print/CLI entry point")
    ctx.floor("R07b", n, 1, "nondeterministic-primitive sites in the package")


# ------------------------------------------------------------------------------------------------ R07c
def r07c(ctx):
    m = ctx.model
    ctx.rule("R07c", "diff/print phase code does not write to the trees it is given: no attribute/subscript store "
                     "rooted at a node parameter (other than the EditedTreeNode protocol fields in on_diff) and no "
                     "self-store in TreeNode methods outside construction (other than the _total_size memo); the "
                     "_parent save/restore in edited_type is paired in a finally")
    T, E, F = "graphtage.tree.TreeNode", "graphtage.tree.EditedTreeNode", "graphtage.formatter.Formatter"
    for q in (T, E, F):
        if q not in m.classes:
            ctx.inconclusive("R07c", "-", "-", None, q, f"anchor class {q} missing")
            return
    # protocol fields an on_diff may set on the *edited copy*
    einit = m.method(E, "__init__")
    proto = {self_attr(t) for n in ast.walk(einit.node) if isinstance(n, (ast.Assign, ast.AnnAssign))
             for t in (n.targets if isinstance(n, ast.Assign) else [n.target]) if self_attr(t)}
    edit_classes = [q for q in m.classes if m.method(q, "tighten_bounds") and m.method(q, "on_diff")
                    or q in ("graphtage.tree.Edit", "graphtage.tree.CompoundEdit")]
    n = 0
    non_node_params = {"printer", "p", "formatter", "t", "options", "self", "cls", "kwargs", "args", "c"}

    def check(f, role):
        nonlocal n
        params = [p for p in func_params(f.node) if p not in non_node_params]
        ann = {a.arg: a.annotation for a in f.node.args.args + f.node.args.kwonlyargs}
        for node in walk_no_nested(f.node):
            if not (isinstance(node, (ast.Attribute, ast.Subscript)) and isinstance(node.ctx, (ast.Store, ast.Del))):
                continue
            base = node if isinstance(node, ast.Attribute) else node.value
            d = dotted(base)
            if not d:
                continue
            root = d.split(".")[0]
            if root == "self":
                if role == "node" and f.node.name not in ("__init__", "__new__", "add_edit_modifier", "__setstate__") \
                        and not any(isinstance(dd, ast.Attribute) and dd.attr == "setter" for dd in f.node.decorator_list):
                    n += 1
                    attr = d.split(".")[1] if "." in d else d
                    if attr == "_total_size" and f.node.name == "total_size":
                        ctx.proved("R07c", f.file, f.short, node, d, "idempotent size memo (reviewed exception)")
                    else:
                        ctx.violation("R07c", f.file, f.short, node, d,
                                      f"TreeNode method `{f.node.name}` writes self.{attr} outside construction: a "
                                      f"comparison or print may alter an input tree")
                continue
            if root not in params:
                continue
            a = ann.get(root)
            atxt = ast.unparse(a) if a is not None else ""
            if any(x in atxt for x in ("Printer", "Formatter", "Writer", "BuildOptions", "HeapNode", "IO")):
                continue
            # the parameter name was rebound to a private copy (`to_set = HashableCounter(to_set)`) before this store
            stmt_ = node
            while stmt_ is not None and not isinstance(stmt_, ast.stmt):
                stmt_ = parent(stmt_)
            rebound_ = [s_ for s_ in walk_no_nested(f.node) if isinstance(s_, ast.Assign) and len(s_.targets) == 1
                        and isinstance(s_.targets[0], ast.Name) and s_.targets[0].id == root and isinstance(s_.value, ast.Call)
                        and (call_name(s_.value) or "").rsplit(".", 1)[-1] in COPY_CONSTRUCTORS]
            if d == root and stmt_ is not None and any(r_.lineno < stmt_.lineno and _guard_subset(r_, stmt_) for r_ in rebound_):
                n += 1
                ctx.proved("R07c", f.file, f.short, node, d, f"`{root}` was rebound to a private copy under the same guard before this store")
                continue
            n += 1
            attr = d.split(".")[-1] if isinstance(node, ast.Attribute) else "[...]"
            if f.node.name == "on_diff" and "EditedTreeNode" in atxt and attr in proto and d.count(".") == 1:
                ctx.proved("R07c", f.file, f.short, node, d,
                           f"on_diff sets the EditedTreeNode protocol field `{attr}` on the edited copy")
                continue
            ctx.violation("R07c", f.file, f.short, node, d,
                          f"store to `{norm(node, 50)}` rooted at parameter `{root}` in {role} code: this writes to a "
                          f"node that may belong to one of the input trees (printed nodes include the second tree's "
                          f"through Insert/Match)")

    MUTATORS = {"add", "remove", "discard", "pop", "popitem", "clear", "update", "subtract", "append", "extend",
                "insert", "sort", "reverse", "setdefault", "__setitem__", "__delitem__"}

    def check_inplace(f, role):
        """Augmented assignment / mutating method call on a bare parameter that has not been rebound to a private
        copy under the same guard: the object mutated is the caller's (typically the node's own children)."""
        nonlocal n
        params = [p for p in func_params(f.node) if p not in non_node_params]
        rebinds = {}
        for s_ in walk_no_nested(f.node):
            if isinstance(s_, ast.Assign) and len(s_.targets) == 1 and isinstance(s_.targets[0], ast.Name) \
                    and s_.targets[0].id in params and isinstance(s_.value, ast.Call):
                rebinds.setdefault(s_.targets[0].id, []).append(s_)
        for node in walk_no_nested(f.node):
            tgt = why = None
            if isinstance(node, ast.AugAssign) and isinstance(node.target, ast.Name) and node.target.id in params \
                    and isinstance(node.op, (ast.Sub, ast.BitOr, ast.BitAnd, ast.BitXor, ast.Add)):
                tgt, why = node.target.id, f"`{norm(node, 50)}` (in-place operator on a mutable collection)"
            elif isinstance(node, ast.AugAssign) and isinstance(node.target, ast.Subscript) \
                    and isinstance(node.target.value, ast.Name) and node.target.value.id in params:
                tgt, why = node.target.value.id, f"`{norm(node, 50)}`"
            elif isinstance(node, ast.Call) and isinstance(node.func, ast.Attribute) and node.func.attr in MUTATORS \
                    and isinstance(node.func.value, ast.Name) and node.func.value.id in params:
                tgt, why = node.func.value.id, f"`{norm(node, 50)}`"
            if tgt is None:
                continue
            a = {x.arg: x.annotation for x in f.node.args.args + f.node.args.kwonlyargs}.get(tgt)
            atxt = ast.unparse(a) if a is not None else ""
            if any(x in atxt for x in ("Printer", "Formatter", "Writer", "BuildOptions", "HeapNode", "List[TreeNode]")):
                continue
            n += 1
            copied = any(r.lineno < node.lineno and _guard_subset(r, node) for r in rebinds.get(tgt, []))
            if copied:
                ctx.proved("R07c", f.file, f.short, node, f"in-place {tgt}",
                           f"`{tgt}` was rebound to a private copy under the same guard before being modified")
            else:
                ctx.violation("R07c", f.file, f.short, node, f"in-place {tgt}",
                              f"{why} mutates parameter `{tgt}` in {role} code; on this path it can still be the caller's "
                              f"object (a node's own children), so comparing two documents alters an input tree")

    for q in m.subclasses(F):
        for name, (kind, v) in m.attrs[q].items():
            if kind == "def":
                check(v, "formatter")
    for q in edit_classes:
        for name, (kind, v) in m.attrs[q].items():
            if kind == "def" and name != "__init__":
                check(v, "edit")
            if kind == "def":
                check_inplace(v, "edit")
    for q in m.subclasses(T):
        for name, (kind, v) in m.attrs[q].items():
            # constructors adopt the (fresh) children they are given: building is not the diff/print phase
            if kind == "def" and name not in ("__init__", "__new__"):
                check(v, "node")
    ctx.floor("R07c", n, 4, "stores rooted at node parameters / self in diff-phase code")
    # pairing: the _parent save/restore in TreeNodeMeta.edited_type.init
    meta = m.find_class("TreeNodeMeta")
    found = False
    if meta:
        et = m.method(meta, "edited_type")
        if et is not None:
            for node in ast.walk(et.node):
                if isinstance(node, ast.Try):
                    stores_body = [x for s in node.body for x in ast.walk(s)
                                   if isinstance(x, ast.Attribute) and isinstance(x.ctx, ast.Store) and x.attr == "_parent"]
                    if stores_body:
                        found = True
                        root = dotted(stores_body[0]).split(".")[0]
                        restored = [x for s in node.finalbody for x in ast.walk(s)
                                    if isinstance(x, ast.Attribute) and isinstance(x.ctx, ast.Store)
                                    and x.attr == "_parent" and dotted(x).split(".")[0] == root]
                        if restored:
                            ctx.proved("R07c", et.file, et.short, node, f"{root}._parent save/restore",
                                       f"temporary store to {root}._parent is undone in `finally` on every path")
                        else:
                            ctx.violation("R07c", et.file, et.short, node, f"{root}._parent save/restore",
                                          f"{root}._parent is overwritten while making the edited copy and not restored "
                                          f"in a `finally`: an exception (or every call) leaves the input tree altered")
            if not found:
                # no temporary store at all is fine only if _parent is never written there
                w = [x for x in ast.walk(et.node) if isinstance(x, ast.Attribute) and isinstance(x.ctx, ast.Store)
                     and x.attr == "_parent"]
                if w:
                    ctx.violation("R07c", et.file, et.short, w[0], "_parent store without try/finally",
                                  "the wrapped (input) node's _parent is written without a restoring `finally`")
                else:
                    ctx.proved("R07c", et.file, et.short, et.node, "_parent untouched",
                               "edited_type does not write the wrapped node's _parent")
    else:
        ctx.inconclusive("R07c", "-", "-", None, "TreeNodeMeta", "anchor class TreeNodeMeta missing")


def _guard_subset(a, b):
    from ..astx import dominating_conditions, flatten_conditions
    ga = {ast.unparse(t) + str(p) for t, p in flatten_conditions(dominating_conditions(a))}
    gb = {ast.unparse(t) + str(p) for t, p in flatten_conditions(dominating_conditions(b))}
    return ga <= gb


def r07d(ctx, reach):
    m = ctx.model
    ctx.rule("R07d", "no process-wide memo conflates values the engine distinguishes: a functools cache on engine code "
                     "must be typed (1, True and 1.0 are equal as keys) unless its body is insensitive to the argument type")
    n = 0
    for f in sorted(m.functions.values(), key=lambda f: f.qual):
        for d in f.node.decorator_list:
            nm = dotted(d.func if isinstance(d, ast.Call) else d) or ""
            if nm.split(".")[-1] not in ("lru_cache", "cache"):
                continue
            n += 1
            typed = isinstance(d, ast.Call) and any(k.arg == "typed" and isinstance(k.value, ast.Constant) and k.value.value is True
                                                    for k in d.keywords)
            params = set(func_params(f.node))
            sensitive = [c for c in walk_no_nested(f.node) if isinstance(c, ast.Call)
                         and call_name(c) in ("str", "repr", "type", "isinstance", "format")
                         and any(isinstance(x, ast.Name) and x.id in params for a in c.args for x in ast.walk(a))]
            if typed or not sensitive:
                ctx.proved("R07d", f.file, f.short, f.node, f"cache on {f.short}",
                           "typed cache, or the body does not depend on the argument's type")
            elif f.qual in reach or True:
                ctx.violation("R07d", f.file, f.short, d, f"cache on {f.short}",
                              f"`@{nm}` without typed=True memoises {f.short} on ==-equal keys, but the body applies "
                              f"`{norm(sensitive[0], 40)}` to an argument: the result for 1 is returned for True or 1.0 "
                              f"(and vice versa), so a diff depends on which values earlier diffs in the same process saw")
    if n == 0:
        ctx.proved("R07d", "-", "-", None, "no functools caches", "the package uses no functools.lru_cache/cache", nontrivial=False)


def r07e(ctx):
    m = ctx.model
    ctx.rule("R07e", "no cross-call memo in diff/print code: a mutable container defined at class level (shared by all "
                     "instances and all renderings) is never written through self in node, edit or formatter methods")
    n = 0
    roots = [q for q in ("graphtage.formatter.Formatter", "graphtage.tree.TreeNode", "graphtage.edits.AbstractEdit") if q in m.classes]
    seen = set()
    for base in roots:
        for q in sorted(m.subclasses(base)):
            if q in seen:
                continue
            seen.add(q)
            shared = {}
            for k in m.c3(q):
                for name, (kind, v) in m.attrs[k].items():
                    if kind == "assign" and isinstance(v, (ast.Dict, ast.List, ast.Set)) or \
                            (kind == "assign" and isinstance(v, ast.Call) and call_name(v) in ("dict", "list", "set", "defaultdict", "OrderedDict")):
                        shared.setdefault(name, k)
            if not shared:
                continue
            for name, (kind, v) in m.attrs[q].items():
                if kind != "def":
                    continue
                rebound = {self_attr(t) for s_ in walk_no_nested(v.node) if isinstance(s_, (ast.Assign, ast.AnnAssign))
                           for t in (s_.targets if isinstance(s_, ast.Assign) else [s_.target]) if self_attr(t)}
                for x in walk_no_nested(v.node):
                    a = None
                    if isinstance(x, ast.Subscript) and isinstance(x.ctx, (ast.Store, ast.Del)) and self_attr(x.value) in shared:
                        a = self_attr(x.value)
                    elif isinstance(x, ast.Call) and isinstance(x.func, ast.Attribute) and self_attr(x.func.value) in shared \
                            and x.func.attr in ("append", "add", "update", "setdefault", "pop", "clear", "extend", "insert"):
                        a = self_attr(x.func.value)
                    if a is None or a in rebound or name in ("__init__", "__new__"):
                        continue
                    n += 1
                    ctx.violation("R07e", v.file, v.short, x, f"shared {a} written in {v.short}",
                                  f"`{norm(x, 50)}` writes the class-level container `{a}` (defined on {shared[a].rsplit('.', 1)[-1]}, "
                                  f"shared by every instance and every call): output then depends on what earlier diffs in the "
                                  f"same process printed")
    if n == 0:
        ctx.proved("R07e", "-", "-", None, "no shared memo", "no class-level mutable container is written through self in node/edit/formatter methods")


def r07f(ctx, inst):
    m = ctx.model
    ctx.rule("R07f", "no memory address in text: str()/repr() of nodes and edits is printed (--only-edits prints str(edit), reprs "
                     "nest node reprs) and str(leaf.object) prices leaf matches, so every concrete node class, every concrete edit "
                     "class and every project class the package wraps as a leaf's object resolves __repr__ (or __str__) to a "
                     "project-defined method - object.__repr__ embeds id(), which differs from run to run")
    TREE = "graphtage.tree.TreeNode"
    n = 0
    classes = [q for q in sorted(m.classes) if not m.is_abstract(q) and (
        (m.is_subclass(q, TREE) and not m.is_subclass(q, "graphtage.tree.EditedTreeNode"))
        or (m.method(q, "tighten_bounds") is not None and m.method(q, "on_diff") is not None))]
    compound = m.find_class("CompoundEdit")
    for q in classes:
        if q not in inst and not m.is_subclass(q, TREE):
            continue
        if compound and m.is_subclass(q, compound):
            # get_all_edits / explode_edits never yield a compound edit (they descend into edits()), and node and constant-edit
            # reprs embed nodes only: a compound edit's own text is not printed
            continue
        n += 1
        short = q.rsplit(".", 1)[-1]
        r = m.method(q, "__repr__") or m.method(q, "__str__")
        mod, node = m.classes[q]
        if r is None:
            ctx.violation("R07f", m.files[mod], short, node, f"{short} repr",
                          f"{short} inherits object.__repr__: its text is '<...{short} object at 0x...>', and that text reaches the "
                          f"output through str(edit) / nested reprs (e.g. `Replace(to_replace=..., replace_with=<{short} object at "
                          f"0x7f..>)` with --only-edits), so two runs on the same input print different bytes")
        else:
            addr = [c for c in walk_no_nested(r.node) if isinstance(c, ast.Call) and (call_name(c) == "id" or (call_name(c) or "").endswith("object.__repr__"))]
            if addr:
                ctx.violation("R07f", r.file, r.short, addr[0], f"{short} repr",
                              f"{r.short} puts `{norm(addr[0], 30)}` into the text: a memory address differs from run to run, and this text "
                              f"reaches the output through str(edit) / nested reprs (--only-edits)")
            else:
                ctx.proved("R07f", m.files[mod], short, node, f"{short} repr", f"{r.short} is project-defined and address-free", nontrivial=False)
    ctx.floor("R07f", n, 35, "concrete node and constant-edit classes")
    # project classes wrapped as a leaf's object
    leaf = m.need_class("LeafNode")
    k = 0
    for q in sorted(m.subclasses(leaf, strict=True)):
        init = m.attrs[q].get("__init__")
        if not init or init[0] != "def":
            continue
        for c in walk_no_nested(init[1].node):
            if isinstance(c, ast.Call) and isinstance(c.func, ast.Attribute) and c.func.attr == "__init__" and c.args \
                    and isinstance(c.args[0], ast.Call):
                w = m.resolve_class(init[1].module, c.args[0].func)
                if w is None:
                    continue
                k += 1
                short, ws = q.rsplit(".", 1)[-1], w.rsplit(".", 1)[-1]
                if m.method(w, "__repr__") is None and m.method(w, "__str__") is None:
                    ctx.violation("R07f", init[1].file, f"{short}.__init__", c, f"{short} wraps {ws}",
                                  f"{short} stores `{norm(c.args[0], 40)}` as its object and {ws} inherits object.__repr__: "
                                  f"LeafNode.edits prices a match by levenshtein_distance(str(a.object), str(b.object)) - here the "
                                  f"distance between two memory addresses - so the cost of the same comparison changes between calls")
                else:
                    ctx.proved("R07f", init[1].file, f"{short}.__init__", c, f"{short} wraps {ws}", f"{ws} defines its own text")
    ctx.floor("R07f", k, 1, "project classes wrapped as leaf objects")


PROCESS_WIDE_WRAPPERS = {"colorama.init": "wraps sys.stdout and sys.stderr in one more stream wrapper on every call"}


def _conditional_within(node, fn):
    p_ = parent(node)
    while p_ is not None and p_ is not fn:
        if isinstance(p_, (ast.If, ast.For, ast.While)):
            return True
        p_ = parent(p_)
    # ... or reached only when an earlier guard clause did not return (`if wrapped.edited: return` in front of it)
    return bool([1 for t, pol, origin in dominating_conditions(node, stop=fn) if not isinstance(origin, ast.Try)])


def r07m(ctx):
    m = ctx.model
    ctx.rule("R07m", "error texts are output, too: a loader that refuses an object does not print it with repr()/str() unless its type is "
                     "known not to be hash-ordered - the YAML loaders hand json.build_tree whatever the document constructs, a `!!set` "
                     "arrives as a Python set, and the repr of a set of strings lists its members in an order that follows PYTHONHASHSEED")
    f = m.functions.get("graphtage.json.build_tree")
    if f is None:
        ctx.inconclusive("R07m", "graphtage/json.py", "build_tree", None, "refusal text", "graphtage.json.build_tree not found")
        return
    obj = func_params(f.node)[0]
    n = 0
    for r in walk_no_nested(f.node):
        if not isinstance(r, ast.Raise) or r.exc is None:
            continue
        fmts = [x for x in ast.walk(r.exc) if isinstance(x, ast.FormattedValue) and isinstance(x.value, ast.Name) and x.value.id == obj]
        fmts += [x for x in ast.walk(r.exc) if isinstance(x, ast.Call) and call_name(x) in ("repr", "str") and x.args
                 and isinstance(x.args[0], ast.Name) and x.args[0].id == obj]
        if not fmts:
            continue
        n += 1
        # what is known about the object here: the isinstance tests that failed on the way (elif chain / guard clauses)
        excluded = set()
        for t, pol in flatten_conditions(dominating_conditions(r)):
            if not pol and isinstance(t, ast.Call) and call_name(t) == "isinstance" and len(t.args) == 2 and dotted(t.args[0]) == obj:
                ts = t.args[1].elts if isinstance(t.args[1], ast.Tuple) else [t.args[1]]
                excluded |= {dotted(x) for x in ts if dotted(x)}
        if {"set", "frozenset"} <= excluded:
            ctx.proved("R07m", f.file, "build_tree", r, "refusal text", "sets have been handled before the refusal")
        else:
            ctx.violation("R07m", f.file, "build_tree", fmts[0], "refusal text",
                          f"`{norm(r, 70)}` prints the refused object; sets are not among the types tested before ({sorted(excluded)}), and YAML "
                          f"`a: !!set {{alpha, beta, gamma}}` reaches this line: the message (written to stderr by main) lists the members in "
                          f"hash order, which differs between processes with different PYTHONHASHSEED")
    ctx.floor("R07m", n, 1, "refusals in json.build_tree that print the refused object")


def r07n(ctx):
    m = ctx.model
    ctx.rule("R07n", "formatters are process-wide singletons (DEFAULT_INSTANCE), so what a print method notes on `self` is still there for "
                     "the next document: a flag that print-phase code only ever sets to one value, different from its initial one, is never "
                     "taken back - the second comparison in a process is printed under the first one's flag")
    base = m.find_class("GraphtageFormatter") or m.need_class("Formatter")
    n = 0
    for q in sorted(m.subclasses(base)):
        stores = {}
        init_vals = {}
        for name, (kind, f) in m.attrs[q].items():
            if kind != "def":
                if kind == "assign" or kind == "attr":
                    pass
                continue
            for a in walk_no_nested(f.node):
                tg = val = None
                if isinstance(a, ast.Assign) and len(a.targets) == 1:
                    tg, val = a.targets[0], a.value
                elif isinstance(a, ast.AnnAssign) and a.value is not None:
                    tg, val = a.target, a.value
                if tg is None or not self_attr(tg):
                    continue
                key = ast.unparse(val) if isinstance(val, ast.Constant) else "<computed>"
                (init_vals if name == "__init__" else stores).setdefault(self_attr(tg), []).append((key, a, f))
        # class-level defaults
        cdef = m.classes[q][1]
        for st in cdef.body:
            if isinstance(st, ast.Assign) and isinstance(st.targets[0], ast.Name) and isinstance(st.value, ast.Constant):
                init_vals.setdefault(st.targets[0].id, []).append((ast.unparse(st.value), st, None))
            elif isinstance(st, ast.AnnAssign) and isinstance(st.target, ast.Name) and st.value is not None and isinstance(st.value, ast.Constant):
                init_vals.setdefault(st.target.id, []).append((ast.unparse(st.value), st, None))
        for attr, lst in sorted(stores.items()):
            vals = {k for k, *_ in lst}
            n += 1
            short = q.rsplit(".", 1)[-1]
            init = {k for k, *_ in init_vals.get(attr, [])}
            if len(vals) == 1 and "<computed>" not in vals and init and not (vals <= init):
                k, a, f = lst[0]
                ctx.violation("R07n", f.file, f.short, a, f"{short}.{attr} only ever set to {k}",
                              f"`{norm(a, 40)}` is the only value print-phase code stores in {short}.{attr} (initially {sorted(init)[0]}): once set it stays "
                              f"set on the shared formatter instance, and later documents - in this run or the next call in the same "
                              f"process - are printed as if the condition still held")
            else:
                ctx.proved("R07n", lst[0][2].file, lst[0][2].short, lst[0][1], f"{short}.{attr}", f"stored values {sorted(vals)}: the flag is taken back or recomputed")
    ctx.floor("R07n", n, 3, "formatter attributes stored by print-phase methods")


def r07l(ctx):
    m = ctx.model
    ctx.rule("R07l", "an edited copy starts with fresh edit state: the constructor of every Edited* class copies the wrapped node's "
                     "attributes and THEN runs EditedTreeNode.__init__ (removed, inserted, matched_to, edit_list, edit).  In the other "
                     "order - or with an in-place merge - the wrapped node's own edit state, present when it is itself the result of an "
                     "earlier diff, overwrites the fresh one: the copy shares the original's edit_list and `inserted` lists, the next "
                     "diff appends to them, so a comparison alters the tree it was given and repeating it gives a different cost")
    f = m.functions.get("graphtage.tree.TreeNodeMeta.edited_type.<locals>.init")
    if f is None:
        ctx.inconclusive("R07l", "graphtage/tree.py", "TreeNodeMeta.edited_type", None, "edited constructor", "inner init of edited_type not found")
        return
    etn = func_params(f.node)[0]
    pops = [x for x in walk_no_nested(f.node) if (isinstance(x, ast.Assign) and dotted(x.targets[0]) == f"{etn}.__dict__")
            or (isinstance(x, ast.Call) and isinstance(x.func, ast.Attribute) and x.func.attr == "update" and dotted(x.func.value) == f"{etn}.__dict__")]
    inits = [c for c in walk_no_nested(f.node) if isinstance(c, ast.Call) and dotted(c.func) == "EditedTreeNode.__init__"]
    ctx.floor("R07l", len(pops) + len(inits), 2, "population and fresh-state statements in the edited constructor")
    if pops and inits and all(i.lineno > max(getattr(p_, "end_lineno", p_.lineno) for p_ in pops) for i in inits) \
            and not any(_conditional_within(i, f.node) for i in inits):
        ctx.proved("R07l", f.file, "TreeNodeMeta.edited_type.init", inits[0], "fresh edit state last",
                   "EditedTreeNode.__init__ runs after the wrapped node's attributes were copied, unconditionally")
    else:
        ctx.violation("R07l", f.file, "TreeNodeMeta.edited_type.init", (inits or pops or [f.node])[0], "fresh edit state last",
                      "the fresh edit state (EditedTreeNode.__init__) is not established after the wrapped node's attributes are copied: "
                      "`first = a.diff(b); first.diff(c)` then shares first's edit_list / inserted lists with the new copy, appends the new "
                      "edits to them, and three repeats of first.diff(c) cost 19, 38, 57")
    r07l2(ctx)


def r07l2(ctx):
    m = ctx.model
    ctx.rule("R07l", "... and EditedTreeNode.__init__ really makes the state fresh: it assigns removed, inserted, matched_to, edit_list and "
                     "edit unconditionally - a constructor that only fills in what the node 'does not carry yet' (setdefault, hasattr, a "
                     "test on the instance dict) keeps the wrapped node's lists when that node is itself an edited one")
    q = m.need_class("EditedTreeNode")
    f = m.method(q, "__init__")
    top = [s_ for s_ in f.node.body if isinstance(s_, (ast.Assign, ast.AnnAssign)) and self_attr(s_.targets[0] if isinstance(s_, ast.Assign) else s_.target)]
    names = {self_attr(s_.targets[0] if isinstance(s_, ast.Assign) else s_.target) for s_ in top}
    soft = [c for c in walk_no_nested(f.node) if isinstance(c, ast.Call) and (
        (isinstance(c.func, ast.Attribute) and c.func.attr in ("setdefault", "get"))
        or call_name(c) in ("hasattr", "getattr", "vars"))]
    soft += [x for x in walk_no_nested(f.node) if isinstance(x, ast.Attribute) and x.attr == "__dict__"]
    want = {"removed", "inserted", "matched_to", "edit_list", "edit"}
    if soft or not (want <= names):
        bad = (soft or [f.node])[0]
        ctx.violation("R07l", f.file, "EditedTreeNode.__init__", bad, "fresh state assigned",
                      f"EditedTreeNode.__init__ does not assign {sorted(want - names) or 'its state'} unconditionally"
                      + (f" (`{norm(bad, 40)}` keeps what is already there)" if soft else "") +
                      ": an edited copy of an edited node keeps and shares that node's edit_list / inserted lists")
    else:
        ctx.proved("R07l", f.file, "EditedTreeNode.__init__", f.node, "fresh state assigned", f"{sorted(want)} are assigned unconditionally")
    ctx.floor("R07l-state", len(names), 5, "state attributes assigned at the top level of EditedTreeNode.__init__")


def r07g(ctx):
    m = ctx.model
    ctx.rule("R07g", "process-wide installers run at most once: colorama.init() re-wraps sys.stdout/sys.stderr on every call, so it "
                     "may only be called at module level or under a once-only guard (a module-level flag tested before and set "
                     "with the call); called per Printer, repeated comparisons in one process nest wrappers until a write "
                     "raises RecursionError")
    n = 0
    for fq, f in sorted(m.functions.items()):
        for c in walk_no_nested(f.node):
            if not isinstance(c, ast.Call):
                continue
            r = m.resolve_expr(f.module, c.func)
            name = r[0][1] if r and r[0] and r[0][0] == "ext" else None
            if name not in PROCESS_WIDE_WRAPPERS:
                continue
            n += 1
            globs = {x for g in walk_no_nested(f.node) if isinstance(g, ast.Global) for x in g.names}
            guard = None
            p_ = parent(c)
            while p_ is not None and p_ is not f.node:
                if isinstance(p_, ast.If) and isinstance(p_.test, ast.UnaryOp) and isinstance(p_.test.op, ast.Not) \
                        and isinstance(p_.test.operand, ast.Name) and p_.test.operand.id in globs:
                    flag = p_.test.operand.id
                    sets = any(isinstance(a, ast.Assign) and isinstance(a.targets[0], ast.Name) and a.targets[0].id == flag
                               and isinstance(a.value, ast.Constant) and a.value.value is True for a in p_.body)
                    if sets:
                        guard = flag
                p_ = parent(p_)
            if not guard:
                from ..astx import dominating_conditions as _dc, flatten_conditions as _fc
                for t, pol in _fc(_dc(c)):
                    if not pol and isinstance(t, ast.Name) and t.id in globs and any(
                            isinstance(a, ast.Assign) and isinstance(a.targets[0], ast.Name) and a.targets[0].id == t.id
                            and isinstance(a.value, ast.Constant) and a.value.value is True for a in walk_no_nested(f.node)):
                        guard = t.id
            # the wrapper it installs must not strip: printers created afterwards bind sys.stdout, i.e. the wrapper
            if name == "colorama.init":
                strip = kwarg(c, "strip")
                wrap = kwarg(c, "wrap")
                keeps = (isinstance(strip, ast.Constant) and strip.value is False) or (isinstance(wrap, ast.Constant) and wrap.value is False)
                if keeps:
                    ctx.proved("R07g", f.file, f.short, c, f"{name} keeps escapes", "the installed wrapper is told not to strip ANSI escapes")
                else:
                    ctx.violation("R07g", f.file, f.short, c, f"{name} keeps escapes",
                                  f"`{norm(c, 40)}` replaces sys.stdout process-wide with a wrapper that strips ANSI escapes whenever the "
                                  f"stream is not a terminal (strip defaults to that). The Printer that triggered the call is already bound "
                                  f"to the real stream, every Printer created later binds the wrapper: the same coloured diff printed "
                                  f"twice in one process comes out with escapes the first time and without them afterwards")
            if guard:
                ctx.proved("R07g", f.file, f.short, c, f"{name} once", f"`{name}()` runs only while the module flag `{guard}` is unset, and sets it")
            else:
                ctx.violation("R07g", f.file, f.short, c, f"{name} once",
                              f"`{norm(c, 40)}` in {f.short} runs on every call of that function and {PROCESS_WIDE_WRAPPERS[name]}: "
                              f"after a few hundred coloured comparisons in one process the next write to stdout/stderr raises "
                              f"RecursionError (and earlier, output changes when a stream is swapped between calls)")
    ctx.floor("R07g", n, 1, "process-wide installer calls")


def r07h(ctx):
    m = ctx.model
    ctx.rule("R07h", "formatters leave the caller's printer as they found it: a plain assignment to an attribute of the printer "
                     "parameter inside a formatter method is undone in a `finally` of the same method from a value saved before "
                     "the assignment (a Printer is reused across formatters: DEFAULT_PRINTER, pydiff.print_diff(printer=...))")
    FORM = "graphtage.formatter.Formatter"
    n = 0
    for q in sorted(m.subclasses(FORM)):
        for name, (kind, f) in sorted(m.attrs[q].items()):
            if kind != "def":
                continue
            ps = func_params(f.node)
            if len(ps) < 2:
                continue
            pr = ps[1]
            stores = [a for a in walk_no_nested(f.node) if isinstance(a, ast.Assign) and isinstance(a.targets[0], ast.Attribute)
                      and isinstance(a.targets[0].value, ast.Name) and a.targets[0].value.id == pr]
            by_attr = {}
            for a in stores:
                by_attr.setdefault(a.targets[0].attr, []).append(a)
            for attr, sts in sorted(by_attr.items()):
                n += 1
                saved = {a.targets[0].id for a in walk_no_nested(f.node) if isinstance(a, ast.Assign) and isinstance(a.targets[0], ast.Name)
                         and ast.unparse(a.value).replace(" ", "") == f"{pr}.{attr}"}
                restored = any(isinstance(t, ast.Try) and any(isinstance(a, ast.Assign) and a in sts and isinstance(a.value, ast.Name)
                                                              and a.value.id in saved for s_ in t.finalbody for a in ast.walk(s_))
                               for t in walk_no_nested(f.node))
                short = f"{q.rsplit('.', 1)[-1]}.{name}"
                if restored:
                    ctx.proved("R07h", f.file, short, sts[0], f"{pr}.{attr} restored", f"{pr}.{attr} is saved, set and restored in a finally block")
                else:
                    ctx.violation("R07h", f.file, short, sts[0], f"{pr}.{attr} restored",
                                  f"`{norm(sts[0], 50)}` overwrites an attribute of the caller's printer and {short} never restores "
                                  f"it: a Printer that has rendered with this formatter renders later diffs differently (JSON "
                                  f"indent 4 becomes 2 after YAML, 8 after plist) - the same comparison, repeated on the same Printer, "
                                  f"gives different bytes")
    ctx.floor("R07h", n, 2, "printer attributes assigned by formatter methods")


def r07i(ctx):
    m = ctx.model
    ctx.rule("R07i", "object graphs: a builder registered for a hash-ordered Python type (set, frozenset) receives its children in "
                     "the iteration order of that object; the node it builds keeps insertion order (HashableCounter) and that "
                     "order is printed, so either the expander or the builder must put the children into a canonical order "
                     "(sorted(...)) - as DictNode.from_dict does for mappings")
    n = 0
    for fq, f in sorted(m.functions.items()):
        regs = {"builder": set(), "expander": set()}
        for d in f.node.decorator_list:
            if isinstance(d, ast.Call) and isinstance(d.func, ast.Attribute) and d.func.attr in regs and d.args:
                regs[d.func.attr].add(dotted(d.args[0]))
        hashed = regs["builder"] & {"set", "frozenset"}
        if not hashed:
            continue
        n += 1
        ps = func_params(f.node)
        kids = ps[2] if len(ps) > 2 else None
        rets = [r for r in walk_no_nested(f.node) if isinstance(r, ast.Return) and isinstance(r.value, ast.Call)]
        canon = rets and all(any(isinstance(x, ast.Call) and call_name(x) == "sorted" for x in ast.walk(r.value)) for r in rets)
        # or the expander registered for the same types sorts
        for gq, g in m.functions.items():
            eregs = {dotted(d.args[0]) for d in g.node.decorator_list if isinstance(d, ast.Call) and isinstance(d.func, ast.Attribute)
                     and d.func.attr == "expander" and d.args}
            if g.cls == f.cls and hashed <= eregs:
                ys = [y for y in walk_no_nested(g.node) if isinstance(y, (ast.Yield, ast.YieldFrom, ast.Return)) and y.value is not None]
                if ys and all(any(isinstance(x, ast.Call) and call_name(x) == "sorted" for x in ast.walk(y.value)) for y in ys):
                    canon = True
        if canon:
            ctx.proved("R07i", f.file, f.short, f.node, f"{f.short} canonical order", "children of a hash-ordered object are sorted before the node is built")
        else:
            ctx.violation("R07i", f.file, f.short, rets[0] if rets else f.node, f"{f.short} canonical order",
                          f"{f.short} is registered for {sorted(hashed)} and builds `{norm(rets[0].value, 50) if rets else '?'}` from children that "
                          f"arrive in the set's iteration order; for members with seed-dependent hashes (str, bytes, tuples of them) "
                          f"that order - and with it the printed element order and the matcher's tie-breaking - changes with "
                          f"PYTHONHASHSEED")
    ctx.floor("R07i", n, 1, "builders registered for set / frozenset")


def r07j(ctx):
    m = ctx.model
    ctx.rule("R07j", "memoised functions hand out immutable values: a function under functools.lru_cache / cache must not return an "
                     "instance of a project class that is refined in place (an Edit / Bounded object whose bounds tighten lazily, or "
                     "a node): every caller would share one object, and what one comparison refined would change the next one")
    BOUNDED = m.find_class("Bounded")
    TREE = "graphtage.tree.TreeNode"
    n = 0
    for fq, f in sorted(m.functions.items()):
        decs = [dotted(d.func) if isinstance(d, ast.Call) else dotted(d) for d in f.node.decorator_list]
        if not any(d and d.rsplit(".", 1)[-1] in ("lru_cache", "cache", "cached_property") for d in decs):
            continue
        n += 1
        stateful = []
        for r in walk_no_nested(f.node):
            if isinstance(r, ast.Return) and isinstance(r.value, ast.Call):
                k = m.resolve_class(f.module, r.value.func)
                if k and (m.method(k, "tighten_bounds") is not None or m.is_subclass(k, TREE) or (BOUNDED and m.is_subclass(k, BOUNDED))):
                    stateful.append((r, k))
        if stateful:
            r, k = stateful[0]
            ctx.violation("R07j", f.file, f.short, r, f"{f.short} memoises a stateful object",
                          f"{f.short} is memoised ({', '.join(d for d in decs if d)}) and returns `{norm(r.value, 50)}`, a {k.rsplit('.', 1)[-1]}: its "
                          f"bounds are tightened in place, so every later call with the same arguments receives an object some earlier "
                          f"comparison already refined - matcher decisions taken on non-final bounds then depend on what was diffed "
                          f"before in the same process")
        else:
            ctx.proved("R07j", f.file, f.short, f.node, f"{f.short} memoises a stateful object", "memoised value is not a lazily refined project object", nontrivial=False)
    ctx.note(f"R07j: {n} memoised function(s) in the package")


def run(ctx):
    r07l(ctx)
    r07m(ctx)
    r07n(ctx)
    from ..memo import e13
    e13(ctx)          # no value is cached under part of its inputs (stale output on reuse)
    m = ctx.model
    cg = CallGraph(m)
    ent, inst = diff_entries(m)
    reach, inst = cg.reachable(ent, inst)
    ctx.extra = {"callgraph": {"entries": len(ent), "reachable_functions": len(reach), "instantiated_classes": len(inst),
                               "name_fallback_edges": cg.unresolved}}
    r07a(ctx, reach)
    r07b(ctx, reach)
    r07c(ctx)
    r07d(ctx, reach)
    r07e(ctx)
    r07f(ctx, inst)
    r07g(ctx)
    r07h(ctx)
    r07i(ctx)
    r07j(ctx)
    ctx.assume("the CLI entry point owns its process: main() closes the stream it printed to (sys.stdout), so calling main() "
               "twice on the real stdout in one process is not part of what is decided (callers pass their own stream)")
    ctx.assume("third-party libraries (scipy assignment, json/yaml/plist encoders, intervaltree iteration) are deterministic")
    ctx.assume("dict and Counter iteration is insertion-ordered (CPython >= 3.7); only set/frozenset order is hash-dependent")
