"""C05 witness 2: an EditSequence (EditCollection with explode_edits=True) replaces a compound sub-edit by whatever that
sub-edit's edits() lists at the moment of expansion and never refines the sub-edit itself. For a PossibleEdits that
listing is the *provisional* best alternative, so the final cost and script of the sequence depend on whether the
PossibleEdits was refined before the sequence was."""
import sys

from graphtage import json as gjson
from graphtage.edits import EditSequence, PossibleEdits, Replace
from graphtage.graphtage import BuildOptions
from graphtage.tree import explode_edits
import graphtage.levenshtein as lev

lev.DEFAULT_PRINTER.quiet = True

FROM = {"name": "graphtage", "tags": ["json", "yaml", "xml"], "version": 1}
TO = {"title": "graphtage", "tags": ["json", "yaml", "csv", "xml"], "version": 2}
OPTIONS = BuildOptions(allow_key_edits=False)  # what the command line option --no-key-edits / -k builds


def make():
    a = gjson.build_tree(FROM, OPTIONS)
    b = gjson.build_tree(TO, OPTIONS)
    choice = PossibleEdits(a, b, iter([Replace(a, b), a.edits(b)]))
    return choice, EditSequence(a, b, iter([choice]))


def finish(edit):
    steps = 0
    while edit.tighten_bounds():
        steps += 1
        if steps > 100000:
            print("tighten_bounds() does not terminate")
            sys.exit(1)
    return str(edit.bounds()), [type(e).__name__ for e in explode_edits(edit) if e.bounds().upper_bound > 0]


# Driving A: refine the sequence only
_, seq_a = make()
res_a = finish(seq_a)

# Driving B: refine the sub-edit first (the caller created it and holds it), then the sequence
choice, seq_b = make()
while choice.tighten_bounds():
    pass
res_b = finish(seq_b)

# for reference: the PossibleEdits on its own
choice, _ = make()
res_c = finish(choice)

print("A (sequence only):            cost, costly leaf edits =", res_a)
print("B (sub-edit first, then seq): cost, costly leaf edits =", res_b)
print("the PossibleEdits on its own: cost, costly leaf edits =", res_c)
if res_a != res_b:
    print("VIOLATION: the final cost and script of the EditSequence depend on the order in which the edits were refined")
    sys.exit(1)
sys.exit(0)
