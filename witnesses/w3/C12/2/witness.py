"""C12: `graphtage x.csv x.csv` (the command-line way of printing a document in its own format) appends a line break to
the CSV text, which already ends with one: the output has one more (empty) row than the document."""
import os
import subprocess
import sys
import tempfile

import graphtage


def main() -> int:
    ft = graphtage.FILETYPES_BY_TYPENAME['csv']
    failures = []
    with tempfile.TemporaryDirectory() as d:
        for i, text in enumerate(['a,b\nc,d\n', 'a', 'x,"y\nz"\r\n']):
            src = os.path.join(d, f'in{i}.csv')
            with open(src, 'w', newline='') as f:
                f.write(text)
            proc = subprocess.run(
                [sys.executable, '-m', 'graphtage', '--quiet', '--no-color', src, src],
                stdout=subprocess.PIPE, stderr=subprocess.DEVNULL
            )
            if proc.returncode != 0:
                print(f'{text!r}: graphtage exited with {proc.returncode}; skipped')
                continue
            out = os.path.join(d, f'out{i}.csv')
            with open(out, 'wb') as f:
                f.write(proc.stdout)
            before = ft.build_tree(src)
            after = ft.build_tree(out)
            if before != after:
                failures.append(f'document {text!r} is printed as {proc.stdout.decode()!r}: '
                                f'{len(before)} row(s) before, {len(after)} row(s) after ({after!r})')
    for f in failures:
        print('VIOLATION', f)
    return 1 if failures else 0


if __name__ == '__main__':
    sys.exit(main())
