"""C12 witness: a moderately deeply nested document is accepted by the loader but cannot be printed at all:
the formatter needs ~6 Python frames per nesting level (the loaders need 1-2), so printing raises RecursionError
for documents the same loader happily accepts (JSON arrays nested 166..~495 deep at the default recursion limit)."""
import os
import sys
import tempfile
from io import StringIO

import graphtage
from graphtage.printer import Printer

DEPTH = 200


def load(ft, text, suffix):
    fd, path = tempfile.mkstemp(suffix=suffix)
    try:
        with os.fdopen(fd, 'wb') as f:
            f.write(text.encode('utf-8'))
        return ft.build_tree(path)
    finally:
        os.unlink(path)


def check(name, src):
    ft = graphtage.FILETYPES_BY_TYPENAME[name]
    try:
        tree = load(ft, src, '.' + name)
    except (RecursionError, ValueError) as e:
        # the loader itself refuses the document: then it is outside the property
        print(f'{name}: loader refuses depth {DEPTH} ({type(e).__name__}); not a violation')
        return None
    out = StringIO()
    try:
        ft.get_default_formatter().print(Printer(out_stream=out, ansi_color=False, quiet=True), tree)
    except RecursionError as e:
        return f'{name}: nesting depth {DEPTH} loads fine, but printing raises RecursionError: {e}'
    try:
        again = load(ft, out.getvalue(), '.' + name)
    except Exception as e:
        return f'{name}: printed text rejected on reload: {e!r}'
    # compare via plain python objects (tree == tree is exponential for nested dicts)
    if name != 'xml' and repr(tree.to_obj()) != repr(again.to_obj()):
        return f'{name}: reloaded document differs'
    return None


def main():
    d = DEPTH
    docs = [
        ('json', '[' * d + ']' * d),
        ('json', '{"a":' * d + '1' + '}' * d),
        ('yaml', '[' * d + '1' + ']' * d),
        ('plist', '<plist version="1.0">' + '<array>' * d + '</array>' * d + '</plist>'),
        ('xml', '<a>' * d + '</a>' * d),
    ]
    bad = [b for b in (check(n, s) for n, s in docs) if b]
    if bad:
        print(f'VIOLATION (recursion limit {sys.getrecursionlimit()}):')
        for b in bad:
            print('  ' + b)
        return 1
    print('ok')
    return 0


if __name__ == '__main__':
    sys.exit(main())
