"""C07 witness 1: two identical colour renderings in one process give different bytes.

The first Printer(ansi_color=True) of a process keeps the real sys.stdout and then calls colorama.init(), which
replaces sys.stdout by a wrapper that strips ANSI escapes when the stream is not a terminal.  Every later
Printer(ansi_color=True) picks up that wrapper, so the very same diff, printed with the very same options, loses its
colours from the second call on (stdout redirected to a pipe/file, the usual situation for a library user or a test).
"""
import subprocess
import sys

MARK = "\n@@@@NEXT@@@@\n"

CHILD = r'''
import sys
import graphtage.printer
graphtage.printer.DEFAULT_PRINTER.quiet = True   # silence the progress bars on stderr
from graphtage import pydiff
from graphtage.printer import Printer
for i in range(3):
    if i:
        sys.stdout.write(%r)
        sys.stdout.flush()
    p = Printer(ansi_color=True, quiet=True)      # same options every time; stream defaults to sys.stdout
    pydiff.print_diff([1, 2, 3], [1, 3, 4], printer=p)
    p.flush(final=True)
    sys.stdout.flush()
''' % MARK


def main() -> int:
    proc = subprocess.run([sys.executable, "-c", CHILD], stdout=subprocess.PIPE, stderr=subprocess.PIPE)
    if proc.returncode != 0:
        print("child failed unexpectedly:\n" + proc.stderr.decode("utf-8", "replace"))
        return 2
    outs = proc.stdout.decode("utf-8").split(MARK)
    if len(outs) != 3:
        print(f"expected 3 renderings, got {len(outs)}: {proc.stdout!r}")
        return 2
    if len(set(outs)) != 1:
        print("VIOLATION: the same diff printed three times with Printer(ansi_color=True) in one process differs:")
        for i, o in enumerate(outs):
            print(f"  call {i + 1}: {o!r}")
        return 1
    print("ok: all three renderings are byte-identical")
    return 0


if __name__ == "__main__":
    sys.exit(main())
