"""C13 witness: a pickled dict with two (or more) tuple keys - e.g. {(0, 0): 'a', (0, 1): 'b'} - cannot be compared
in any format or mode: DictNode.from_dict() sorts the key/value pairs, and container keys have no order.

Exits 1 when a run of the command line ends in a traceback, 0 otherwise."""
import os
import pickle
import subprocess
import sys
import tempfile


def graphtage(*argv):
    p = subprocess.run([sys.executable, '-m', 'graphtage', '--no-status', *argv], capture_output=True, text=True,
                       errors='replace')
    return p.returncode, p.stdout, p.stderr


def main():
    failures = []
    with tempfile.TemporaryDirectory() as d:
        def w(name, obj, protocol=4):
            path = os.path.join(d, name)
            with open(path, 'wb') as f:
                f.write(pickle.dumps(obj, protocol=protocol))
            return path
        a = w('a.pkl', {(0, 0): 'a', (0, 1): 'b'})
        b = w('b.pkl', {(0, 0): 'a', (0, 2): 'c'})
        mixed = w('mixed.pkl', {1: 'a', (1, 2): 'b'}, protocol=2)   # a scalar key next to a tuple key
        fs = w('fs.pkl', {frozenset([1]): 'a', frozenset([2]): 'b'})
        runs = [
            ('two tuple keys, identical files', [a, a]),
            ('two tuple keys, different files, -f json', [a, b, '-f', 'json']),
            ('two tuple keys, edit list', [a, b, '-e']),
            ('two tuple keys, edit digest, -f yaml', [a, b, '-d', '-f', 'yaml']),
            ('int key and tuple key', [mixed, mixed]),
            ('two frozenset keys', [fs, fs]),
        ]
        for label, argv in runs:
            rc, out, err = graphtage(*argv)
            if 'Traceback (most recent call last)' in err or rc not in (0, 1):
                last = [line for line in err.strip().splitlines() if line.strip()][-1] if err.strip() else ''
                failures.append(f'{label}: exit status {rc}; {last[:160]}')
        # the same documents are handled when dictionaries are built without sorting (-k): shows that the input is fine
        rc, out, err = graphtage(a, b, '-k')
        control = 'ok' if rc in (0, 1) and 'Traceback' not in err else 'also fails'
    if failures:
        print('VIOLATION: a pickle holding a dict with container keys cannot be compared/rendered:')
        for f in failures:
            print('  -', f)
        print(f'  (control run with --no-key-edits: {control})')
        return 1
    print('ok: all runs completed without an internal error')
    return 0


if __name__ == '__main__':
    sys.exit(main())
