"""C01 witness 4: a multiset that holds the same container twice. MultiSetNode keeps its children in a Counter, so the
two copies are ONE node object; the edits of the two copies (one "changed", one "removed") are recorded on that single
node, overwrite each other, and the reported diff loses an element of the second document."""
import io
import sys

from graphtage import IntegerNode as I, ListNode as L, MultiSetNode as M, Remove
from graphtage import json as gjson
from graphtage.printer import DEFAULT_PRINTER, Printer
from graphtage.tree import CompoundEdit

DEFAULT_PRINTER.quiet = True

failures = []
for amk in (True, False):
    first = M([L([I(1111)]), L([I(1111)])], auto_match_keys=amk)     # {[1111], [1111]}
    second = M([L([I(2222)]), L([I(3333)])], auto_match_keys=amk)    # {[2222], [3333]}
    d = first.diff(second)
    script = list(d.edit.edits())
    # the script itself is consistent: one copy changed, one copy removed, one element inserted
    out = io.StringIO()
    gjson.JSONFormatter.DEFAULT_INSTANCE.print(Printer(out_stream=out, ansi_color=False, quiet=True), d)
    text = ' '.join(out.getvalue().split())
    missing = [str(v) for v in (2222, 3333) if str(v) not in text]
    if missing:
        failures.append(f"auto_match_keys={amk}: edit script is {[type(e).__name__ for e in script]} but the report "
                        f"{text!r} never shows {', '.join(missing)} of the second document")
    # the annotations of the edited tree: every element must be either removed or changed, not both
    for child in set(map(id, d.children())):
        node = next(c for c in d.children() if id(c) == child)
        compound = [e for e in node.edit_list if isinstance(e, CompoundEdit)]
        removes = [e for e in node.edit_list if isinstance(e, Remove)]
        if compound and removes:
            failures.append(f"auto_match_keys={amk}: the element {node} of the first document is annotated as changed "
                            f"({type(compound[0]).__name__}) AND removed (removed={node.removed}); "
                            f"node.edit is {type(node.edit).__name__}, len(children())={len(d.children())}, "
                            f"distinct child objects={len(set(map(id, d.children())))}")

if failures:
    print("VIOLATION: duplicate elements of a multiset are not accounted for exactly once")
    for f in failures:
        print(" -", f)
    sys.exit(1)
print("ok")
sys.exit(0)
