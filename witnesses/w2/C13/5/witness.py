"""C13 witness 5: moderately nested documents (far below what the parsers accept) cannot be rendered as a full diff.

The edit list (-e) and the edit digest (-d) of the very same comparison succeed, the default full diff dies with a
RecursionError while it builds the edited copy of the tree (TreeNode.make_edited / editable_dict).
Exit status: 1 if the internal error shows, 0 otherwise.
"""
import os
import subprocess
import sys
import tempfile

HERE = os.path.dirname(os.path.abspath(__file__))
DICT_DEPTH = 150    # json.load() itself accepts ~990 levels
LIST_DEPTH = 300


def graphtage(*args):
    p = subprocess.run([sys.executable, "-m", "graphtage", "--no-status", *args], capture_output=True, text=True)
    return p.returncode, p.stdout, p.stderr


def main():
    failures = []
    with tempfile.TemporaryDirectory(dir=HERE) as d:
        docs = {
            "dict_a.json": '{"a":' * DICT_DEPTH + '1' + '}' * DICT_DEPTH,
            "dict_b.json": '{"a":' * DICT_DEPTH + '2' + '}' * DICT_DEPTH,
            "list_a.json": '[' * LIST_DEPTH + '1' + ']' * LIST_DEPTH,
            "list_b.json": '[' * LIST_DEPTH + '2' + ']' * LIST_DEPTH,
        }
        for name, text in docs.items():
            with open(os.path.join(d, name), "w") as f:
                f.write(text)
        for kind in ("dict", "list"):
            a, b = os.path.join(d, f"{kind}_a.json"), os.path.join(d, f"{kind}_b.json")
            for other, what in ((b, "with a difference"), (a, "identical")):
                for opts in (("-e",), ("-d",), ()):
                    rc, out, err = graphtage(a, other, *opts)
                    bad = rc not in (0, 1) or "Traceback" in err
                    last = err.strip().splitlines()[-1] if err.strip() else ""
                    mode = " ".join(opts) or "(full diff)"
                    print(f"{kind} depth {DICT_DEPTH if kind == 'dict' else LIST_DEPTH}, {what}, {mode}: "
                          f"{'INTERNAL ERROR ' + last[:80] if bad else 'ok'}")
                    if bad:
                        failures.append((kind, what, mode, last))
    if failures:
        print("VIOLATION: nested documents cannot be rendered in (at least) one output mode")
        return 1
    print("ok: nested documents rendered in all three modes")
    return 0


if __name__ == "__main__":
    sys.exit(main())
