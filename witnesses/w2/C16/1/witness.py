"""C16 witness: a legal sequence of push / pop / remove / decrease_key makes
FibonacciHeap.decrease_key (and remove) blow the Python stack, and afterwards
peek()/pop() no longer yield a minimum.

The sequence builds one tall tree: a path root -> y_D -> ... -> y_1 -> c in which every
inner node is *marked* (each has lost one child while being a non-root).  Nine heap
operations add one level.  Decreasing the key of the bottom node then triggers
_cascading_cut once per level -- recursively.
"""
import sys
from graphtage.fibonacci import FibonacciHeap, MaxFibonacciHeap


class Inconclusive(Exception):
    """The tree did not take the shape the construction relies on (not a property violation)."""


def expect(cond, what):
    if not cond:
        raise Inconclusive(what)


def build(heap, sign, depth):
    """Returns (bottom_node, live) where live maps item -> current key (oracle)."""
    live = {}
    counter = [0]

    def push(key):
        counter[0] += 1
        item = (key, counter[0])
        node = heap.push(item)
        live[item] = key
        return node

    def pop():
        item = heap.pop()
        want = min(live.values()) if sign > 0 else max(live.values())
        if live.get(item) != want:
            print(f"unexpected: pop during construction returned {item!r}, wanted key {want}")
            sys.exit(1)
        del live[item]

    def remove(node):
        heap.remove(node)
        del live[node.item]

    # base: x -> {e, c}
    k = 0
    push(sign * (k - 5))
    x = push(sign * (k - 4))
    others = [push(sign * (k - 3 + i)) for i in range(3)]
    pop()
    grand = [n for n in others if n.parent is not x]
    expect(len(grand) == 1, "binomial tree of 4 nodes")
    remove(grand[0])
    e, c = [n for n in others if n is not grand[0]]
    # make sure `c` is the child that stays; `e` is the spare leaf
    bottom = c
    top, spare = x, e
    for level in range(1, depth + 1):
        k = -10 * level
        push(sign * (k - 5))                                   # will be popped
        y1 = push(sign * (k - 4))
        ys = [push(sign * (k - 3 + i)) for i in range(3)]
        pop()                                                 # consolidate: y1 -> {leaf, p -> {g}, top}
        expect(top.parent is y1, "old tree linked below the new root")
        g = [n for n in ys if n.parent is not y1]
        expect(len(g) == 1, "one grandchild")
        p = g[0].parent
        remove(g[0])
        remove(p)
        new_spare = [n for n in ys if n is not g[0] and n is not p][0]
        remove(spare)                                         # `top` loses a child as a non-root: marked
        expect(top.mark, "node marked after losing a child")
        top, spare = y1, new_spare
    return bottom, live


def check(heap_type, sign, name):
    depth = sys.getrecursionlimit() + 100
    heap = heap_type(key=lambda item: item[0])
    bottom, live = build(heap, sign, depth)
    if len(heap) != len(live):
        print(f"{name}: len {len(heap)} != {len(live)} after construction")
        return False
    new_key = sign * (-10 * depth - 1000)     # strictly better than every live key
    ok = True
    try:
        heap.decrease_key(bottom, new_key)
    except RecursionError as ex:
        print(f"{name}: decrease_key raised RecursionError after {depth * 9 + 7} legal operations "
              f"(tree path of {depth} marked nodes)")
        ok = False
    raw = bottom.key.key if heap_type is MaxFibonacciHeap else bottom.key
    live[bottom.item] = raw     # whatever the heap recorded as the node's key
    best = min(live.values()) if sign > 0 else max(live.values())
    if len(heap) != len(live):
        print(f"{name}: len {len(heap)} != {len(live)}")
        ok = False
    shown = heap.peek()
    if live.get(shown) != best:
        print(f"{name}: peek() shows item {shown!r} with key {live.get(shown)}, "
              f"but the best live key is {best} (item {bottom.item!r})")
        ok = False
    got = heap.pop()
    if live.get(got) != best:
        print(f"{name}: pop() returned item {got!r} with key {live.get(got)}, "
              f"but the best live key is {best}")
        ok = False
    return ok


def check_remove(name):
    depth = sys.getrecursionlimit() + 100
    heap = FibonacciHeap(key=lambda item: item[0])
    bottom, live = build(heap, 1, depth)
    try:
        heap.remove(bottom)
    except RecursionError:
        print(f"{name}: remove raised RecursionError; len(heap)={len(heap)} but {len(live) - 1} items "
              f"should be live")
        return False
    return True


if __name__ == '__main__':
    try:
        results = [
            check(FibonacciHeap, 1, "min-heap"),
            check(MaxFibonacciHeap, -1, "max-heap"),
            check_remove("min-heap remove"),
        ]
    except Inconclusive as ex:
        print(f"inconclusive: construction assumption failed ({ex}); no violation shown")
        sys.exit(0)
    sys.exit(0 if all(results) else 1)
