#!/usr/bin/env python
"""C20: with --html, a malformed input still produces a "Graphtage Diff of A and B" HTML document on standard output
(the error goes to stderr, but stdout is not empty: `graphtage --html a b > report.html` leaves a report behind)."""
import os
import subprocess
import sys
import tempfile

GOOD = {'json': b'{"a": [1, 2]}', 'xml': b'<a><b>1</b></a>'}
BAD = {
    'json': b'{"a": [1, 2}',
    'json5': b'{a: [1, 2}',
    'yml': b'a: [1, 2\n',
    'xml': b'<a><b>1</a>',
    'html': b'<html><body>x</html>',
    'plist': b'<plist version="1.0"><dict><key>a</key><integer>1</integer></plist>',
}


def main() -> int:
    problems = []
    with tempfile.TemporaryDirectory() as d:
        good = os.path.join(d, 'good.json')
        with open(good, 'wb') as f:
            f.write(GOOD['json'])
        for ext, data in BAD.items():
            bad = os.path.join(d, 'bad.' + ext)
            with open(bad, 'wb') as f:
                f.write(data)
            for pos, args in (('first', [bad, good]), ('second', [good, bad])):
                # control: without --html nothing is written to stdout
                plain = subprocess.run([sys.executable, '-m', 'graphtage'] + args, capture_output=True)
                if plain.stdout.strip() or plain.returncode == 0 or b'Error parsing bad.' not in plain.stderr:
                    print(f"unexpected: the plain run for {ext}/{pos} is not a clean error report; not the defect shown here")
                    return 0
                p = subprocess.run([sys.executable, '-m', 'graphtage', '--html'] + args, capture_output=True)
                if p.stdout.strip():
                    problems.append(f"bad.{ext} as {pos} file: {len(p.stdout)} bytes on stdout, "
                                    f"starting {p.stdout[:24]!r}, title line: "
                                    f"{[l for l in p.stdout.decode().splitlines() if 'title' in l][:1]}")
    if problems:
        print("VIOLATION of C20 (--html prints a diff document although an input is malformed):")
        for p in problems:
            print("  -", p)
        return 1
    print("ok: nothing on stdout")
    return 0


if __name__ == '__main__':
    sys.exit(main())
