"""C19: a match expression subscripts a class behind get_item's back.

`'abc'.translate(K)` makes CPython call PyObject_GetItem(K, 97).  For a class that reads K.__class_getitem__
(an underscore attribute of an object the expression can reach) and, if the class defines it, CALLS that private
classmethod and hands its result back to the expression.  get_item() refuses `K[97]` for exactly this reason, but the
refusal only guards the `[` operator.
"""
import sys
from graphtage.expressions import parse

READS = []       # underscore attributes read from the tripwired class
CALLS = []       # invocations of the private classmethod


class Tripwire(type):
    def __getattribute__(cls, name):
        if name.startswith('_'):
            READS.append(name)
        return super().__getattribute__(name)


class Plain(metaclass=Tripwire):
    """a class without any subscription support"""


class Generic(metaclass=Tripwire):
    def __class_getitem__(cls, key):
        CALLS.append(key)
        return 'PRIVATE-RESULT'


def evaluate(expr, **env):
    try:
        return parse(expr).eval(locals=env)
    except Exception as e:
        return e


problems = []

# control: the direct subscription is refused without touching the class
del READS[:]
r = evaluate("K[97]", K=Plain)
if not isinstance(r, Exception) or READS:
    print(f"(control unexpected: K[97] -> {r!r}, reads {READS})")

# 1. the class is subscripted anyway: __class_getitem__ is read from it
del READS[:]
r = evaluate("'abc'.translate(K)", K=Plain)
if READS:
    problems.append(f"'abc'.translate(K) read {sorted(set(READS))} from class K (result: {r!r})")

# 2. ... and if it exists, the private classmethod runs and its value reaches the expression
del READS[:]
r = evaluate("'a'.translate(K)", K=Generic)
if CALLS or READS:
    problems.append(f"'a'.translate(K) read {sorted(set(READS))}, called K.__class_getitem__{tuple(CALLS)!r} "
                    f"and evaluated to {r!r}")

# 3. same thing through the unbound method of the whitelisted built-in `str`
del READS[:]
r = evaluate("str.translate('a', K)", K=Plain)
if READS:
    problems.append(f"str.translate('a', K) read {sorted(set(READS))} from class K")

if problems:
    print("VIOLATION: evaluating a match expression read underscore attributes:")
    for p in problems:
        print("  -", p)
    sys.exit(1)
print("ok: no underscore attribute was read")
sys.exit(0)
