"""C01 witness 2: the XML report drops everything that is inserted into an element that had no attribute / no child /
no text before: the edit script contains the Insert edits, but the printed diff shows the element unchanged."""
import io
import sys
import xml.etree.ElementTree as ET

from graphtage import xml as gxml, BuildOptions, Insert
from graphtage.printer import DEFAULT_PRINTER, Printer
from graphtage.tree import explode_edits

DEFAULT_PRINTER.quiet = True

CASES = [
    # name, first document, second document, text that only the second document contains
    ("attribute inserted into the root", '<a>t</a>', '<a newattr="1">t</a>', 'newattr'),
    ("child inserted into the root", '<a o="1">t</a>', '<a o="1">t<newchild /></a>', 'newchild'),
    ("text inserted into the root", '<a o="1" />', '<a o="1">newtext</a>', 'newtext'),
    ("all three, nested", '<r><a /><k>t</k></r>', '<r><a newattr="1">newtext<newchild /></a><k>t</k></r>', 'newattr'),
    ("attribute inserted, larger element",
     '<r><item>some longer text<sub>inner text</sub></item><k>t</k></r>',
     '<r><item newattr="1">some longer text<sub>inner text</sub></item><k>t</k></r>', 'newattr'),
    ("control: attribute added next to an existing one", '<a o="1" />', '<a o="1" newattr="1" />', 'newattr'),
]

failures = []
for opts in (dict(), dict(allow_key_edits=False, auto_match_keys=False), dict(allow_list_edits=False)):
    for name, first, second, marker in CASES:
        a = gxml.build_tree(ET.fromstring(first), BuildOptions(**opts))
        b = gxml.build_tree(ET.fromstring(second), BuildOptions(**opts))
        d = a.diff(b)
        inserts = [e for e in explode_edits(d.edit) if isinstance(e, Insert)]
        out = io.StringIO()
        gxml.XMLFormatter.DEFAULT_INSTANCE.print(Printer(out_stream=out, ansi_color=False, quiet=True), d)
        text = out.getvalue()
        if marker not in text:
            failures.append(f"{name} (options {opts}): {first} -> {second}: the edit script has {len(inserts)} Insert "
                            f"edit(s) but the report is {' '.join(text.split())!r}; {marker!r} appears nowhere")

if failures:
    print("VIOLATION: elements of the second document are missing from the reported diff")
    for f in failures:
        print(" -", f)
    sys.exit(1)
print("ok")
sys.exit(0)
