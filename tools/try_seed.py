#!/venv/bin/python
"""Apply a seeded change to /repo, run the (claimed) quick checks without writing evidence, undo it.
usage: try_seed.py <seed-id>|<patch file> [PROP ...]   (default: every claimed property)"""
import json, os, subprocess, sys
V = os.path.dirname(os.path.dirname(os.path.abspath(__file__)))
arg = sys.argv[1]
patch = arg if os.path.isfile(arg) else os.path.join(V, "seeded", arg, "patch.diff")
props = sys.argv[2:] or [c["property_id"] for c in json.load(open(os.path.join(V, "MANIFEST.json")))["checks"]]
assert subprocess.run(["git", "-C", "/repo", "status", "--porcelain", "--untracked-files=no"], capture_output=True, text=True).stdout.strip() == "", "/repo dirty"
r = subprocess.run(["git", "-C", "/repo", "apply", "--whitespace=nowarn", patch], capture_output=True, text=True)
if r.returncode:
    print("PATCH DOES NOT APPLY", r.stderr); sys.exit(3)
try:
    fired = []
    for p in props:
        r = subprocess.run([os.path.join(V, "check"), p, "--no-write"], capture_output=True, text=True)
        tag = {0: "silent", 1: "VIOLATION", 2: "ANALYSIS-ERROR"}.get(r.returncode, str(r.returncode))
        if r.returncode:
            fired.append(p)
            lines = [l for l in r.stdout.splitlines() if l.strip().startswith(("violation", "INCONCLUSIVE", "ANALYSIS-ERROR", "path:"))]
            print(f"  {p}: {tag}")
            for l in lines[:6]:
                print("      " + l.strip()[:300])
    print(f"{os.path.basename(os.path.dirname(patch)) or patch}: fired={fired or 'NONE'}")
finally:
    subprocess.run(["git", "-C", "/repo", "checkout", "--", "."], check=True)
