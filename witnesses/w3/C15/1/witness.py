"""C15: a COMPLETE float table (no missing pair, so no sentinel is involved) whose entries are
finite doubles of magnitude FM/2 .. FM gets a pairing that is far from minimal."""
import itertools
import sys
import warnings
from fractions import Fraction

from graphtage.matching import min_weight_bipartite_matching

warnings.simplefilter("ignore")
FM = sys.float_info.max
H, Q, T = FM / 2, FM / 4, FM / 2 * 0.75

TABLES = {
    "3x3 with +-FM": [[FM, 0.0, -FM],
                      [FM, FM, 0.0],
                      [0.0, -FM, 0.0]],
    "4x4 with |w| <= FM/2": [[Q, 0.0, T, Q],
                             [H, Q, Q, -H],
                             [H, 0.0, H, -H],
                             [0.0, H, -H, Q]],
}


def exact_optimum(table):
    n = len(table)
    return min(
        (sum(Fraction(table[i][p[i]]) for i in range(n)), p) for p in itertools.permutations(range(n))
    )


failed = False
for name, table in TABLES.items():
    n = len(table)
    result = min_weight_bipartite_matching(range(n), range(n), lambda i, j: table[i][j])
    pairs = {int(i): int(j) for i, (j, _) in result.items()}
    valid = (
        len(pairs) == n and len(set(pairs.values())) == n
        and all(w == table[i][j] for i, (j, w) in result.items())
    )
    got = sum(Fraction(w) for _, w in result.values())
    best, best_perm = exact_optimum(table)
    if not valid or got != best:
        failed = True
        print(f"{name}: table = {table}")
        print(f"  returned pairing {pairs} with total {float(got)!r}")
        print(f"  but pairing {dict(enumerate(best_perm))} has total {float(best)!r}"
              f" (excess {float(got - best)!r}, i.e. {float((got - best) / Fraction(FM))} * FM)")
sys.exit(1 if failed else 0)
