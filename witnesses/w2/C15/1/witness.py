"""WeightedBipartiteMatcher loses pairs (and reads the wrong table row) when two items compare equal."""
import sys
from graphtage.matching import WeightedBipartiteMatcher
from graphtage.bounds import ConstantBound

problems = []

# (a) plain values: two equal items on the left, complete 2x2 table of weight 1
m = WeightedBipartiteMatcher(['a', 'a'], ['x', 'y'], lambda f, t: ConstantBound(1))
match = m.matching
if len(match) != 2:
    problems.append(f"(a) 2x2 complete table, expected 2 pairs, got {len(match)}: {dict(match)!r}; bounds {m.bounds()}")

# (b) items that are equal by value but are different rows of the table (this is what graphtage's LeafNodes are)
class Item:
    def __init__(self, value, row):
        self.value, self.row = value, row
    def __eq__(self, other):
        return isinstance(other, Item) and self.value == other.value
    def __hash__(self):
        return hash(self.value)
    def __repr__(self):
        return f"Item({self.value!r}, row={self.row})"

W = [[1, 5],
     [5, 1]]          # optimum: 0-0 and 1-1, total 2
left = [Item('a', 0), Item('a', 1)]
right = [Item('x', 0), Item('y', 1)]
m = WeightedBipartiteMatcher(left, right, lambda f, t: ConstantBound(W[f.row][t.row]))
pairs = [(f.row, t.row, e.bounds().upper_bound) for f, (t, e) in m.matching.items()]
total = sum(w for _, _, w in pairs)
if len(pairs) != 2 or total != 2:
    problems.append(f"(b) expected pairs 0-0,1-1 with total 2, got {pairs} total {total}")
for fr, tr, w in pairs:
    if W[fr][tr] != w:
        problems.append(f"(b) pair {fr}-{tr} reported with weight {w}, its true weight is {W[fr][tr]}")

# (c) the same thing end to end: {1,1} -> {2,3} must cost what {1,2} -> {3,4} costs (two replacements)
try:
    from graphtage import MultiSetNode, IntegerNode
    def cost(a, b):
        e = MultiSetNode([IntegerNode(i) for i in a]).edits(MultiSetNode([IntegerNode(i) for i in b]))
        while e.tighten_bounds():
            pass
        return sum(x.bounds().upper_bound for x in e.edits())
    c_dup, c_ref = cost([1, 1], [2, 3]), cost([1, 2], [3, 4])
    if c_dup != c_ref:
        problems.append(f"(c) multiset diff [1,1]->[2,3] costs {c_dup}, [1,2]->[3,4] costs {c_ref}")
except ImportError:
    pass

if problems:
    print("VIOLATION: equal items collapse in WeightedBipartiteMatcher")
    for p in problems:
        print("  " + p)
    sys.exit(1)
print("ok")
sys.exit(0)
