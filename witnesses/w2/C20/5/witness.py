#!/usr/bin/env python
"""C20 witness 5: JSON5 documents with a doubled sign (`-+1`) or with an identifier escape that does not denote an
identifier character (`{\\u0020: 1}`) are not valid JSON5, yet graphtage loads and diffs them without any message.

The independent notion of validity is a hand-written transcription of the JSON5 1.0.0 grammar for the two shapes of
document used here (an array of numeric literals; an object with one unquoted key). Exit 1 on violation, 0 otherwise."""
import os
import re
import subprocess
import sys
import tempfile
import unicodedata

# JSON5NumericLiteral: [+-]? (Infinity | NaN | HexIntegerLiteral | DecimalLiteral)       (ECMAScript 5.1, 7.8.3)
NUM = re.compile(r'[+-]?(?:Infinity|NaN|0[xX][0-9a-fA-F]+|(?:0|[1-9][0-9]*)(?:\.[0-9]*)?(?:[eE][+-]?[0-9]+)?'
                 r'|\.[0-9]+(?:[eE][+-]?[0-9]+)?)')


def valid_number_array(text: str) -> bool:
    text = text.strip()
    if not (text.startswith('[') and text.endswith(']')):
        return False
    items = [i.strip() for i in text[1:-1].split(',')]
    if items and items[-1] == '':
        items.pop()                                     # one trailing comma is allowed
    return all(NUM.fullmatch(i) for i in items)


def ident_char(c: str, first: bool) -> bool:
    cat = unicodedata.category(c)
    if c in '$_' or cat in ('Lu', 'Ll', 'Lt', 'Lm', 'Lo', 'Nl'):
        return True
    return not first and (c in '\u200c\u200d' or cat in ('Mn', 'Mc', 'Nd', 'Pc'))


def valid_single_key_object(text: str) -> bool:
    m = re.fullmatch(r'\{\s*((?:\\u[0-9a-fA-F]{4}|[^\s:\\])+)\s*:\s*1\s*\}', text.strip())
    if not m:
        return False
    chars = [chr(int(p[2:], 16)) if p.startswith('\\u') else p
             for p in re.findall(r'\\u[0-9a-fA-F]{4}|.', m.group(1))]
    return all(ident_char(c, i == 0) for i, c in enumerate(chars))


GOOD = ("good.json5", "[-1, +1]", valid_number_array)
CASES = [
    ("double_sign.json5", "[-+1]", valid_number_array),            # GOOD with `1, ` deleted
    ("double_sign_float.json5", "[-+.5e3]", valid_number_array),
    ("escaped_space_key.json5", "{\\u0020: 1}", valid_single_key_object),   # `{\u0061: 1}` is fine, U+0020 is not a letter
    ("escaped_colon_key.json5", "{a\\u003ab: 1}", valid_single_key_object),
]


def run_cli(args, cwd):
    return subprocess.run([sys.executable, "-m", "graphtage", "--no-status", "--no-color"] + args, cwd=cwd,
                          stdout=subprocess.PIPE, stderr=subprocess.PIPE, timeout=120)


def main():
    assert GOOD[2](GOOD[1]) and valid_number_array("[0x1F, .5, 5., -Infinity, +NaN, 1e-3,]")
    assert valid_single_key_object("{\\u0061b: 1}") and valid_single_key_object("{$k_9: 1}")
    for name, text, check in CASES:
        assert not check(text), name
    failures = []
    with tempfile.TemporaryDirectory() as d:
        for name, text, _ in CASES + [GOOD]:
            with open(os.path.join(d, name), "w", encoding="utf-8") as f:
                f.write(text)
        for bad, text, _ in CASES:
            for args in ([bad, GOOD[0]], [GOOD[0], bad], [bad, bad]):
                p = run_cli(args, d)
                err = p.stderr.decode("utf-8", "replace")
                problems = []
                if "Traceback (most recent call last)" in err:
                    problems.append("uncaught exception: " + err.strip().splitlines()[-1])
                if "Error parsing " + bad not in err:
                    problems.append("no `Error parsing %s` message on stderr" % bad)
                if p.returncode == 0:
                    problems.append("exit status 0")
                if p.stdout.strip():
                    problems.append("a diff was printed on stdout: %r" % p.stdout.decode("utf-8", "replace").strip()[:60])
                if problems:
                    failures.append((text, args, problems))
    if failures:
        print("C20 VIOLATED: syntactically invalid JSON5 is diffed instead of reported")
        for text, args, problems in failures:
            print(f"  graphtage {' '.join(args)}   (bad file = {text!r})")
            for pr in problems:
                print(f"      - {pr}")
        return 1
    print("ok: every invalid JSON5 document was reported as an error naming the file")
    return 0


if __name__ == "__main__":
    sys.exit(main())
