"""Seeded mutants for checker self-validation (thorough tier).

Each mutant is a single textual edit of one file of graphtage (old text must occur exactly once, otherwise the mutant is
skipped and counted - the tree under analysis has moved on).  A mutant must still compile and must be reported by the
named rule of the named property.  The battery runs on scratch copies under a fresh mkdtemp directory; nothing in /repo is
touched.  A mutant that is not caught means the *checker* is broken (exit 2), never that graphtage is at fault.
"""

# (property, rule, file, old, new, description)
MUTANTS = [
    # ---- C01
    ("C01", "R01a", "sequences.py", "from_node.children()[len(to_node):]", "from_node.children()[len(from_node) - len(to_node):]", "wrong tail start"),
    ("C01", "R01a", "sequences.py", "to_node.children()[len(from_node):]", "to_node.children()[len(from_node) + 1:]", "off-by-one insert tail"),
    ("C01", "R01a", "sequences.py", "from_node.children()[len(to_node):]", "from_node.children()[-len(from_node) - len(to_node):]", "original defect"),
    ("C01", "R01b", "levenshtein.py", "brow, bcol, edit = row - 1, col, self.edit_matrix[row][0]", "brow, bcol, edit = row - 1, col, self.edit_matrix[0][col]", "swap step edits"),
    ("C01", "R01b", "levenshtein.py", "self.to_seq: Sequence[TreeNode] = to_seq[\n                                            len(self.shared_prefix):len(to_seq)-len(self.reversed_shared_suffix)", "self.to_seq: Sequence[TreeNode] = to_seq[\n                                            len(self.shared_prefix):len(to_seq)", "suffix trimmed from one side only"),
    ("C01", "R01b", "levenshtein.py", "edit = Remove(to_remove=self.from_seq[col - 1]", "edit = Remove(to_remove=self.from_seq[col]", "boundary cell index"),
    ("C01", "R01c", "multiset.py", "        yield from self._matched_kvp_edits\n", "", "drop pre-matched pair edits from the script"),
    ("C01", "R01c", "multiset.py", "self.to_insert = to_set - from_set", "self.to_insert = to_set & from_set", "wrong multiset algebra"),
    ("C01", "R01d", "graphtage.py", "            if kvp.key not in self._children:\n                yield Insert(to_insert=kvp, insert_into=self)", "            if kvp.key in self._children:\n                yield Insert(to_insert=kvp, insert_into=self)", "insert test inverted"),
    ("C01", "R01e", "xml.py", "self.tag_edit: Edit = from_node.tag.edits(to_node.tag)", "self.tag_edit: Edit = from_node.tag.edits(to_node.text)", "pair tag with text"),
    ("C01", "R01f", "edits.py", "    def on_diff(self, from_node: EditedTreeNode):\n        super().on_diff(from_node)\n        from_node.removed = True", "    def on_diff(self, from_node: EditedTreeNode):\n        from_node.removed = True", "Remove.on_diff does not record the edit"),
    ("C01", "R01g", "tree.py", "        edit.on_diff(ret)\n        return ret", "        if edit.has_non_zero_cost():\n            edit.on_diff(ret)\n        return ret", "conditional on_diff"),
    # ---- C02
    ("C02", "R02a", "graphtage.py", "            if self._children == node._children:\n                return Match(self, node, 0)\n            elif not self.allow_list_edits", "            if len(self._children) == len(node._children):\n                return Match(self, node, 0)\n            elif not self.allow_list_edits", "equality guard weakened to length"),
    ("C02", "R02a", "xml.py", "        if self == node:\n            return Match(self, node, 0)", "        if self.tag == node.tag:\n            return Match(self, node, 0)", "XML zero cost on tag equality only"),
    ("C02", "R02c", "levenshtein.py", "return dist[rows - 1][cols - 1]", "return dist[row][col]", "original defect"),
    ("C02", "R02d", "__main__.py", "    if had_edits:\n        return 1\n    else:\n        return 0", "    return 0", "status always 0"),
    ("C02", "R02d", "__main__.py", "                            had_edits = had_edits or edit.has_non_zero_cost()\n                    elif args.edit_digest:", "                    elif args.edit_digest:", "edit-list mode skips the status"),
    ("C02", "R02e", "xml.py", "        return other.tag == self.tag and other.attrib == self.attrib \\\n               and other_text == my_text and other._children == self._children", "        return other.tag == self.tag \\\n               and other_text == my_text and other._children == self._children", "XML equality skips attributes"),
    # ---- C03
    ("C03", "R03a", "xml.py", "return text_bounds + self.tag_edit.bounds() + self.attrib_edit.bounds() + self.child_edit.bounds()", "return text_bounds + self.tag_edit.bounds() + self.child_edit.bounds()", "bounds drops attrib edit"),
    ("C03", "R03a", "graphtage.py", "        yield self.key_edit\n        yield self.value_edit", "        yield self.value_edit\n        yield self.value_edit", "value edit listed twice, key never"),
    ("C03", "R03b", "levenshtein.py", "self.costs[row][col] = self.costs[brow][bcol] + edit.bounds().upper_bound", "self.costs[row][col] = self.costs[brow][bcol] + edit.bounds().lower_bound", "accumulate lower bound"),
    ("C03", "R04d", "edits.py", "if self._edit_iter is None and total_cost.definitive():", "if self._edit_iter is None:", "cache non-definitive cost"),
    # ---- C04
    ("C04", "R04a", "xml.py", "        elif self.child_edit.tighten_bounds():\n            return True\n        else:\n            return False", "        else:\n            return False", "child edit never refined"),
    ("C04", "R04b", "graphtage.py", "        return self.key_edit.tighten_bounds() or self.value_edit.tighten_bounds()", "        if self.key_edit.tighten_bounds() or self.value_edit.tighten_bounds():\n            return True", "falls off with None"),
    ("C04", "R04c", "edits.py", "            total_cost = sum(e.bounds() for e in self._sub_edits)", "            total_cost = self._sub_edits[0].bounds()", "in-place write to a shared Range"),
    ("C04", "R04d", "matching.py", "            if ret.definitive():\n                self._bounds = ret\n            else:\n                return ret", "            self._bounds = ret", "matcher caches non-definitive bounds"),
    # ---- C05
    ("C05", "R05a", "levenshtein.py", "        elif self.edit_matrix is None:\n            # This means we are already fully tightened and deleted the interstitial datastructures to save memory\n            return False\n", "", "remove the freed-matrix early return"),
    ("C05", "R05a", "levenshtein.py", "if self.edit_matrix is not None and not self.edit_matrix[-1][-1].bounds().definitive():", "if not self.edit_matrix[-1][-1].bounds().definitive():", "original defect"),
    ("C05", "R05a", "edits.py", "        if self._edit_iter is not None:\n            try:\n                next_edit = next(self._edit_iter)", "        if True:\n            try:\n                next_edit = next(self._edit_iter)", "unguarded next() on exhausted iterator"),
    ("C05", "R05b", "levenshtein.py", "                if DEFAULT_PRINTER.quiet:\n                    fringe_ranges = {}", "                if DEFAULT_PRINTER.quiet:\n                    return True\n                    fringe_ranges = {}", "return under quiet"),
    ("C05", "R05c", "edits.py", "                    self._add(next_edit)\n                    return next_edit", "                    return next_edit", "expanded edit not retained"),
    # ---- C06
    ("C06", "E10", "edits.py", "                with printer.strike():\n                    formatter.print(printer=printer, node_or_edit=self.from_node, with_edits=False)", "                with printer.strike():\n                    formatter.print(printer=printer, node_or_edit=self.to_node, with_edits=False)", "to-node inside strike"),
    ("C06", "E10", "graphtage.py", "                            for rm in remove_seq:\n                                self.write_char(p, rm, index, num_edits, removed=True)", "                            for rm in add_seq:\n                                self.write_char(p, rm, index, num_edits, removed=True)", "added chars printed as removed"),
    ("C06", "E9", "graphtage.py", "        escaped = self.escape(c)\n        if escaped != c and not isinstance(printer, NullANSIContext):\n            with printer.color(Fore.YELLOW):\n                printer.write(escaped)\n        else:\n            printer.write(escaped)", "        escaped = self.escape(c)\n        if escaped != c and not isinstance(printer, NullANSIContext):\n            with printer.color(Fore.YELLOW):\n                printer.write(escaped)\n        else:\n            printer.write(c)", "bypass escape"),
    # ---- C07
    ("C07", "R07a", "graphtage.py", "        unshared_kvps = []\n", "        unshared_kvps = set()\n", "original defect (set iteration) - append->add"),
    ("C07", "R07a", "printer.py", "return ''.join(sorted(self._marks))", "return ''.join(self._marks)", "original defect"),
    ("C07", "R07c", "json.py", "        with printer.color(Fore.BLUE):\n            self.print(printer, node.key)\n        with printer.bright():\n            printer.write(\": \")", "        node.key.quoted = True\n        with printer.color(Fore.BLUE):\n            self.print(printer, node.key)\n        with printer.bright():\n            printer.write(\": \")", "formatter writes a node"),
    ("C07", "R07c", "tree.py", "                finally:\n                    wrapped_tree_node._parent = parent_before", "                finally:\n                    pass", "parent not restored"),
    # ---- C08
    ("C08", "R08a", "graphtage.py", "            sorted(cls.make_key_value_pair_node(key, value, allow_key_edits=True) for key, value in source_dict.items())", "            list(cls.make_key_value_pair_node(key, value, allow_key_edits=True) for key, value in source_dict.items())", "from_dict no longer sorts"),
    ("C08", "R08b", "utils.py", "        h = 0\n        for key, value in self.items():\n            h ^= hash((key, value))\n        return h\n\n    def elements(self) -> Iterator:\n        \"\"\"Iterator over elements repeating each as many times as its count.\n\n        Examples:\n\n        .. code-block:: python\n\n            >>> c = Counter('ABCABC')\n            >>> sorted(c.elements())\n            ['A', 'A', 'B', 'B', 'C', 'C']\n\n            # Knuth's example for prime factors of 1836:  2**2 * 3**3 * 17**1\n            >>> prime_factors = Counter({2: 2, 3: 3, 17: 1})\n            >>> product = 1\n            >>> for factor in prime_factors.elements():     # loop over factors\n            ...     product *= factor                       # and multiply them\n            >>> product\n            1836\n\n        Note:\n            If an element's count has been set to zero or is a negative number, elements() will ignore it.\n\n        \"\"\"\n        # Extending this solely to fix the broken docstring in Counter.elements!\n        return super().elements()\n\n\nclass OrderedCounter", "        return hash(tuple(self.items()))\n\n    def elements(self) -> Iterator:\n        return super().elements()\n\n\nclass OrderedCounter", "order-dependent hash"),
    # ---- C09
    ("C09", "R09a", "yaml.py", "            return json.build_tree(singleton, options=options, *args, **kwargs)", "            return json.build_tree(singleton, *args, **kwargs)", "YAML drops options"),
    # ---- C10
    ("C10", "R10a", "json.py", "            allow_list_edits=options.allow_list_edits,\n            allow_list_edits_when_same_length=options.allow_list_edits_when_same_length\n        )\n    elif isinstance(python_obj, dict):", "            allow_list_edits_when_same_length=options.allow_list_edits_when_same_length\n        )\n    elif isinstance(python_obj, dict):", "JSON lists ignore allow_list_edits"),
    ("C10", "R10a", "__main__.py", "allow_list_edits=not args.no_list_edits,", "allow_list_edits=args.no_list_edits,", "polarity negated"),
    ("C10", "R10b", "graphtage.py", "            elif not self.allow_list_edits or (len(self._children) == len(node._children) and (", "            elif (len(self._children) == len(node._children) and (", "guard ignores allow_list_edits"),
    ("C10", "R10d", "graphtage.py", "        if self.allow_key_edits or self.key == node.key:\n            return KeyValuePairEdit(self, node)", "        if True:\n            return KeyValuePairEdit(self, node)", "pairs with differing keys under none"),
    # ---- C12
    ("C12", "E9", "json.py", "        return json.dumps(c)[1:-1]", "        return c", "escape is identity"),
    ("C12", "E5-own", "csv.py", "    sub_format_types = [CSVRows, JSONFormatter]", "    sub_format_types = [JSONFormatter]", "CSV loses its row formatters"),
    # ---- C13
    ("C13", "H1", "json.py", "        list_node = ListNode((c.copy() for c in node.children()))", "        list_node = ListNode(node.children())", "JSON fallback re-parents"),
    ("C13", "H1", "yaml.py", "        list_node = ListNode((c.copy() for c in node.children()))", "        list_node = ListNode(node.children())", "original defect"),
    ("C13", "H4", "yaml.py", "            self.parent.parent.print(printer, node.value)", "            self.parent.parent.parent.print(printer, node.value)", "parent chain too deep"),
    ("C13", "H8", "yaml.py", "    def print(self, printer: Printer, *args, **kwargs):\n        # YAML only gets a two-space indent\n", "    def print(self, printer: Printer, node_or_edit, *args):\n        kwargs = {}\n        # YAML only gets a two-space indent\n", "override drops with_edits"),
    ("C13", "E5c", "plist.py", "    print_MappingNode = print_MultiSetNode\n", "", "dispatch cycle for FixedKeyDictNode under plist"),
    # ---- C14
    ("C14", "R14a", "__main__.py", "    if args.to_mime is not None:\n        to_mime = args.to_mime", "    if args.from_mime is not None:\n        to_mime = args.from_mime", "original defect"),
    ("C14", "R14b", "__main__.py", "        allow_key_edits = not args.no_key_edits\n        auto_match_keys = allow_key_edits", "        allow_key_edits = not args.no_key_edits\n        auto_match_keys = True", "-k differs from --dict-strategy none"),
    ("C14", "R14b", "__main__.py", "'join_dict_items': args.condensed or args.join_dict_items", "'join_dict_items': args.join_dict_items", "-j differs from -jl -jd"),
    ("C14", "R14c", "graphtage.py", "    elif mime_type is None:\n        mime_type = mimetypes.guess_type(path)[0]", "    elif path is not None:\n        mime_type = mimetypes.guess_type(path)[0]", "path consulted before explicit MIME"),
    # ---- C15
    ("C15", "R15b", "matching.py", "        assert null_edge_value > max_edge\n        max_edge = null_edge_value\n", "        assert null_edge_value > max_edge\n", "sentinel not folded into max_edge"),
    ("C15", "R15a", "matching.py", "if not has_null_edges or weights[from_index][to_index] < null_edge_value", "if not has_null_edges or weights[from_index][to_index] <= null_edge_value", "non-strict sentinel filter"),
    ("C15", "R15c", "matching.py", "    (-2**7, 2**7, np.dtype(np.int8)),", "    (-2**8, 2**8, np.dtype(np.int8)),", "dtype interval too wide"),
    # ---- C16
    ("C16", "R16a", "fibonacci.py", "                self._consolidate()\n            self._n -= 1\n        return z", "                self._consolidate()\n        return z", "size not decremented"),
    ("C16", "R16c", "fibonacci.py", "    def __lt__(self, other):\n        return self.key > other.key", "    def __lt__(self, other):\n        return self.key < other.key", "comparator not reversed"),
    ("C16", "R16b", "fibonacci.py", "        while self._min is not None and self._min.deleted:\n            self._extract_min()\n        return self._min.item", "        return self._min.item", "peek does not skip deleted"),
    ("C16", "R16e", "fibonacci.py", "                    self._append_root(child)\n                    child.parent = None", "                    self._append_root(child)", "stale parent pointer"),
    # ---- C17
    ("C17", "R17a", "bounds.py", "                    biggest_bound.upper_bound < second_biggest_bound.lower_bound or \\", "                    biggest_bound.upper_bound <= second_biggest_bound.lower_bound or \\", "non-strict separation"),
    ("C17", "R17b", "search.py", "        if self._unprocessed is not None:\n            return False\n        best = self.best_match", "        best = self.best_match", "goal_test before all candidates seen"),
    ("C17", "R17c", "bounds.py", "            return self.upper_bound <= other.lower_bound\n\n        \"\"\"\n        return self.upper_bound <= other.lower_bound", "            return self.upper_bound <= other.lower_bound\n\n        \"\"\"\n        return self.upper_bound < other.lower_bound", "dominates made strict"),
    # ---- C18
    ("C18", "R18a", "json.py", "    if isinstance(python_obj, bool):\n        return BoolNode(python_obj)\n    elif isinstance(python_obj, int):\n        return IntegerNode(python_obj)", "    if isinstance(python_obj, int):\n        return IntegerNode(python_obj)\n    elif isinstance(python_obj, bool):\n        return BoolNode(python_obj)", "int tested before bool"),
    ("C18", "R18d", "builder.py", "                                if already_expanding is child:", "                                if already_expanding == child:", "== instead of is"),
    ("C18", "R18b", "graphtage.py", "        return [n.to_obj() for n in self]", "        return [n for n in self]", "ListNode.to_obj returns nodes"),
    # ---- C19
    ("C19", "R19a", "expressions.py", "    if member.name.startswith('_'):\n        raise ParseError(f\"Cannot read", "    if member.name.startswith('__'):\n        raise ParseError(f\"Cannot read", "only dunder names refused"),
    ("C19", "R19b", "expressions.py", "lambda a, b: get_member(a, b), True, 2, False, (True, False))", "lambda a, b: get_member(a, b), True, 2, False, (True, True))", "member operand expanded"),
    ("C19", "R19c", "expressions.py", "            else:\n                raise KeyError(f'Unknown identifier {token.name}')", "            else:\n                return __builtins__[token.name]", "fall through to builtins"),
    ("C19", "R19d", "expressions.py", "        iter, len, list, slice, sorted, sum, tuple, round\n", "        iter, len, list, slice, sorted, sum, tuple, round, getattr\n", "getattr whitelisted"),
    # ---- C20
    ("C20", "R20a", "json.py", "{ve!s}", "{ve:!s}", "original defect"),
    ("C20", "R20b", "yaml.py", "        except YAMLError as ye:", "        except yaml_MarkedError as ye:", "SKIP"),
    ("C20", "R20b", "plist.py", "        except (ExpatError, ValueError, IndexError, AttributeError) as ee:", "        except ExpatError as ee:", "original defect"),
    ("C20", "R20b", "xml.py", "        except (LookupError, ValueError) as e:", "        except LookupError as e:", "multi-byte encoding ValueError escapes"),
    ("C20", "R20b", "json.py", "        except (RecursionError, ValueError) as e:", "        except ValueError as e:", "RecursionError escapes"),
    ("C20", "R20c", "__main__.py", "                        if isinstance(to_tree, str):\n                            sys.stderr.write(to_tree)\n                            sys.stderr.write('\\n\\n')\n                            return 1", "                        if isinstance(to_tree, str):\n                            sys.stderr.write(to_tree)\n                            sys.stderr.write('\\n\\n')", "second error branch does not return"),
    # ---- added after the round-2 seeding wave
    ("C13", "H10", "printer.py", "        for mark in self.marks - self._state_before:\n", "        for mark in self.marks:\n", "context releases marks an enclosing context added"),
    ("C03", "R03d", "levenshtein.py", "                    while self.edit_matrix[row][col].tighten_bounds():\n                        pass\n", "", "original defect: last cell not refined before path reconstruction"),
    ("C05", "R03d", "levenshtein.py", "                    while self.edit_matrix[row][col].tighten_bounds():\n                        pass\n", "", "original defect: last cell not refined before path reconstruction"),
    ("C15", "R15b", "matching.py", "        ), max_edge) + 1\n", "        ), 0) + 1\n", "sentinel no longer dominates the largest weight"),
    ("C15", "R15c", "matching.py", "        if min_range <= min_value and max_range > max_value:\n            return dtype\n    return np.dtype(int)", "        if min_range <= min_value and max_range > max_value:\n            break\n    return dtype", "last table row returned when nothing fits"),
    ("C09", "R09e", "yaml.py", "            singleton = documents[0]\n", "            singleton = documents[0] or None\n", "falsy single document replaced by null"),
    ("C01", "R01b", "levenshtein.py", "                reversed(to_seq[len(self.shared_prefix):])\n", "                reversed(to_seq)\n", "suffix scan may overlap the prefix on the to side"),
    ("C06", "R01b", "levenshtein.py", "                reversed(to_seq[len(self.shared_prefix):])\n", "                reversed(to_seq)\n", "suffix scan may overlap the prefix on the to side"),
    ("C08", "R08d", "multiset.py", "                        to_remove_from.append((f, num_matched))\n                        break\n", "                        to_remove_from.append((f, num_matched))\n                        break\n                    elif t.key > f.key:\n                        num_matched = 0\n                        break\n", "sorted-order early exit in the key lookup"),
    ("C06", "E5d", "json.py", "        self.parent.print(*args, with_edits=False, **kwargs)\n", "        self.parent.print(*args, **kwargs)\n", "original defect: forwarded node re-enables its edit"),
    ("C02", "R03a", "sequences.py", "        for edit in self.edits():\n            b = edit.bounds()", "        for edit in self._sub_edits:\n            b = edit.bounds()", "tail removals/insertions not counted"),
    # ---- added after round 3
    ("C03", "R03i", "levenshtein.py", "            (Match(from_node, to_node, 0) for from_node, to_node in self.shared_prefix),", "            (from_node.edits(to_node) for from_node, to_node in self.shared_prefix),", "prefix pairs listed with a computed edit"),
    ("C13", "H6b", "graphtage.py", "        return self.__class__({kvp.key: kvp for kvp in children})", "        return self.__class__.from_dict({kvp.key: kvp.value for kvp in children})", "copy_from re-wraps adopted nodes"),
    ("C13", "H11", "plist.py", "        printer.write(f\"<string>{node.object}</string>\")", "        self.write_obj(printer, node.object)", "string leaf through a value-partial encoder"),
    ("C04", "R04g", "levenshtein.py", "                max(base_bounds.lower_bound, min(min(\n                    int(self.costs[row][col]) for row, col in self._fringe_diagonal()\n                ), min(\n                    int(self.costs[row][col]) for row, col in self._last_fringe\n                ))),", "                max(base_bounds.lower_bound, min(\n                    int(self.costs[row][col]) for row, col in self._last_fringe\n                )),", "lower bound over one anti-diagonal"),
    ("C04", "R04h", "levenshtein.py", "                return ret or self.bounds().upper_bound < initial_bounds.upper_bound or \\\n                    self.bounds().lower_bound > initial_bounds.lower_bound\n", "                return ret\n", "original defect: completion reports no progress"),
    ("C17", "R17d", "search.py", "                            self._untightened.clear()\n                            self._tightened.push(untightened)", "                            self._untightened.clear()\n                            self._tightened.clear()\n                            self._tightened.push(untightened)", "definitive heap cleared outside the goal branch"),
    ("C17", "R17e", "search.py", "        elif self.initial_bounds.upper_bound < node.item.bounds().lower_bound:", "        elif self.initial_bounds.dominates(node.item.bounds()):", "original defect: pruning on a tie"),
    ("C19", "R19f", "expressions.py", "    if issubclass(type(obj), INTROSPECTION_TYPES):  # not isinstance(): that falls back to reading obj.__class__\n", "    if False:\n", "interpreter-object guard disabled"),
    ("C19", "R19g", "expressions.py", "    GETITEM = ('[', 1, lambda a, b: get_item(a, b))", "    GETITEM = ('[', 1, lambda a, b: a[b])", "original defect: direct subscript"),
    ("C18", "R18h", "pydiff.py", "    def __eq__(self, other):\n        return isinstance(other, PyObj) and self.class_name == other.class_name and self.attrs == other.attrs\n\n    def __hash__(self):\n        return hash((self.class_name, self.attrs))\n\n", "", "original defect: PyObj without structural equality"),
    ("C18", "R18g", "json.py", "    elif python_obj is None:\n        # a null is a leaf, too: it is a legal mapping key in YAML (`~: 1`)\n        return NullNode()\n    elif force_leaf_node:", "    elif force_leaf_node:", "SKIP"),
    ("C10", "R10a", "graphtage.py", "        return self.__class__(\n            children,\n            allow_list_edits=self.allow_list_edits,\n            allow_list_edits_when_same_length=self.allow_list_edits_when_same_length\n        )", "        return self.__class__(children)", "original defect: copy drops the list options"),
    ("C10", "R10a", "pydiff.py", "        return Module(\n            tuple(children),\n            allow_list_edits=self.options.allow_list_edits,\n            allow_list_edits_when_same_length=self.options.allow_list_edits_when_same_length\n        )", "        return Module(tuple(children))", "original defect: AST builder ignores list options"),
    ("C14", "R14f", "printer.py", "        return False\n\n    def flush(self):\n        pass\n", "        return True\n\n    def flush(self):\n        pass\n", "original defect: NullWriter claims a terminal"),
    ("C16", "R16h", "fibonacci.py", "        if not isinstance(k, ReversedComparator):\n            k = ReversedComparator(k)\n        super().decrease_key(x, k)", "        super().decrease_key(x, k)", "override no longer wraps the key"),
    ("C09", "R09f", "json.py", "        with open(path, 'rb') as f:\n            return build_tree(json.load(f), options)", "        with open(path) as f:\n            return build_tree(json.load(f), options)", "original defect: text-mode JSON"),
    ("C05", "R05f", "edits.py", "            for sub_edit in itertools.islice(self._sub_edits, num_yielded, None):\n                num_yielded += 1\n                yield sub_edit\n            if self._expand_edits() is None and num_yielded >= len(self._sub_edits):\n                break", "            nxt = self._expand_edits()\n            if nxt is None:\n                break\n            yield nxt", "listing yields what it expanded itself"),
    ("C07", "R07g", "printer.py", "        if self.ansi_color:\n            _init_colorama()", "        if self.ansi_color:\n            colorama.init()", "original defect: colorama.init per Printer"),
    ("C07", "R07h", "yaml.py", "            printer.indent_str = previous_indent\n\n    @staticmethod\n    def write_obj(printer: Printer, obj):\n        if obj == '':", "            pass\n\n    @staticmethod\n    def write_obj(printer: Printer, obj):\n        if obj == '':", "indent not restored"),
    ("C08", "R08e", "graphtage.py", "            return LeafNode._order_key(self.object) < LeafNode._order_key(other)", "            return str(self.object) < str(other)", "original defect: str fallback order"),
    ("C02", "R02g", "graphtage.py", "            return self.object == other.object and isinstance(self.object, bool) == isinstance(other.object, bool)", "            return self.object == other.object", "original defect: True == 1"),
    ("C03", "R03g", "graphtage.py", "        if isinstance(node, NullNode):\n            # A null has size zero, so the edit distance to the text \"None\" can exceed the sizes of both nodes,\n            # which every enclosing edit assumes to bound the cost; replace instead, as NullNode.edits does\n            return Replace(self, node)\n        elif isinstance(node, LeafNode):", "        if isinstance(node, LeafNode):", "original defect: leaf to null priced by text"),
    ("C15", "R15d", "matching.py", "    if edge_type is None:\n        # There are no edges in the graph\n        return {}\n\n    if has_null_edges:", "    if has_null_edges:", "SKIP"),
    ("C10", "E11", "multiset.py", "            to_remove_from = []\n            for f in from_set.keys():\n                if not isinstance(f, graphtage.KeyValuePairNode):\n                    continue\n                for t in to_set.keys():", "            to_remove_from = []\n            candidates = iter(to_set.keys())\n            for f in from_set.keys():\n                if not isinstance(f, graphtage.KeyValuePairNode):\n                    continue\n                for t in candidates:", "one-shot iterator hoisted out of the loop"),
    ("C01", "E11", "multiset.py", "            to_remove_from = []\n            for f in from_set.keys():\n                if not isinstance(f, graphtage.KeyValuePairNode):\n                    continue\n                for t in to_set.keys():", "            to_remove_from = []\n            candidates = (k for k in to_set.keys())\n            for f in from_set.keys():\n                if not isinstance(f, graphtage.KeyValuePairNode):\n                    continue\n                for t in candidates:", "generator expression hoisted out of the loop"),
]
MUTANTS = [m for m in MUTANTS if m[5] != "SKIP"]


def for_property(prop):
    return [m for m in MUTANTS if m[0] == prop]
