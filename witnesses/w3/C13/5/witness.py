"""C13 witness: a YAML document whose alias refers to one of its own ancestors (valid YAML, PyYAML loads it) makes the
yaml input type die with an uncaught RecursionError, whatever the output format or mode.

Exits 1 when a run of the command line ends in a traceback, 0 otherwise."""
import os
import subprocess
import sys
import tempfile


def graphtage(*argv):
    p = subprocess.run([sys.executable, '-m', 'graphtage', '--no-status', *argv], capture_output=True, text=True,
                       errors='replace')
    return p.returncode, p.stdout, p.stderr


def main():
    failures = []
    with tempfile.TemporaryDirectory() as d:
        def w(name, data):
            path = os.path.join(d, name)
            with open(path, 'w') as f:
                f.write(data)
            return path
        a = w('a.yaml', 'name: root\nchild: &c\n  name: kid\n  self: *c\n')
        b = w('b.yaml', 'name: root2\nchild: &c\n  name: kid\n  self: *c\n')
        lst = w('l.yaml', '&l [1, 2, *l]\n')
        runs = [
            ('mapping that contains itself, identical files', [a, a]),
            ('mapping that contains itself, different files, -f json', [a, b, '-f', 'json']),
            ('mapping that contains itself, edit list', [a, b, '-e']),
            ('mapping that contains itself, edit digest, -f xml', [a, b, '-d', '-f', 'xml']),
            ('sequence that contains itself', [lst, lst]),
        ]
        for label, argv in runs:
            rc, out, err = graphtage(*argv)
            if 'Traceback (most recent call last)' in err or rc not in (0, 1):
                lines = [line for line in err.strip().splitlines() if line.strip()]
                # the exception that left main(): the first unindented "...Error: ..." line after the frame of __main__.py
                # (tqdm adds follow-up noise while its progress bars are torn down)
                seen_main = False
                primary = lines[-1] if lines else ''
                for line in lines:
                    if '__main__.py' in line and ', in main' in line:
                        seen_main = True
                    elif seen_main and not line.startswith(' ') and 'Error' in line.split(':')[0]:
                        primary = line
                        break
                failures.append(f'{label}: exit status {rc}; {primary[:170]}')
    if failures:
        print('VIOLATION: YAML documents with a recursive alias cannot be compared/rendered:')
        for f in failures:
            print('  -', f)
        return 1
    print('ok: all runs completed without an internal error')
    return 0


if __name__ == '__main__':
    sys.exit(main())
