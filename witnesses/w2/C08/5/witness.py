"""C08 witness 5: a YAML mapping with the keys `1` (int) and `true` (bool) - different data for graphtage, whose
LeafNode.__eq__ tells a boolean from a number - loses one pair while loading, and which key and which value survive
depends on the order of the keys; the document and its key-permuted copy do not compare as equal."""
import os
import sys
import tempfile

from graphtage import BoolNode, BuildOptions, IntegerNode
from graphtage import yaml as gyaml
from graphtage.printer import DEFAULT_PRINTER

DEFAULT_PRINTER.quiet = True

if BoolNode(True) == IntegerNode(1):
    # if the project decides that true and 1 are the same key, the two spellings below are duplicates, not a permutation
    sys.exit(0)

DOC_1 = "1: a\ntrue: b\nz: c\n"
DOC_2 = "z: c\ntrue: b\n1: a\n"


def load_yaml(text, options):
    with tempfile.NamedTemporaryFile("w", suffix=".yml", delete=False) as f:
        f.write(text)
    try:
        return gyaml.build_tree(f.name, options), None
    except Exception as e:   # rejecting the mapping is fine as long as every key order is rejected
        return None, type(e).__name__
    finally:
        os.unlink(f.name)


failed = False
for name, kwargs in (("auto", {}), ("match", {"auto_match_keys": False}), ("none", {"allow_key_edits": False})):
    options = BuildOptions(**kwargs)
    (t1, e1), (t2, e2) = load_yaml(DOC_1, options), load_yaml(DOC_2, options)
    if e1 is not None or e2 is not None:
        if e1 != e2:
            failed = True
            print(f"[{name}] one key order is rejected ({e1}) and the other is not ({e2})")
        continue
    edit = t1.edits(t2)
    while edit.valid and edit.tighten_bounds():
        pass
    cost = edit.bounds().upper_bound
    if cost != 0 or t1 != t2 or len(t1) != 3:
        failed = True
        print(f"[{name}] {{1: a, true: b, z: c}} loads as {t1.to_obj()!r}, {{z: c, true: b, 1: a}} loads as {t2.to_obj()!r}; "
              f"cost {cost}, equal {t1 == t2}")
sys.exit(1 if failed else 0)
