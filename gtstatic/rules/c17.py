"""C17 - bound-driven search, ordering and separation are correct (thin: structural necessary conditions only).

R17a separation predicate of make_distinct (exit exactly when both definitive or strictly disjoint; re-insert only while
overlapping; both intervals refined each round); R17b the search returns a boolean on every path and answers
"none"/"no" while candidates remain unprocessed; `_unprocessed` typestate (E2); R17c interval order primitives
(Range.dominates, Range.__lt__, definitive) and the comparator's refinement loop; R17d candidates are retained.
That the search returns a minimum and terminates for every tightening schedule is NOT decided.
"""
import ast

from ..astx import walk_no_nested, dotted, call_name, self_attr, func_params, dominating_conditions, flatten_conditions, \
    terminates, parent, ancestors
from ..core import norm, Inconclusive
from .. import pat
from ..typestate import ClassAnalysis


def nrm(e):
    return ast.unparse(e).replace(" ", "").replace("(", "").replace(")", "")


def r17a(ctx):
    m = ctx.model
    ctx.rule("R17a", "make_distinct: the pair loop exits exactly when both intervals are definitive or one's upper bound is "
                     "strictly below the other's lower bound; both are refined each round; an interval is re-inserted only "
                     "while it still overlaps another; an interval that is the only one left, or overlaps nothing, is final")
    f = m.func("graphtage.bounds.make_distinct")
    from ..astx import clone
    # the refinement loop: `while True: ...; if <exit>: break; ...` or `while not <exit>: ...`; <exit> may be a module-level
    # predicate (`_are_distinct(a.bounds(), b.bounds())`) and may read snapshots taken in the loop (`x = a.bounds()`)
    cands = [w for w in walk_no_nested(f.node) if isinstance(w, ast.While)
             and any(isinstance(c, ast.Call) and isinstance(c.func, ast.Attribute) and c.func.attr == "tighten_bounds" for s_ in w.body for c in ast.walk(s_))
             and not any(isinstance(x, ast.Raise) for s_ in w.body for x in ast.walk(s_))]
    cands = [w for w in cands if (isinstance(w.test, ast.Constant) and w.test.value is True)
             or (isinstance(w.test, ast.UnaryOp) and isinstance(w.test.op, ast.Not))]
    if not cands:
        raise Inconclusive("make_distinct: refinement loop (`while True: ... break` / `while not <separated>:`) not found")
    w = cands[-1]
    _t0, tb_ = pat.first("T = IntervalTree()", f.node)
    treev = tb_["T"] if tb_ else "tree"
    if isinstance(w.test, ast.Constant):
        brk = [i for i in w.body if isinstance(i, ast.If) and any(isinstance(b, ast.Break) for b in i.body)]
        if not brk:
            ctx.violation("R17a", f.file, "make_distinct", w, "exit test", "the refinement loop has no exit test")
            return
        test = brk[0].test
    else:
        test = w.test.operand
    shown = test
    if isinstance(test, ast.Call) and isinstance(test.func, ast.Name):
        r_ = m.resolve_expr(f.module, test.func)
        h_ = m.functions.get(r_[0][1]) if r_ and r_[0] and r_[0][0] == "func" else None
        body_ = [b_ for b_ in h_.node.body if not (isinstance(b_, ast.Expr) and isinstance(b_.value, ast.Constant))] if h_ else []
        if h_ is not None and len(body_) == 1 and isinstance(body_[0], ast.Return) and len(func_params(h_.node)) == len(test.args):
            test = clone(body_[0].value, dict(zip(func_params(h_.node), test.args)))
    snaps = {}
    for s in w.body:
        if isinstance(s, (ast.Assign, ast.AnnAssign)) and s.value is not None and isinstance(s.value, ast.Call) \
                and isinstance(s.value.func, ast.Attribute) and s.value.func.attr == "bounds":
            t = s.targets[0] if isinstance(s, ast.Assign) else s.target
            snaps[t.id] = s.value
    test = clone(test, snaps)
    recv = []
    for c in ast.walk(test):
        if isinstance(c, ast.Call) and isinstance(c.func, ast.Attribute) and c.func.attr == "bounds" and nrm(c.func.value) not in recv:
            recv.append(nrm(c.func.value))
    if len(recv) != 2:
        raise Inconclusive(f"make_distinct: expected the exit test to speak about two intervals, found {recv}")
    names = {f"{r_}.bounds": r_ for r_ in recv}
    a, b = list(names)
    parts = [nrm(v) for v in (test.values if isinstance(test, ast.BoolOp) and isinstance(test.op, ast.Or) else [test])]
    want = {f"{a}.definitiveand{b}.definitive", f"{a}.upper_bound<{b}.lower_bound", f"{b}.upper_bound<{a}.lower_bound"}
    got = set(parts)
    norm_got = {p.replace(f"{b}.lower_bound>{a}.upper_bound", f"{a}.upper_bound<{b}.lower_bound")
                .replace(f"{a}.lower_bound>{b}.upper_bound", f"{b}.upper_bound<{a}.lower_bound")
                .replace(f"{b}.definitiveand{a}.definitive", f"{a}.definitiveand{b}.definitive") for p in got}
    if norm_got == want:
        ctx.proved("R17a", f.file, "make_distinct", shown, "exit test",
                   "exit iff (both definitive) or a.upper < b.lower or b.upper < a.lower (strict)")
    else:
        ctx.violation("R17a", f.file, "make_distinct", shown, "exit test",
                      f"the separation loop exits on `{norm(test, 120)}`; required: both definitive, or strictly disjoint "
                      f"(a.upper_bound < b.lower_bound or b.upper_bound < a.lower_bound). A non-strict or one-sided test "
                      f"leaves touching/overlapping non-final intervals 'separated', or never terminates for equal finals")
    tcalls = [nrm(c.func.value) for s in w.body for c in ast.walk(s) if isinstance(c, ast.Call)
              and isinstance(c.func, ast.Attribute) and c.func.attr == "tighten_bounds"]
    if set(tcalls) == set(names.values()):
        ctx.proved("R17a", f.file, "make_distinct", w, "both refined", "both intervals are tightened every round")
    else:
        ctx.violation("R17a", f.file, "make_distinct", w, "both refined",
                      f"only {tcalls} are tightened in the separation loop; an interval that is never refined can keep the "
                      f"loop from ever exiting, or leaves the pair unseparated")
    # every argument enters the tree: the loop that fills it adds each one unconditionally (a point that is left out is
    # invisible to the overlap queries, so a wide interval containing it is declared distinct)
    fills = [l for l in walk_no_nested(f.node) if isinstance(l, ast.For) and l.lineno < w.lineno
             and dotted(l.iter) in {a.arg for a in ([f.node.args.vararg] if f.node.args.vararg else [])} | set(func_params(f.node))]
    for l in fills:
        fadds = [c for c in ast.walk(l) if isinstance(c, ast.Call) and isinstance(c.func, ast.Attribute) and c.func.attr == "add"
                 and dotted(c.func.value) == treev]
        conds = [ast.unparse(t) for c in fadds for t, pol in flatten_conditions(dominating_conditions(c, stop=l))]
        if fadds and not conds:
            ctx.proved("R17a", f.file, "make_distinct", fadds[0], "every argument enters the tree", "the fill loop adds each argument unconditionally")
        else:
            ctx.violation("R17a", f.file, "make_distinct", (fadds or [l])[0], "every argument enters the tree",
                          f"an argument reaches the interval tree only under {conds or 'no add at all'}: an item left out (e.g. one that is "
                          f"already single-valued) is invisible to the overlap queries, so `make_distinct([0,10], [5,5])` returns with "
                          f"[0,10] still containing 5")
    # re-insertion only while overlapping
    adds = [c for c in walk_no_nested(f.node) if isinstance(c, ast.Call) and isinstance(c.func, ast.Attribute)
            and c.func.attr == "add" and dotted(c.func.value) == treev and c.lineno > w.lineno]
    # a local closure that re-adds (defined inside make_distinct) counts once per call made after the refinement loop
    closures = {d.name: d for d in ast.walk(f.node) if isinstance(d, ast.FunctionDef) and d is not f.node}
    tree_name = {nm: treev for nm in closures}
    # module-level helpers that are handed the tree (`_reinsert_if_overlapping(tree, b)`) are read like closures, with the
    # parameter that receives the tree standing for it
    for c in walk_no_nested(f.node):
        if isinstance(c, ast.Call) and isinstance(c.func, ast.Name) and c.func.id not in closures and any(dotted(a) == treev for a in c.args):
            r_ = m.resolve_expr(f.module, c.func)
            h_ = m.functions.get(r_[0][1]) if r_ and r_[0] and r_[0][0] == "func" else None
            if h_ is not None:
                hp = func_params(h_.node)
                pos = next(i_ for i_, a in enumerate(c.args) if dotted(a) == treev)
                if pos < len(hp):
                    closures[c.func.id] = h_.node
                    tree_name[c.func.id] = hp[pos]
    closure_adds = {nm: [c for c in ast.walk(d) if isinstance(c, ast.Call) and isinstance(c.func, ast.Attribute) and c.func.attr == "add"
                         and dotted(c.func.value) == tree_name[nm]] for nm, d in closures.items()}
    closure_calls = [c for c in walk_no_nested(f.node) if isinstance(c, ast.Call) and isinstance(c.func, ast.Name) and c.func.id in closures
                     and closure_adds[c.func.id] and c.lineno > w.lineno]
    def only_overlap_guard(c):
        # the add must sit directly in `if tree.overlaps(<its own begin, end>):` with no further condition
        p_ = parent(c)
        while p_ is not None and not isinstance(p_, ast.If):
            p_ = parent(p_)
        if p_ is None:
            return False
        t = p_.test
        owner = next((nm for nm, d in closures.items() if any(p_ is x for x in ast.walk(d))), None)
        direct = isinstance(t, ast.Call) and isinstance(t.func, ast.Attribute) and t.func.attr == "overlaps" \
            and dotted(t.func.value) == (tree_name[owner] if owner else treev) and (owner is not None or p_.lineno > w.lineno)
        if not direct:
            return False
        # ... and nothing else decides: any other condition that takes effect after the refinement loop (a `continue` guard,
        # an enclosing test) withholds an interval that still overlaps something
        in_closure = any(p_ in list(ast.walk(d)) for d in closures.values())
        for t2, pol, origin in dominating_conditions(c):
            if t2 is t:
                continue
            if in_closure or getattr(origin, "lineno", 0) > w.lineno:
                return False
        return True
    all_adds = adds + [a for c in closure_calls for a in closure_adds[c.func.id]]
    ok = all_adds and all(only_overlap_guard(c) for c in all_adds)

    def times(c):
        # a re-insertion written once inside `for x in (a, b):` happens once per element of the literal
        k_ = 1
        for a_ in ancestors(c):
            if isinstance(a_, ast.For) and isinstance(a_.iter, (ast.Tuple, ast.List)) and a_.lineno > w.lineno:
                k_ *= len(a_.iter.elts)
        return k_
    if ok and sum(times(c) for c in adds + closure_calls) == 2:
        ctx.proved("R17a", f.file, "make_distinct", all_adds[0], "re-insert only if overlapping",
                   "each refined interval goes back into the tree only if it still overlaps another interval")
    else:
        ctx.violation("R17a", f.file, "make_distinct", (all_adds or [f.node])[0], "re-insert only if overlapping",
                      "refined intervals are not (both) re-inserted exactly when they still overlap something: pairs can be "
                      "left overlapping, or the procedure may never finish")
    # end-exclusive interval encoding: Interval(lb, ub + 1)
    helper_nodes = []
    for c in walk_no_nested(f.node):
        if isinstance(c, ast.Call) and isinstance(c.func, ast.Name):
            r_ = m.resolve_expr(f.module, c.func)
            h_ = m.functions.get(r_[0][1]) if r_ and r_[0] and r_[0][0] == "func" else None
            if h_ is not None and h_.module == f.module and h_.node is not f.node:
                helper_nodes.append(h_.node)
    ivs = [c for g_ in [f.node] + helper_nodes for c in walk_no_nested(g_) if isinstance(c, ast.Call) and (call_name(c) or "").endswith("Interval")]
    bad = []
    for c in ivs:
        args = list(c.args) + [k.value for k in c.keywords if k.arg in ("begin", "end")]
        if len(args) >= 2:
            lo, hi = nrm(args[0]), nrm(args[1])
            if not (lo.endswith("lower_bound") and hi.endswith("upper_bound+1")):
                bad.append(c)
    # lookups use the same half-open encoding: tree[a:b] / tree.overlaps(a, b) / tree.overlap(a, b) take an Interval's own
    # begin/end, or lower_bound and upper_bound + 1 - an inclusive Range used as the slice misses intervals that touch its end
    for x in ast.walk(f.node):
        lo = hi = None
        if isinstance(x, ast.Subscript) and dotted(x.value) == treev and isinstance(x.slice, ast.Slice):
            lo, hi = x.slice.lower, x.slice.upper
        elif isinstance(x, ast.Call) and isinstance(x.func, ast.Attribute) and dotted(x.func.value) == treev \
                and x.func.attr in ("overlaps", "overlap", "envelop") and len(x.args) == 2:
            lo, hi = x.args
        if lo is None or hi is None:
            continue
        lt, ht = nrm(lo), nrm(hi)
        good = (lt.endswith(".begin") and ht.endswith(".end") and lt[:-6] == ht[:-4]) or (lt.endswith("lower_bound") and ht.endswith("upper_bound+1"))
        if not good:
            bad.append(x)
    if ivs and not bad:
        ctx.proved("R17a", f.file, "make_distinct", ivs[0], "interval encoding", "closed ranges are stored and looked up as [lower, upper + 1) everywhere")
    elif bad:
        ctx.violation("R17a", f.file, "make_distinct", bad[0], "interval encoding",
                      f"`{norm(bad[0], 70)}` does not encode the closed range as [lower_bound, upper_bound + 1): touching ranges "
                      f"are then missed (or zero-width intervals rejected)")


def can_fall_off_end(fn):
    return not terminates(fn.body)


def r17b(ctx):
    m = ctx.model
    ctx.rule("R17b", "IterativeTighteningSearch: tighten_bounds returns a boolean on every path; best_match / remove_best / "
                     "goal_test answer None / None / False while candidates remain unprocessed; every candidate taken from "
                     "the iterator is pushed on a heap; the iterator field is only used under a not-None guard (E2)")
    q = m.need_class("IterativeTighteningSearch")
    fl = m.files[m.classes[q][0]]
    tb = m.method(q, "tighten_bounds")
    probs = []
    if not terminates(tb.node.body):
        probs.append("control can fall off the end")
    for r in walk_no_nested(tb.node):
        if isinstance(r, ast.Return) and (r.value is None or (isinstance(r.value, ast.Constant) and not isinstance(r.value.value, bool))):
            probs.append(f"`{norm(r)}` at line {r.lineno}")
    if probs:
        ctx.violation("R17b", fl, "IterativeTighteningSearch.tighten_bounds", tb.node, "boolean on all paths",
                      "tighten_bounds may return a non-boolean: " + "; ".join(probs))
    else:
        ctx.proved("R17b", fl, "IterativeTighteningSearch.tighten_bounds", tb.node, "boolean on all paths", "every path returns an expression")
    for r in walk_no_nested(tb.node):
        if isinstance(r, ast.Return) and isinstance(r.value, ast.Constant) and r.value.value is False:
            facts = [nrm(t) for t, pol in flatten_conditions(dominating_conditions(r)) if pol]
            if "self._unprocessedisNone" in facts:
                ctx.proved("R17b", fl, "IterativeTighteningSearch.tighten_bounds", r, "no-progress only when exhausted",
                           "`return False` only after every candidate has been read from the iterator")
            else:
                ctx.violation("R17b", fl, "IterativeTighteningSearch.tighten_bounds", r, "no-progress only when exhausted",
                              f"`return False` under {facts}: the search can report 'no progress' while candidates are still "
                              f"unread (e.g. when the first candidates are already single-valued), so it ends without a result "
                              f"or with a non-minimal one")
    def exhausted_at(node, fn):
        """Is `self._unprocessed is None` known at node (directly, or because a local obtained from a same-class helper is
        not None and every non-None return of that helper is itself reached only when the iterator is exhausted)?"""
        for t, pol in flatten_conditions(dominating_conditions(node)):
            txt = nrm(t)
            if (pol and txt == "self._unprocessedisNone") or (not pol and txt == "self._unprocessedisnotNone"):
                return True
            # `V is not None` (positive) or `V is None` (negative) for a local V = self.<helper>()
            var = None
            if isinstance(t, ast.Compare) and isinstance(t.left, ast.Name) and isinstance(t.comparators[0], ast.Constant) and t.comparators[0].value is None:
                if (pol and isinstance(t.ops[0], ast.IsNot)) or (not pol and isinstance(t.ops[0], ast.Is)):
                    var = t.left.id
            if var:
                for a in walk_no_nested(fn.node):
                    if isinstance(a, ast.Assign) and isinstance(a.targets[0], ast.Name) and a.targets[0].id == var \
                            and isinstance(a.value, ast.Call) and self_attr(a.value.func) and not a.value.args:
                        h = m.method(q, self_attr(a.value.func))
                        if h is not None and h.qual != fn.qual:
                            rets = [r_ for r_ in walk_no_nested(h.node) if isinstance(r_, ast.Return)]
                            if rets and all((r_.value is None or (isinstance(r_.value, ast.Constant) and r_.value.value is None)) or exhausted_at(r_, h)
                                            for r_ in rets):
                                return True
        return False

    for name, want in (("best_match", "None"), ("remove_best", "None"), ("goal_test", "False")):
        f = m.method(q, name)
        first = next((s for s in f.node.body if isinstance(s, ast.If)), None)
        rets = [r_ for r_ in walk_no_nested(f.node) if isinstance(r_, ast.Return)]
        other = [r_ for r_ in rets if r_.value is None or ast.unparse(r_.value) != want]
        ok = bool(rets) and all(exhausted_at(r_, f) for r_ in other if r_.value is not None) and not any(r_.value is None for r_ in other) \
            and not can_fall_off_end(f.node)
        if ok:
            ctx.proved("R17b", fl, f"IterativeTighteningSearch.{name}", first, f"{name} while unprocessed",
                       f"answers {want} while the candidate iterator is not exhausted")
        else:
            ctx.violation("R17b", fl, f"IterativeTighteningSearch.{name}", first or f.node, f"{name} while unprocessed",
                          f"{name} does not first answer {want} while `_unprocessed is not None`: a best candidate is "
                          f"announced before all candidates have been seen, so a cheaper later one is missed")
    ca = ClassAnalysis(m, q)
    ca.analyse()
    bad = [s for s in ca.sites if not s["ok"]]
    if bad:
        for s in bad:
            ctx.violation("R17b", fl, f"IterativeTighteningSearch.{s['method']}", s["node"], f"deref {s['field']}",
                          f"self.{s['field']} may be None at `{norm(s['node'], 50)}`")
    else:
        ctx.proved("R17b", fl, "IterativeTighteningSearch", None, "_unprocessed typestate",
                   f"{len(ca.sites)} dereference(s) of the exhausted-iterator field are guarded")
    # bounds(): the lower bound scans live nodes only and never exceeds the best upper bound
    b = m.method(q, "bounds")
    # `L = min(N.key.lower_bound, L)` for live nodes only - as `if not N.deleted:` or behind `if N.deleted: continue`
    live = None
    for a_ in walk_no_nested(b.node):
        if isinstance(a_, ast.Assign) and isinstance(a_.targets[0], ast.Name) and isinstance(a_.value, ast.Call) and call_name(a_.value) == "min":
            L_ = a_.targets[0].id
            nk = [x for x in a_.value.args if isinstance(x, ast.Attribute) and x.attr == "lower_bound" and isinstance(x.value, ast.Attribute)
                  and x.value.attr == "key" and isinstance(x.value.value, ast.Name)]
            if nk and any(dotted(x) == L_ for x in a_.value.args):
                N_ = nk[0].value.value.id
                lp_ = next((z for z in __import__("gtstatic.astx", fromlist=["ancestors"]).ancestors(a_) if isinstance(z, ast.For)), None)
                facts_ = {(ast.unparse(t).replace(" ", ""), pol) for t, pol in flatten_conditions(dominating_conditions(a_, stop=lp_))}
                if (f"{N_}.deleted", False) in facts_:
                    live = {"L": L_, "N": N_}
    capped = False
    if live is not None:
        from ..astx import inline_locals
        for r_ in walk_no_nested(b.node):
            if isinstance(r_, ast.Return) and isinstance(r_.value, ast.Call) and call_name(r_.value) == "Range" and len(r_.value.args) == 2:
                lo_, hi_ = r_.value.args
                hi_t = ast.unparse(inline_locals(b.node, hi_)).replace(" ", "")
                lo_t = ast.unparse(lo_).replace(" ", "")
                lo_full = ast.unparse(inline_locals(b.node, lo_)).replace(" ", "") if not (isinstance(lo_, ast.Call) and call_name(lo_) == "min") else None
                # [min(L, hi), hi] with hi = the best candidate's upper bound (possibly capped by the caller's initial upper bound)
                if "self.best_match.bounds().upper_bound" in hi_t and isinstance(lo_, ast.Call) and call_name(lo_) == "min" \
                        and any(dotted(a_) == live["L"] for a_ in lo_.args) \
                        and any(ast.unparse(inline_locals(b.node, a_)).replace(" ", "") == hi_t for a_ in lo_.args):
                    capped = True
    if live is not None and capped:
        ctx.proved("R17b", fl, "IterativeTighteningSearch.bounds", b.node, "search bounds",
                   "lower bound = min over live candidates' lower bounds, capped by the best upper bound")
    else:
        ctx.violation("R17b", fl, "IterativeTighteningSearch.bounds", b.node, "search bounds",
                      "the search's interval is no longer [min live lower bound (capped), best upper bound]")


def r17c(ctx):
    m = ctx.model
    ctx.rule("R17c", "order primitives: Range.dominates is upper <= other.lower; Range.__lt__ orders by (upper, lower); "
                     "definitive() is lower == upper and finite; BoundedComparator.__lt__ refines both sides until one "
                     "dominates or neither can be tightened, then answers by dominance")
    rq = m.need_class("Range")
    fl = m.files[m.classes[rq][0]]
    checks = [("dominates", lambda o: f"returnself.upper_bound<={o}.lower_bound"),
              ("__lt__", lambda o: f"returnself.upper_bound<{o}.upper_boundorself.upper_bound=={o}.upper_boundandself.lower_bound<{o}.lower_bound"),
              ("definitive", lambda o: "returnself.lower_bound==self.upper_boundandnotisinstanceself.lower_bound,Infinity")]
    for name, wantf in checks:
        f = m.method(rq, name)
        ps = func_params(f.node)
        o = ps[1] if len(ps) > 1 else ""
        body = [s for s in f.node.body if not (isinstance(s, ast.Expr) and isinstance(s.value, ast.Constant))]
        got = nrm(body[-1]).replace("\\n", "")
        if got == wantf(o):
            ctx.proved("R17c", fl, f"Range.{name}", body[-1], f"Range.{name}", norm(body[-1], 100))
        else:
            ctx.violation("R17c", fl, f"Range.{name}", body[-1], f"Range.{name}",
                          f"Range.{name} is `{norm(body[-1], 120)}`; every bound-driven comparison (search, sort, min) is "
                          f"built on this primitive")
    cq = m.need_class("BoundedComparator")
    lt = m.method(cq, "__lt__")
    o = func_params(lt.node)[1]
    w = next((x for x in walk_no_nested(lt.node) if isinstance(x, ast.While)), None)
    ok = False
    if w is not None:
        # as a set of signed conjuncts, so `not (A or B) and C` and `not A and not B and C` read the same
        facts = {(nrm(t_), pol) for t_, pol in flatten_conditions([(w.test, True, None)])}
        ok = facts in ({(f"self.bounded.bounds.dominates{o}.bounded.bounds", False), (f"{o}.bounded.bounds.dominatesself.bounded.bounds", False),
                        (f"self.bounded.tighten_boundsor{o}.bounded.tighten_bounds", True)},
                       {(f"self.bounded.bounds.dominates{o}.bounded.bounds", False), (f"{o}.bounded.bounds.dominatesself.bounded.bounds", False),
                        (f"{o}.bounded.tighten_boundsorself.bounded.tighten_bounds", True)})
    r = next((x for x in lt.node.body if isinstance(x, ast.Return)), None)
    rok = r is not None and nrm(r.value).startswith(f"self.bounded.bounds.dominates{o}.bounded.bounds")
    if ok and rok:
        ctx.proved("R17c", fl, "BoundedComparator.__lt__", w, "comparator refinement",
                   "refine while neither dominates and some side can still tighten; then answer by dominance")
    else:
        ctx.violation("R17c", fl, "BoundedComparator.__lt__", w or lt.node, "comparator refinement",
                      "BoundedComparator.__lt__ no longer (refines both operands until one dominates or both are exhausted "
                      "and answers by dominance): sort()/min_bounded() can order overlapping intervals arbitrarily")
    mb = m.func("graphtage.bounds.min_bounded")
    sel = pat.first("if I is None or B < C:\n    I = B.bounded\n    C = B", mb.node)[1]
    if sel is not None and isinstance(mb.node.body[-1], ast.Return) and dotted(mb.node.body[-1].value) == sel["I"]:
        ctx.proved("R17c", mb.file, "min_bounded", mb.node, "min selection", "keeps the comparator-smaller candidate")
    else:
        ctx.violation("R17c", mb.file, "min_bounded", mb.node, "min selection", "min_bounded no longer keeps the smaller candidate under the comparator")


def r17d(ctx):
    m = ctx.model
    ctx.rule("R17d", "IterativeTighteningSearch discards held candidates only when they are known to be dominated: a "
                     "`self._tightened.clear()` / `self._untightened.clear()` in tighten_bounds is allowed (a) once goal_test() "
                     "holds (the best candidate dominates all others), (b) when a new candidate reaches the caller's lower bound "
                     "(nothing can beat it), or (c) for `_untightened` alone when its single element is moved to `_tightened`; "
                     "anywhere else a cheaper definitive candidate can be thrown away and the search ends on a non-minimum")
    q = m.need_class("IterativeTighteningSearch")
    f = m.method(q, "tighten_bounds")
    # the region of the rule: tighten_bounds and the methods of the class it calls (as statements or for their value), two
    # levels deep; a clear in a helper is judged under the helper's own conditions plus those of its only call site
    region, frontier = [(f, [])], [(f, [], ("tighten_bounds",))]
    for _ in range(2):
        nxt = []
        for g, gfacts, chain in frontier:
            for c in walk_no_nested(g.node):
                hname = self_attr(c.func) if isinstance(c, ast.Call) else None
                h = m.method(q, hname) if hname else None
                if h is None or hname in chain:
                    continue
                # one entry per call site: a helper called from several places is judged under each site's conditions
                hf = gfacts + [ast.unparse(t).replace(" ", "") for t, pol in flatten_conditions(dominating_conditions(c)) if pol]
                region.append((h, hf))
                nxt.append((h, hf, chain + (hname,)))
        frontier = nxt
    clears = [(c, gf) for g, gf in region for c in walk_no_nested(g.node)
              if isinstance(c, ast.Call) and isinstance(c.func, ast.Attribute) and c.func.attr == "clear"
              and self_attr(c.func.value) in ("_tightened", "_untightened")]
    ctx.floor("R17d", len(clears), 4, "heap clears in IterativeTighteningSearch.tighten_bounds and its helpers")
    for c, gf in clears:
        heap = self_attr(c.func.value)
        facts = gf + [ast.unparse(t).replace(" ", "") for t, pol in flatten_conditions(dominating_conditions(c)) if pol]
        why = None
        if "self.goal_test()" in facts:
            why = "under goal_test()"
        elif any(ft.startswith("self.initial_bounds.lower_bound>=") and ft.endswith(".bounds().upper_bound") for ft in facts):
            why = "a candidate reached the caller's lower bound"
        elif heap == "_untightened" and "len(self._untightened)==1" in facts:
            why = "the single open candidate is moved to the definitive heap"
        if why:
            ctx.proved("R17d", f.file, "IterativeTighteningSearch.tighten_bounds", c, f"self.{heap}.clear() @{len(facts)}", why)
        else:
            ctx.violation("R17d", f.file, "IterativeTighteningSearch.tighten_bounds", c, f"self.{heap}.clear() unjustified",
                          f"`{norm(c, 40)}` under {facts or 'no condition'}: the held candidates are dropped without goal_test() having "
                          f"established that the best one dominates them - a cheaper definitive candidate already in self.{heap} is lost "
                          f"and the search converges to a more expensive one (e.g. [2,2] held, [0,10] -> [6,6] resolved last: answer 6)")


def r17f(ctx):
    m = ctx.model
    ctx.rule("R17f", "heap keys follow their items: IterativeTighteningSearch keeps each candidate in a heap under the interval it had "
                     "when it was pushed; bounds(), best_match and goal_test() read those keys.  After asking a candidate to tighten, "
                     "the key must be refreshed whatever the answer - a candidate that answers False because it was already tightened "
                     "elsewhere (the same object held twice, or refined by its owner) otherwise keeps a stale key, and the search ends "
                     "with `not tightened` on an interval that is not single-valued")
    q = m.need_class("IterativeTighteningSearch")
    f = m.method(q, "tighten_bounds")
    n = 0
    for l in walk_no_nested(f.node):
        if not (isinstance(l, ast.For) and "min_node" in ast.unparse(l.iter)):
            continue
        for c in ast.walk(l):
            if isinstance(c, ast.Call) and self_attr(c.func) == "_update_bounds":
                n += 1
                facts = [(ast.unparse(t), pol) for t, pol in flatten_conditions(dominating_conditions(c, stop=l))]
                def pure_progress_flag(t):
                    defs = [a for a in ast.walk(l) if isinstance(a, ast.Assign) and isinstance(a.targets[0], ast.Name) and a.targets[0].id == t]
                    from_call = [a for a in defs if "tighten_bounds()" in ast.unparse(a.value)]
                    # another definition that sets it under a comparison of the item's bounds with the stored key refreshes stale keys
                    refresh = [a for a in defs if a not in from_call and isinstance(a.value, ast.Constant) and a.value.value is True
                               and any(_p and isinstance(t2, ast.Compare) and isinstance(t2.ops[0], ast.NotEq)
                                       and ".key" in ast.unparse(t2) and "bounds()" in ast.unparse(t2)
                                       for t2, _p in flatten_conditions(dominating_conditions(a, stop=l)))]
                    return bool(from_call) and not refresh
                flag = [t for t, pol in facts if pol and pure_progress_flag(t)]
                if flag:
                    ctx.violation("R17f", f.file, "IterativeTighteningSearch.tighten_bounds", c, "re-key after tightening",
                                  f"`{norm(c, 40)}` runs only under `if {flag[0]}:` - the candidate's own progress flag: a candidate whose "
                                  f"tighten_bounds() answers False is never re-keyed, so for the collection [A, A] (one object, twice) the "
                                  f"second entry keeps the interval it was pushed with and the search ends on [0, 7] instead of [7, 7]")
                else:
                    ctx.proved("R17f", f.file, "IterativeTighteningSearch.tighten_bounds", c, "re-key after tightening",
                               "the key is refreshed after every tighten call")
    ctx.floor("R17f", n, 1, "re-keying sites in the candidate loop")


def r17e(ctx):
    m = ctx.model
    ctx.rule("R17e", "the search's own progress flag and pruning are exact at the edges: (1) the goal branch of tighten_bounds "
                     "answers True when the search's bounds moved (its return is or-ed with a comparison against the bounds "
                     "taken on entry), because an enclosing search re-keys a candidate only on True; (2) a candidate is pruned "
                     "against the caller's initial bounds only when it is strictly worse (upper < lower), never on a tie; (3) "
                     "make_distinct keeps tightening an item while it is not finite and still makes progress")
    q = m.need_class("IterativeTighteningSearch")
    f = m.method(q, "tighten_bounds")
    entry = [a.targets[0].id for a in walk_no_nested(f.node) if isinstance(a, ast.Assign) and isinstance(a.targets[0], ast.Name)
             and ast.unparse(a.value).replace(" ", "") == "self.bounds()"]
    n = 0
    for br in walk_no_nested(f.node):
        if isinstance(br, ast.If) and ast.unparse(br.test).replace(" ", "") == "self.goal_test()":
            for r in [x for s_ in br.body for x in ast.walk(s_) if isinstance(x, ast.Return)]:
                n += 1
                from ..astx import resolve_local
                vals = r.value.values if isinstance(r.value, ast.BoolOp) and isinstance(r.value.op, ast.Or) else []
                from ..astx import inline_self_call
                from ..astx import inline_call
                vals = [inline_call(m, q, f.node, v) for v in vals]
                ok = any(any(isinstance(c_, ast.Compare) and any(e in ast.unparse(c_) for e in entry) for c_ in ast.walk(v)) for v in vals)
                if ok:
                    ctx.proved("R17e", f.file, "IterativeTighteningSearch.tighten_bounds", r, "goal reports progress",
                               "the goal branch answers True whenever the search's bounds moved since entry")
                else:
                    ctx.violation("R17e", f.file, "IterativeTighteningSearch.tighten_bounds", r, "goal reports progress",
                                  f"`{norm(r, 40)}` in the goal branch hands back the best candidate's own flag: a search whose bounds "
                                  f"went from [-inf, inf] to [3, 3] in this call answers False, an enclosing search (which re-keys a "
                                  f"candidate only on True) keeps the stale interval and can end on a non-minimal candidate")
    ctx.floor("R17e", n, 1, "returns of the goal branch")
    ub = m.method(q, "_update_bounds")
    k = 0
    for i in walk_no_nested(ub.node):
        if isinstance(i, ast.If) and "self.initial_bounds" in ast.unparse(i.test) and any(
                isinstance(c, ast.Call) and isinstance(c.func, ast.Attribute) and c.func.attr == "_delete_node" for s_ in i.body for c in ast.walk(s_)):
            disj = i.test.values if isinstance(i.test, ast.BoolOp) and isinstance(i.test.op, ast.Or) else [i.test]
            for t in [d_ for d_ in disj if "self.initial_bounds" in ast.unparse(d_)]:
                k += 1
                txt = ast.unparse(t).replace(" ", "")
                if ".dominates(" in txt or "<=" in txt or ">=" in txt:
                    ctx.violation("R17e", ub.file, "IterativeTighteningSearch._update_bounds", t, "strict pruning against initial bounds",
                                  f"`{norm(t, 70)}` prunes a candidate whose lower bound merely equals the caller's upper bound "
                                  f"(dominates() includes equality): with initial_bounds=Range(0, 10) and an optimum of exactly 10 the "
                                  f"optimum is deleted and the search ends on a worse candidate or on none")
                else:
                    ctx.proved("R17e", ub.file, "IterativeTighteningSearch._update_bounds", t, "strict pruning against initial bounds",
                               f"`{norm(t, 70)}` is strict")
    ctx.floor("R17e", k, 1, "prunings against the initial bounds")
    md = m.func("graphtage.bounds.make_distinct")
    j = 0
    for i in walk_no_nested(md.node):
        if isinstance(i, ast.If) and "finite" in ast.unparse(i.test) and isinstance(i.test, ast.UnaryOp):
            inner_raise = [x for s_ in i.body for x in ast.walk(s_) if isinstance(x, ast.Raise)]
            if not inner_raise:
                continue
            from ..astx import ancestors as _anc
            if any(isinstance(a, ast.If) and "finite" in ast.unparse(a.test) for a in _anc(i) if a is not i):
                continue        # the inner re-test that raises; the obligation sits on the outer guard
            j += 1
            loops = [w for w in i.body if isinstance(w, ast.While) and ".tighten_bounds()" in ast.unparse(w.test) and "finite" in ast.unparse(w.test)]
            if loops:
                ctx.proved("R17e", md.file, "make_distinct", loops[0], "finite before separating", "tightens while not finite and progressing")
            else:
                ctx.violation("R17e", md.file, "make_distinct", i, "finite before separating",
                              "make_distinct calls tighten_bounds() once on an item whose bounds are not finite and raises ValueError if an "
                              "end is still infinite, although further calls would make it finite ([0, inf] -> [2, inf] -> [2, 6])")
    ctx.floor("R17e", j, 1, "finiteness guards of make_distinct")


def r17g(ctx):
    m = ctx.model
    ctx.rule("R17g", "candidates are told from 'none yet' by identity: the items of a search are arbitrary Bounded objects, and "
                     "several define __len__ / __bool__ (EditCollection, SequenceEdit, the search itself), so a best candidate that "
                     "is an empty collection is falsy; a truth-value test on best_match / a popped item treats it as absent and "
                     "bounds() falls back to the initial interval - goal_test() then never holds")
    q = m.need_class("IterativeTighteningSearch")
    fl = m.files[m.classes[q][0]]
    n = hits = 0
    seen_ = set()
    for name, (kind, f) in sorted(m.attrs[q].items()):
        if kind != "def":
            continue
        n += 1
        cands = set()
        for a_ in walk_no_nested(f.node):
            if isinstance(a_, (ast.Assign, ast.AnnAssign)) and a_.value is not None:
                tgt = a_.targets[0] if isinstance(a_, ast.Assign) else a_.target
                v = a_.value
                src = self_attr(v) in ("best_match",) or \
                    (isinstance(v, ast.Call) and (self_attr(v.func) in ("remove_best",) or call_name(v) == "next"
                                                  or (isinstance(v.func, ast.Attribute) and v.func.attr in ("peek", "pop")))) or \
                    (isinstance(v, ast.Attribute) and v.attr == "item")
                if src and isinstance(tgt, ast.Name):
                    cands.add(tgt.id)

        def is_cand(e):
            return (isinstance(e, ast.Name) and e.id in cands) or self_attr(e) == "best_match" or \
                (isinstance(e, ast.Attribute) and e.attr == "item")
        for t in walk_no_nested(f.node):
            tests = [t.test] if isinstance(t, (ast.If, ast.While, ast.IfExp, ast.Assert)) else \
                ([t.operand] if isinstance(t, ast.UnaryOp) and isinstance(t.op, ast.Not) else
                 (list(t.values) if isinstance(t, ast.BoolOp) else []))
            for test in tests:
                o = test
                while isinstance(o, ast.UnaryOp) and isinstance(o.op, ast.Not):
                    o = o.operand
                if is_cand(o) and id(o) not in seen_:
                    seen_.add(id(o))
                    hits += 1
                    ctx.violation("R17g", fl, f"IterativeTighteningSearch.{name}", t, f"truthiness of {ast.unparse(o)}",
                                  f"`{norm(test, 50)}` tests the candidate `{ast.unparse(o)}` by truth value: a candidate that is an empty "
                                  f"collection (len 0) or whose __bool__ is False counts as 'no candidate'; use `is None`")
    if not hits:
        ctx.proved("R17g", fl, "IterativeTighteningSearch", None, "candidates tested by identity",
                   f"{n} methods: no truth-value test on best_match, a popped or peeked item, or a local bound to one")
    ctx.floor("R17g", n, 8, "methods of IterativeTighteningSearch scanned")


def run(ctx):
    r17a(ctx)
    r17b(ctx)
    r17g(ctx)
    r17c(ctx)
    r17d(ctx)
    r17e(ctx)
    r17f(ctx)
    from .c05 import r05c
    r05c(ctx)     # candidates taken from the one-shot iterator are retained on a heap on every path
    ctx.assume("that the search ends with a minimum, that ordering is by final cost and that all of this terminates for "
               "every tightening schedule are statements about runtime behaviour and are NOT decided")
