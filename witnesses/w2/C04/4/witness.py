"""C04 witness: a search reports progress although its interval already is a single value and does not change.

The caller knows a correct lower bound for the optimum (12) and passes initial_cost = [12, 20]; the only candidate is
the element-wise edit of ["ab","cd","ef"] -> ["uv","wx","yz"], whose own bounds start at [0, 12] and whose cost is 12.
After the first step the search's interval is [12, 12]; the following calls of tighten_bounds() keep returning True
while bounds() stays [12, 12].
"""
import logging
import sys

logging.disable(logging.CRITICAL)

from graphtage import ListNode, StringNode
from graphtage.bounds import Range
from graphtage.edits import PossibleEdits
from graphtage.printer import DEFAULT_PRINTER
from graphtage.search import IterativeTighteningSearch

DEFAULT_PRINTER.quiet = True


def trees():
    a = ListNode([StringNode("ab"), StringNode("cd"), StringNode("ef")], allow_list_edits=False)
    b = ListNode([StringNode("uv"), StringNode("wx"), StringNode("yz")], allow_list_edits=False)
    return a, b


a, b = trees()
reference = a.edits(b)
print(f"candidate on its own: {reference.bounds()}", end="")
while reference.tighten_bounds():
    print(f" -> {reference.bounds()}", end="")
print()
optimum = reference.bounds().upper_bound

problems = []


def drive(name, bounded):
    print(f"{name}: initial {bounded.bounds()}")
    for step in range(1, 500):
        before = bounded.bounds()
        progressed = bounded.tighten_bounds()
        after = bounded.bounds()
        print(f"  step {step}: tighten_bounds() -> {progressed}, {before} -> {after}")
        if after.lower_bound < before.lower_bound or after.upper_bound > before.upper_bound:
            problems.append(f"{name} step {step}: the interval widened from {before} to {after}")
        if progressed and after == before:
            problems.append(f"{name} step {step}: progress reported, but the interval stayed {after}"
                            + (" (already a single value)" if before.definitive() else ""))
        if not progressed:
            if not after.definitive():
                problems.append(f"{name} step {step}: no progress on the non-definitive interval {after}")
            break
    final = bounded.bounds()
    if not final.definitive() or final.upper_bound != optimum:
        problems.append(f"{name}: final bounds {final}, expected the single value {optimum}")


for hint in (Range(optimum, optimum + 8), Range(optimum, optimum)):
    a, b = trees()
    drive(f"PossibleEdits(initial_cost={hint})", PossibleEdits(a, b, iter([a.edits(b)]), initial_cost=hint))
    a, b = trees()
    drive(f"IterativeTighteningSearch(initial_bounds={hint})",
          IterativeTighteningSearch(iter([a.edits(b)]), initial_bounds=hint))

if problems:
    print("C04 VIOLATED:")
    for p in problems:
        print("  - " + p)
    sys.exit(1)
print("ok")
sys.exit(0)
